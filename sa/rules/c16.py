# C16 -- declarative codec: the laws of every building block (bit-field
# pair, integer pair, length exactness, error discipline, presence/length
# protocol, ownership of the decoded sequence).  The universal over all *compositions* of blocks is not decided;
# these laws are the premises every composition relies on.
#
# Technique: a small path-sensitive symbolic walker over the method bodies
# (forward substitution into exprnf terms, attribute/subscript stores kept in
# the environment, loops summarised as one symbolic iteration with the
# loop-carried variables free, try/except as an extra exceptional path),
# complete decision tables over the atoms of each method, normal-form
# comparison (exprnf: linear collection, x & (2^k-1), shifts), the linear
# rewrite ((x*m + o) - o) // m -> x, and folding of the class table through
# the MRO.  Nothing of the repository is imported or executed.

import ast
import itertools
import re

from report import AnalysisError
from pyfront import Repo, canon, qualname
from pyutil import params, rel
from consteval import Ev, Unknown, Raised
from escape import handler_classes, catches
import exprnf as X

EXPLANATION = (
    "Symbolic walk of codec.py's building blocks: every method body is turned "
    "into path outcomes (return / raise / fall-through) whose values, stores and "
    "calls are exprnf terms over the method's inputs; loops are summarised by one "
    "symbolic iteration. From these the rules decide, for all inputs: the "
    "bit-field offset/mask derivation and the (val & mask) << offset / "
    "(blob >> offset) & mask pair, the integer pair's inverse law by the linear "
    "rewrite ((x*m+o)-o)//m -> x with identical byte-order/sign attributes, the "
    "integer class table through the MRO, the complete decision tables of "
    "Field.from_bytes/to_bytes and of the Envelope tail check, the offset "
    "advance of Envelope/Sequence loops, the catch-all wrappers around every "
    "field call, and the presence test `is False` preceding any length/decoder call. "
    "R6 resolves the object Sequence.from_bytes returns through the walker's environment to its origin "
    "(list created by the call / argument / default-argument object / class attribute / module-level "
    "object) and demands that a decode never fills and returns one long-lived list that it only grows.")
ASSUMPTIONS = [
    "the laws of each building block are decided, not the universal over all compositions of blocks (nesting, callbacks, chained variable lengths)",
    "int.from_bytes / int.to_bytes / bytes slicing / bytes.join have their documented Python semantics; int.to_bytes raises OverflowError for an unencodable value",
    "callbacks (get_pres/get_len/get_val) are pure functions of their arguments",
    "R6: a default-argument object / class attribute / module-level object that no toolkit code mentions outside Sequence.from_bytes is not emptied by reflection (__defaults__, getattr, globals())",
    "ceil(sum/8): the derived-length term is tabulated exhaustively over bit sums 0..64 (the property's 1..4 octet layouts are 1..32), not proved for unbounded sums",
]

F = rel("codec")


# ------------------------------------------------------------------ terms

def K(v):
    return ("k", v)


NONE = K(None)
FALSE = K(False)
TRUE = K(True)


def V(n):
    return X.V(n)


def C(n):
    return X.C(n)


def mcall(name, recv, *args, **kw):
    return ("mcall", name, recv) + tuple(args) + tuple(("kw", k, kw[k]) for k in sorted(kw))


def call(name, *args):
    return ("call", name) + tuple(args)


def idx(b, i):
    return ("idx", b, i)


def sl(b, lo=NONE, hi=NONE, st=NONE):
    return ("slice", b, lo, hi, st)


def is_(a, b):
    a, b = sorted([a, b], key=repr)
    return ("cmp", "is", a, b)


def show(t):
    if not isinstance(t, tuple) or not t:
        return repr(t)
    k = t[0]
    if k == "k":
        v = t[1]
        if isinstance(v, frozenset):
            return "{" + ", ".join(sorted(repr(x) for x in v)) + "}"
        return repr(v)
    if k == "mcall":
        return "%s.%s(%s)" % (show(t[2]), t[1], ", ".join(show(a) for a in t[3:]))
    if k == "call":
        return "%s(%s)" % (t[1], ", ".join(show(a) for a in t[2:]))
    if k == "kw":
        return "%s=%s" % (t[1] if t[1] is not None else "**", show(t[2]))
    if k == "star":
        return "*" + show(t[1])
    if k == "slice":
        return "%s[%s:%s%s]" % (show(t[1]), "" if t[2] == NONE else show(t[2]), "" if t[3] == NONE else show(t[3]),
                                "" if t[4] == NONE else ":" + show(t[4]))
    if k == "idx":
        return "%s[%s]" % (show(t[1]), show(t[2]))
    if k == "attr":
        return "%s.%s" % (show(t[1]), t[2])
    if k == "cmp" and t[1] in ("is", "in"):
        return "(%s %s %s)" % (show(t[2]), t[1], show(t[3]))
    if k == "cmp":
        return "(%s %s %s)" % (show(t[2]), t[1], show(t[3]))
    if k == "not":
        return "not " + show(t[1])
    if k in ("and", "or"):
        return "(" + (" %s " % k).join(show(x) for x in t[1:]) + ")"
    if k in ("tuple", "list"):
        return ("(%s)" if k == "tuple" else "[%s]") % ", ".join(show(x) for x in t[1:])
    if k == "dict":
        return "{}"
    if k == "comp":
        return "[%s for $e in %s]" % (show(t[1]), show(t[2]))
    if k == "dictcomp":
        return "{%s: %s for $e in %s}" % (show(t[1]), show(t[2]), show(t[3]))
    if k == "lambda":
        return "lambda/%d: %s" % (t[1], show(t[2]))
    if k == "fn":
        return "<local function %s>" % t[1]
    if k == "obj":
        return "<new %s %s>" % ("list" if t[2] == ("list",) else "dict", t[1])
    if k == "ite":
        return "(%s if %s else %s)" % (show(t[2]), show(t[1]), show(t[3]))
    if k in ("+", "*", "&", "|", "^"):
        return "(" + (" %s " % k).join(show(x) for x in t[1:]) + ")"
    if k in ("mod", "div", "<<", ">>", "truediv"):
        op = {"mod": "%", "div": "//", "truediv": "/"}.get(k, k)
        return "(%s %s %s)" % (show(t[1]), op, show(t[2]))
    if k == "c":
        return str(t[1])
    if k == "v":
        return t[1]
    if k == "exc":
        return "<exception caught by `%s`>" % t[1]
    return repr(t)


def mydiv(a, n):
    """exprnf.div plus the exact-division rewrite (x*m) // m -> x (m != 0)."""
    if not X.is_c(n):
        if a == n:
            return C(1)
        if a[0] == "*" and n in a[1:]:
            rest = list(a[1:])
            rest.remove(n)
            return rest[0] if len(rest) == 1 else X.mul(*rest)
    return X.div(a, n)


_REB = {"+": X.add, "*": X.mul, "mod": X.mod, "&": X.band, "|": X.bor, "^": X.bxor,
        "<<": X.shl, ">>": X.shr, "div": mydiv}


def rebuild(t, f):
    """map f over the leaves-first rebuilt term, re-normalising."""
    r = f(t)
    if r is not None:
        return r
    if not isinstance(t, tuple) or not t:
        return t
    k = t[0]
    if k in ("c", "v", "k"):
        return t
    if k in _REB:
        return _REB[k](*[rebuild(x, f) for x in t[1:]])
    return tuple(rebuild(x, f) if isinstance(x, tuple) else x for x in t)


def subst(t, a, b):
    return rebuild(t, lambda x: b if x == a else None)


def subterms(t):
    yield t
    if isinstance(t, tuple):
        for x in t[1:]:
            if isinstance(x, tuple):
                for s in subterms(x):
                    yield s


def teval(t, bind):
    """Value of an arithmetic/boolean term under a binding of sub-terms to
    ints (the checker's own evaluator over its own normal form)."""
    if t in bind:
        return bind[t]
    k = t[0]
    if k == "c":
        return t[1]
    if k == "k" and isinstance(t[1], (bool, int)):
        return t[1]
    if k == "+":
        return sum(teval(x, bind) for x in t[1:])
    if k == "*":
        r = 1
        for x in t[1:]:
            r *= teval(x, bind)
        return r
    if k == "div":
        return teval(t[1], bind) // teval(t[2], bind)
    if k == "mod":
        return teval(t[1], bind) % teval(t[2], bind)
    if k == "<<":
        return teval(t[1], bind) << teval(t[2], bind)
    if k == ">>":
        return teval(t[1], bind) >> teval(t[2], bind)
    if k == "&":
        r = -1
        for x in t[1:]:
            r &= teval(x, bind)
        return r
    if k == "|":
        r = 0
        for x in t[1:]:
            r |= teval(x, bind)
        return r
    if k == "ite":
        return teval(t[2], bind) if teval(t[1], bind) else teval(t[3], bind)
    if k == "not":
        return not teval(t[1], bind)
    if k == "and":
        return all(teval(x, bind) for x in t[1:])
    if k == "or":
        return any(teval(x, bind) for x in t[1:])
    if k == "cmp" and t[1] == "<":
        return teval(t[2], bind) < teval(t[3], bind)
    if k == "cmp" and t[1] == "==":
        return teval(t[2], bind) == teval(t[3], bind)
    raise AnalysisError("term outside the arithmetic vocabulary: %s" % show(t)[:80])


# ------------------------------------------------------------- lowering

class Lw(X.PyLower):
    """Python expression -> term.  The environment maps *address terms*
    (('v', name) | ('v', 'a.b') | ('idx', base, i)) to value terms."""

    def __init__(self, env):
        X.PyLower.__init__(self, env={})
        self.st = env

    def addr(self, e):
        if isinstance(e, ast.Name):
            return V(e.id)
        if isinstance(e, ast.Attribute):
            b = self.lower(e.value)
            if b[0] == "v":
                return V(b[1] + "." + e.attr)
            return ("attr", b, e.attr)
        if isinstance(e, ast.Subscript) and not isinstance(e.slice, ast.Slice):
            return idx(self.lower(e.value), self.lower(e.slice))
        raise AnalysisError("store target outside the vocabulary: %s" % canon(e)[:60])

    def args(self, c):
        out = []
        for a in c.args:
            if isinstance(a, ast.Starred):
                out.append(("star", self.lower(a.value)))
            else:
                out.append(self.lower(a))
        for k in sorted(c.keywords, key=lambda k: k.arg or ""):
            out.append(("kw", k.arg, self.lower(k.value)))
        return tuple(out)

    def lower(self, e):
        if isinstance(e, ast.Constant):
            v = e.value
            if isinstance(v, bool) or v is None or isinstance(v, (str, bytes)):
                return K(v)
            if isinstance(v, int):
                return C(v)
            raise AnalysisError("constant outside the vocabulary: %r" % (v,))
        if isinstance(e, (ast.Name, ast.Attribute)) or (
                isinstance(e, ast.Subscript) and not isinstance(e.slice, ast.Slice)):
            a = self.addr(e)
            return self.st.get(a, a)
        if isinstance(e, ast.Subscript):
            s = e.slice
            return sl(self.lower(e.value),
                      self.lower(s.lower) if s.lower is not None else NONE,
                      self.lower(s.upper) if s.upper is not None else NONE,
                      self.lower(s.step) if s.step is not None else NONE)
        if isinstance(e, ast.BinOp) and isinstance(e.op, ast.Pow):
            if self.lower(e.left) == C(2):
                return X.shl(C(1), self.lower(e.right))       # 2 ** k == 1 << k for k >= 0
            raise AnalysisError("power with a base other than 2: %s" % canon(e)[:60])
        if isinstance(e, ast.BinOp) and isinstance(e.op, ast.FloorDiv):
            return mydiv(self.lower(e.left), self.lower(e.right))
        if isinstance(e, ast.BinOp) and isinstance(e.op, ast.Div):
            # true (floating point) division: a known operator that is NOT the inverse of integer multiplication
            return ("truediv", self.lower(e.left), self.lower(e.right))
        if isinstance(e, ast.Compare):
            if len(e.ops) != 1:
                raise AnalysisError("chained comparison: %s" % canon(e)[:60])
            a, b = self.lower(e.left), self.lower(e.comparators[0])
            op = e.ops[0]
            if isinstance(op, ast.Is):
                return is_(a, b)
            if isinstance(op, ast.IsNot):
                return ("not", is_(a, b))
            if isinstance(op, (ast.In, ast.NotIn)):
                rhs = e.comparators[0]
                if isinstance(rhs, (ast.Tuple, ast.List, ast.Set)) and all(isinstance(x, ast.Constant) for x in rhs.elts):
                    b = K(frozenset(x.value for x in rhs.elts))
                t = ("cmp", "in", a, b)
                return t if isinstance(op, ast.In) else ("not", t)
            sym = {ast.Lt: "<", ast.LtE: "<=", ast.Gt: ">", ast.GtE: ">=", ast.Eq: "==", ast.NotEq: "!="}[type(op)]
            return X.cmp_(sym, a, b)
        if isinstance(e, ast.BoolOp):
            return ("and" if isinstance(e.op, ast.And) else "or",) + tuple(self.lower(v) for v in e.values)
        if isinstance(e, ast.UnaryOp) and isinstance(e.op, ast.Not):
            return ("not", self.lower(e.operand))
        if isinstance(e, (ast.Tuple, ast.List)):
            return ("tuple" if isinstance(e, ast.Tuple) else "list",) + tuple(self.lower(x) for x in e.elts)
        if isinstance(e, ast.Dict):
            if e.keys:
                raise AnalysisError("non-empty dict display: %s" % canon(e)[:60])
            return ("dict",)
        if isinstance(e, ast.Call):
            f = e.func
            if isinstance(f, ast.Attribute):
                return ("mcall", f.attr, self.lower(f.value)) + self.args(e)
            if isinstance(f, ast.Name):
                tgt = self.st.get(V(f.id))
                if tgt is not None and tgt[0] == "v" and "." in tgt[1]:
                    recv, _, meth = tgt[1].rpartition(".")
                    return ("mcall", meth, self.st.get(V(recv), V(recv))) + self.args(e)
                if tgt is None and f.id in ("list", "dict") and not e.args and not e.keywords:
                    return (f.id,)                 # list() / dict(): the same fresh empty object as [] / {}
                return ("call", f.id) + self.args(e)
            raise AnalysisError("callee outside the vocabulary: %s" % canon(e)[:60])
        if isinstance(e, (ast.ListComp, ast.GeneratorExp, ast.DictComp)):
            if len(e.generators) != 1 or e.generators[0].ifs or not isinstance(e.generators[0].target, ast.Name):
                raise AnalysisError("comprehension outside the vocabulary: %s" % canon(e)[:60])
            g = e.generators[0]
            it = self.lower(g.iter)
            env2 = dict(self.st)
            env2[V(g.target.id)] = V("$e")
            sub = Lw(env2)
            if isinstance(e, ast.DictComp):
                return ("dictcomp", sub.lower(e.key), sub.lower(e.value), it)
            return ("comp", sub.lower(e.elt), it)
        if isinstance(e, ast.Lambda):
            ps = [a.arg for a in e.args.args]
            # the body is evaluated at call time: attributes are read then
            env2 = {k: V("self") for k, v in self.st.items() if v == V("self")}
            for i, p in enumerate(ps):
                env2[V(p)] = V("$%d" % i)
            return ("lambda", len(ps), Lw(env2).lower(e.body))
        if isinstance(e, (ast.BinOp, ast.UnaryOp, ast.IfExp)):
            return X.PyLower.lower(self, e)
        raise AnalysisError("expression outside the vocabulary: %s" % canon(e)[:60])


# ------------------------------------------------------- literals / tables

def tlits(t, pol=True):
    """literal set of a condition term taken with polarity pol"""
    k = t[0]
    if k == "not":
        return tlits(t[1], not pol)
    if (k == "and" and pol) or (k == "or" and not pol):
        out = set()
        for x in t[1:]:
            out |= tlits(x, pol)
        return out
    if k == "k":
        return set() if bool(t[1]) == pol else {(K("unreachable"), True)}
    return {(t, pol)}


def atoms_of(t, out):
    k = t[0]
    if k == "not":
        return atoms_of(t[1], out)
    if k in ("and", "or"):
        for x in t[1:]:
            atoms_of(x, out)
        return out
    if k == "k":
        return out
    if t not in out:
        out.append(t)
    return out


def ceval(t, assign):
    k = t[0]
    if k == "not":
        return not ceval(t[1], assign)
    if k == "and":
        return all(ceval(x, assign) for x in t[1:])
    if k == "or":
        return any(ceval(x, assign) for x in t[1:])
    if k == "k":
        return bool(t[1])
    if t not in assign:
        raise AnalysisError("atom not in the decision table: %s" % show(t)[:80])
    return assign[t]


# ------------------------------------------------------------ the walker

class St:
    __slots__ = ("env", "conds", "events")

    def __init__(self, env, conds=(), events=()):
        self.env = env
        self.conds = tuple(conds)
        self.events = tuple(events)

    def fork(self, cond=None, event=None):
        return St(dict(self.env), self.conds + ((cond,) if cond is not None else ()),
                  self.events + ((event,) if event is not None else ()))


class Out:
    def __init__(self, kind, st, val=None, cls=None, node=None, cause=False):
        self.kind, self.st, self.val, self.cls, self.node, self.cause = kind, st, val, cls, node, cause

    @property
    def lits(self):
        out = set()
        for t, p in self.st.conds:
            out |= tlits(t, p)
        return out

    def sig(self):
        if self.kind == "ret":
            return "return " + show(self.val)
        if self.kind == "raise":
            return "raise " + str(self.cls)
        return self.kind

    def calls(self, name=None):
        out = []
        for e in self.st.events:
            if e[0] == "call" and (name is None or (e[1][0] == "mcall" and e[1][1] == name) or
                                   (e[1][0] == "call" and e[1][1] == name)):
                out.append(e[1])
        return out

    def all_calls(self):
        """every call term evaluated on the path (statement calls, calls nested in stores/conditions/returns)"""
        seen = []
        for e in self.st.events:
            if e[0] in ("eval", "call") and e[1][0] in ("mcall", "call") and e[1] not in seen:
                seen.append(e[1])
        return seen

    def stores(self):
        return [(e[1], e[2]) for e in self.st.events if e[0] == "store"]


class Loop:
    def __init__(self, node, kind, head, pre, env0, outs, target):
        self.node, self.kind, self.head, self.pre, self.env0, self.outs, self.target = \
            node, kind, head, pre, env0, outs, target

    def falls(self):
        return [o for o in self.outs if o.kind in ("fall", "continue")]

    def carried(self):
        """names assigned in the body whose value at the end of an iteration
        depends on the value at its start (or that are re-assigned)"""
        out = []
        for a in self.pre:
            if a[0] == "v" and "." not in a[1]:
                for b in self.falls():
                    v = b.st.env.get(a, a)
                    if v != a and any(s == a for s in subterms(v)):
                        if a not in out:
                            out.append(a)
        return out


def assigned_addrs(stmts, lw):
    out = []
    for st in stmts:
        for n in ast.walk(st):
            tg = []
            if isinstance(n, ast.Assign):
                tg = list(n.targets)
            elif isinstance(n, (ast.AugAssign, ast.AnnAssign)):
                tg = [n.target]
            elif isinstance(n, ast.For):
                tg = [n.target]
            for t in tg:
                for x in (t.elts if isinstance(t, (ast.Tuple, ast.List)) else [t]):
                    if isinstance(x, ast.Name):
                        a = V(x.id)
                        if a not in out:
                            out.append(a)
    return out


def eval_calls(e, lw):
    """call terms evaluated by expression e, inner calls first; bodies of
    lambdas and comprehensions are not entered (deferred / per element)"""
    out = []

    def rec(n):
        if isinstance(n, ast.Lambda):
            return
        if isinstance(n, (ast.ListComp, ast.GeneratorExp, ast.DictComp, ast.SetComp)):
            for g in n.generators:
                rec(g.iter)
            return
        for c in ast.iter_child_nodes(n):
            rec(c)
        if isinstance(n, ast.Call):
            out.append(lw.lower(n))
    if e is not None:
        rec(e)
    return tuple(("eval", t) for t in out)


class Sx:
    """Path-sensitive symbolic walk of a statement list."""

    def __init__(self, limit=400):
        self.loops = []
        self.steps = 0
        self.limit = limit

    def run(self, stmts, st):
        self.steps += 1
        if self.steps > self.limit * 50:
            raise AnalysisError("symbolic walk: too many paths")
        stmts = list(stmts)
        for i, s in enumerate(stmts):
            rest = stmts[i + 1:]
            lw = Lw(st.env)
            if isinstance(s, ast.Expr):
                if isinstance(s.value, ast.Constant):
                    continue
                t = lw.lower(s.value)
                st = st.fork(event=("call", t) if t[0] in ("mcall", "call") else ("expr", t))
                st.events = st.events[:-1] + eval_calls(s.value, lw) + st.events[-1:]
                continue
            if isinstance(s, ast.Pass):
                continue
            if isinstance(s, (ast.Assign, ast.AnnAssign)):
                if isinstance(s, ast.AnnAssign):
                    if s.value is None:
                        continue
                    targets = [s.target]
                else:
                    targets = s.targets
                v = lw.lower(s.value)
                st = st.fork()
                st.events = st.events + eval_calls(s.value, lw)
                for t in targets:
                    self.assign(t, v, st, lw)
                continue
            if isinstance(s, ast.AugAssign):
                cur = lw.lower(s.target)
                val = lw.lower(s.value)
                op = type(s.op)
                fn = {ast.Add: X.add, ast.Sub: X.sub, ast.Mult: X.mul, ast.BitOr: X.bor, ast.BitAnd: X.band,
                      ast.BitXor: X.bxor, ast.LShift: X.shl, ast.RShift: X.shr, ast.FloorDiv: mydiv, ast.Mod: X.mod}.get(op)
                if fn is None:
                    raise AnalysisError("augmented assignment outside the vocabulary: %s" % canon(s)[:60])
                st = st.fork()
                st.events = st.events + eval_calls(s.value, lw)
                self.assign(s.target, fn(cur, val), st, lw)
                continue
            if isinstance(s, ast.If):
                c = lw.lower(s.test)
                st = st.fork()
                st.events = st.events + eval_calls(s.test, lw)
                if c[0] == "k":
                    return self.run(list(s.body if c[1] else s.orelse) + rest, st)
                return self.run(list(s.body) + rest, st.fork(cond=(c, True))) + \
                    self.run(list(s.orelse) + rest, st.fork(cond=(c, False)))
            if isinstance(s, ast.Return):
                st = st.fork()
                st.events = st.events + eval_calls(s.value, lw)
                return [Out("ret", st, lw.lower(s.value) if s.value is not None else NONE, node=s)]
            if isinstance(s, ast.Raise):
                cls = "Exception"
                if s.exc is not None:
                    e = s.exc.func if isinstance(s.exc, ast.Call) else s.exc
                    cls = canon(e)
                return [Out("raise", st, cls=cls, node=s, cause=s.cause is not None)]
            if isinstance(s, ast.Break):
                return [Out("break", st, node=s)]
            if isinstance(s, ast.Continue):
                return [Out("continue", st, node=s)]
            if isinstance(s, ast.FunctionDef):
                st = st.fork()
                st.env[V(s.name)] = ("fn", s.name)
                continue
            if isinstance(s, (ast.For, ast.While)):
                if s.orelse:
                    raise AnalysisError("loop with else clause")
                st, escaped = self.loop(s, st, lw)
                if escaped:
                    return escaped + self.run(rest, st)
                continue
            if isinstance(s, ast.Try):
                return self.try_(s, st, rest)
            raise AnalysisError("statement outside the vocabulary: %s" % canon(s)[:60])
        return [Out("fall", st)]

    def assign(self, t, v, st, lw):
        if isinstance(t, (ast.Tuple, ast.List)):
            if v[0] in ("tuple", "list") and len(v) - 1 == len(t.elts):
                for x, vv in zip(t.elts, v[1:]):
                    self.assign(x, vv, st, lw)
            else:
                for i, x in enumerate(t.elts):
                    self.assign(x, idx(v, C(i)), st, lw)
            return
        a = Lw(st.env).addr(t)
        if isinstance(t, ast.Name) and v in (("list",), ("dict",)):
            v = ("obj", t.id, v)       # a fresh mutable object: keep its identity, not its (changing) content
        st.env[a] = v
        if not isinstance(t, ast.Name):
            st.events = st.events + (("store", a, v),)

    def loop(self, s, st, lw):
        asg = assigned_addrs(s.body, lw)
        target = None
        env2 = dict(st.env)
        if isinstance(s, ast.For):
            if not isinstance(s.target, ast.Name):
                raise AnalysisError("loop target outside the vocabulary")
            target = s.target.id
            head = lw.lower(s.iter)
            env2[V(target)] = V("$it")
        pre = {}
        for a in asg:
            if target is not None and a == V(target):
                continue
            pre[a] = st.env.get(a, a)
            env2.pop(a, None)
        # attribute/subscript stores made in the body are not carried: drop
        # stale facts about them
        if isinstance(s, ast.While):
            head = Lw(env2).lower(s.test)
        outs = self.run(s.body, St(env2))
        rec = Loop(s, "for" if isinstance(s, ast.For) else "while", head, pre, dict(st.env), outs, target)
        self.loops.append(rec)
        st2 = St(dict(env2), st.conds, st.events + (("loop", rec),))
        st2.env.pop(V(target), None) if target else None
        escaped = []
        for o in outs:
            if o.kind in ("ret", "raise"):
                escaped.append(Out(o.kind, St(o.st.env, st.conds + ((("inloop", id(rec)), True),) + o.st.conds,
                                              st.events + (("loop", rec),) + o.st.events),
                                   o.val, o.cls, o.node, o.cause))
        return st2, escaped

    def try_(self, s, st, rest):
        if s.finalbody:
            raise AnalysisError("try/finally outside the vocabulary")
        hs = [(handler_classes(h), "except %s" % (canon(h.type) if h.type is not None else "<all>")) for h in s.handlers]
        outs = []
        for o in self.run(s.body, st):
            if o.kind == "fall":
                outs += self.run(list(s.orelse) + rest, o.st)
            elif o.kind == "raise" and catches([hs], o.cls) is not None:
                txt = catches([hs], o.cls)
                h = s.handlers[[t for _, t in hs].index(txt)]
                outs += self.handler(h, txt, o.st, rest, explicit=o)
            else:
                outs.append(o)
        # implicit: any operation of the protected region raises
        lw = Lw(st.env)
        asg = assigned_addrs(s.body, lw)
        for h, (_, txt) in zip(s.handlers, hs):
            env2 = dict(st.env)
            for a in asg:
                env2.pop(a, None)
            outs += self.handler(h, txt, St(env2, st.conds, st.events), rest)
        return outs

    def handler(self, h, txt, st, rest, explicit=None):
        st = st.fork(cond=(("exc", txt), True), event=("exc", txt))
        if h.name:
            st.env[V(h.name)] = V("$exc")
        return self.run(list(h.body) + rest, st)


def walk_method(fd, roles):
    """symbolic walk of a method with its parameters renamed to roles"""
    ps = params(fd)
    if len(ps) < len(roles):
        raise AnalysisError("%s: expected parameters %s, found %s" % (fd.name, roles, ps))
    env = {}
    for p, r in zip(ps, roles):
        env[V(p)] = V(r if r == "self" else "$" + r)
    if fd.args.kwarg is not None:
        env[V(fd.args.kwarg.arg)] = V("$kw")
    if fd.args.vararg is not None:
        env[V(fd.args.vararg.arg)] = V("$args")
    sx = Sx()
    outs = sx.run(fd.body, St(env))
    return sx, outs


def table(outs, sig):
    """complete decision table of the outcomes over their atoms:
    (atoms, {assignment tuple: signature})"""
    atoms = []
    for o in outs:
        for t, _ in o.st.conds:
            atoms_of(t, atoms)
    atoms = [a for a in atoms if a[0] not in ("exc", "inloop")]
    if len(atoms) > 8:
        raise AnalysisError("decision table too large")
    rows = {}
    normal = [o for o in outs if not any(t[0] in ("exc",) for t, _ in o.st.conds)]
    for vals in itertools.product([False, True], repeat=len(atoms)):
        assign = dict(zip(atoms, vals))
        hit = [o for o in normal if all(ceval(t, assign) == p for t, p in o.st.conds if t[0] != "inloop")]
        sigs = sorted({sig(o) for o in hit})
        rows[vals] = sigs[0] if len(sigs) == 1 else tuple(sigs)
    return atoms, rows


def fmt_atoms(atoms):
    return sorted(show(a) for a in atoms)


def fmt_rows(atoms, rows, names=None):
    out = {}
    for vals, s in rows.items():
        k = ", ".join("%s=%d" % ((names or {}).get(a, show(a)), v) for a, v in sorted(zip(atoms, vals), key=lambda z: show(z[0])))
        out[k] = s
    return out


def need(repo, cls, meth):
    parts = cls.split(".")
    ci = repo.need_class("codec", parts[0])
    for p in parts[1:]:
        if p not in ci.inner:
            raise AnalysisError("anchor class codec.%s vanished" % cls)
        ci = ci.inner[p]
    fd = ci.methods.get(meth)
    if fd is None:
        raise AnalysisError("anchor method codec.%s.%s vanished" % (cls, meth))
    return ci, fd


# pres literal classification ------------------------------------------------

PRES = mcall("get_pres", V("self"), V("$vals"))


def pres_kind(atom):
    """how an atom tests the presence callback: 'is False' | 'falsy' |
    '== False' | None (not a presence test)"""
    if atom == is_(PRES, FALSE):
        return "is False"
    if atom == PRES:
        return "falsy"
    if atom == X.cmp_("==", PRES, FALSE) or atom == X.cmp_("==", PRES, C(0)):
        return "== False"
    if atom == is_(PRES, TRUE) or atom == X.cmp_("==", PRES, TRUE):
        return "is/== True"
    return None


def absent_value(atom, val):
    """truth of 'field absent' given the atom's truth value"""
    k = pres_kind(atom)
    if k in ("is False", "== False"):
        return val
    return not val


# ====================================================================== R1

def r1_set_init(L, repo):
    """R1 (group: BitFieldSet.__init__): offset/mask/length derivation of a bit-field set"""
    R = "C16.R1"
    ci, fd = need(repo, "BitFieldSet", "__init__")
    fn = "BitFieldSet.__init__"
    L.fn(F, fn)
    sx, outs = walk_method(fd, ["self"])
    falls = [o for o in outs if o.kind in ("fall", "ret")]
    raises = [o for o in outs if o.kind == "raise"]
    L.require(R, F, fn, "every rejection of a definition raises ProtocolError", ["ProtocolError"],
              sorted({o.cls for o in raises}) or ["<none>"])
    if not falls:
        raise AnalysisError("BitFieldSet.__init__: no normal path")
    F0 = mcall("get", V("$kw"), K("set"), V("self.STRUCT"))
    ORDER = idx(V("self.p"), K("order"))
    Z = X.cmp_("==", V("self.len"), C(0))
    n_loops = 0
    len_rows = {}      # (z, extra-literals) -> len term
    for o in falls:
        lits = o.lits
        rev_l = [(t, p) for t, p in lits if t[0] == "cmp" and t[1] == "in" and t[2] == ORDER]
        z_l = [(t, p) for t, p in lits if t == Z]
        other = [(t, p) for t, p in lits if (t, p) not in rev_l and (t, p) not in z_l and
                 not (t[0] == "cmp" and t[1] == "is")]
        if len(rev_l) != 1:
            L.ob(R, F, fn, "field order is selected by the 'order' parameter on every path", "one test of self.p['order']",
                 [show(t) for t, _ in rev_l], False, fd.lineno)
            continue
        (rt, rp), = rev_l
        L.require(R, F, fn, "orders that mean LSB-first", ["little", "lsb"],
                  sorted(rt[3][1]) if rt[3][0] == "k" and isinstance(rt[3][1], frozenset) else show(rt[3]), line=fd.lineno)
        fields = o.st.env.get(V("self._fields"), V("self._fields"))
        REV = sl(F0, NONE, NONE, C(-1))
        REV2 = call("tuple", call("reversed", F0))
        if rp:
            L.ob(R, F, fn, "LSB-first order ('little'/'lsb'): the field tuple is reversed", show(REV), show(fields),
                 fields in (REV, REV2), fd.lineno)
        else:
            L.ob(R, F, fn, "MSB-first order: the field tuple is kept as given (kw 'set', default STRUCT)", show(F0), show(fields),
                 fields == F0, fd.lineno)
        # length
        lent = o.st.env.get(V("self.len"), V("self.len"))
        if len(z_l) == 1:
            len_rows.setdefault((z_l[0][1], rp), []).append((tuple(other), lent, fields))
        else:
            len_rows.setdefault((None, rp), []).append((tuple(other), lent, fields))
        # get_len re-defined
        gl = o.st.env.get(V("self.get_len"))
        L.ob(R, F, fn, "get_len is re-defined to the (derived) set length", "lambda/2: self.len", show(gl) if gl else "not re-defined",
             gl == ("lambda", 2, V("self.len")), fd.lineno)
        # the derivation loop
        loops = [e[1] for e in o.st.events if e[0] == "loop"]
        dl = []
        for lp in loops:
            for b in lp.falls():
                if V("$it.offset") in b.st.env or V("$it.mask") in b.st.env:
                    if lp not in dl:
                        dl.append(lp)
        if len(dl) != 1:
            raise AnalysisError("BitFieldSet.__init__: offset/mask derivation loop not found (anchor vanished)")
        lp = dl[0]
        n_loops += 1
        L.ob(R, F, fn, "offsets are assigned walking the (possibly reversed) field tuple in order", show(fields), show(lp.head),
             lp.head == fields, lp.node.lineno)
        car = lp.carried()
        if len(car) != 1:
            L.ob(R, F, fn, "one running 'remaining bits' counter is carried through the derivation loop", 1,
                 [show(a) for a in car], False, lp.node.lineno)
            continue
        rem = car[0]
        want_pre = X.mul(C(8), lent)
        L.ob(R, F, fn, "the walk starts at the most significant end: remaining = 8 * len", show(want_pre), show(lp.pre[rem]),
             lp.pre[rem] == want_pre, lp.node.lineno)
        BL = V("$it.bl")
        OVER = X.cmp_("<", rem, BL)
        bfalls = lp.falls()
        atoms = []
        for b in lp.outs:
            for t, _ in b.st.conds:
                atoms_of(t, atoms)
        L.require(R, F, fn, "atoms of the derivation loop body", [show(OVER)], fmt_atoms(atoms), line=lp.node.lineno)
        if [show(OVER)] != fmt_atoms(atoms):
            continue
        at, rows = table(lp.outs, lambda b: b.sig() if b.kind == "raise" else "assign")
        L.require(R, F, fn, "a field wider than the remaining bits is rejected (ProtocolError), every other field is placed",
                  {"%s=0" % show(OVER): "assign", "%s=1" % show(OVER): "raise ProtocolError"}, fmt_rows(at, rows), line=lp.node.lineno)
        for b in bfalls:
            env = b.st.env
            L.require(R, F, fn, "field offset = remaining - bl", show(X.sub(rem, BL)), show(env.get(V("$it.offset"), NONE)), line=lp.node.lineno)
            L.require(R, F, fn, "field mask = 2**bl - 1", show(X.add(X.shl(C(1), BL), C(-1))), show(env.get(V("$it.mask"), NONE)), line=lp.node.lineno)
            L.require(R, F, fn, "remaining bits decrease by bl after each field", show(X.sub(rem, BL)), show(env.get(rem, rem)), line=lp.node.lineno)
    L.floor(R, "offset/mask derivation loops (per path)", n_loops, 1)
    # derived length: ceil(sum(bl)/8) when no length was given
    n_len = 0
    for (z, rp), rows in sorted(len_rows.items(), key=repr):
        if z is None:
            L.ob(R, F, fn, "the set length is derived only when none was given (self.len == 0)", show(Z), "no such test", False, fd.lineno)
            continue
        if not z:
            for other, lent, _ in rows:
                L.require(R, F, fn, "an explicitly given length is kept", "self.len", show(lent), line=fd.lineno)
            continue
        # find the bit-sum term
        S = None
        for other, lent, fields in rows:
            for t in list(subterms(lent)) + [s for c, _ in other for s in subterms(c)]:
                if t[0] == "call" and t[1] == "sum":
                    S = t
        want_s = [call("sum", ("comp", V("$e.bl"), f)) for f in (F0, sl(F0, NONE, NONE, C(-1)), call("tuple", call("reversed", F0)))]
        L.ob(R, F, fn, "derived length is computed from the sum of the fields' bit lengths", show(want_s[0]),
             show(S) if S else "no sum", S in want_s, fd.lineno)
        if S not in want_s:
            continue
        bad = None
        for s in range(0, 65):
            hit = [(other, lent) for other, lent, _ in rows if all(bool(teval(c, {S: s})) == p for c, p in other)]
            if len(hit) != 1:
                raise AnalysisError("BitFieldSet.__init__: length derivation paths do not partition (sum=%d)" % s)
            got = teval(hit[0][1], {S: s})
            if got != -(-s // 8):
                bad = (s, got)
                break
        n_len += 1
        L.ob(R, F, fn, "derived length = ceil(sum(bl) / 8) octets%s" % (" (LSB-first path)" if rp else ""),
             "ceil(sum/8) for every bit sum 0..64", "sum=%d -> %d" % bad if bad else "ceil(sum/8) for every bit sum 0..64",
             bad is None, fd.lineno)
    L.floor(R, "length derivations", n_len, 1)


def r1_field_pair(L, repo):
    """R1 (group: BitField.enc_val / dec_val, spare bit-fields, BitField.__init__)"""
    R = "C16.R1"
    MASK, OFF, VAL = V("self.mask"), V("self.offset"), V("self.val")
    NOVAL = is_(VAL, NONE)
    SRC = idx(V("$vals"), V("self.name"))
    ci, fd = need(repo, "BitField", "enc_val")
    fn = "BitField.enc_val"
    L.fn(F, fn)
    sx, outs = walk_method(fd, ["self", "vals"])
    got = set()
    for o in outs:
        if o.kind != "ret":
            got.add((tuple(sorted((show(t), p) for t, p in o.lits)), o.sig()))
            continue
        for conds, v in ite_cases(o.val):
            lits = set(o.lits)
            for c, p in conds:
                lits |= tlits(c, p)
            got.add((tuple(sorted((show(t), p) for t, p in lits)), show(v)))

    def ENC(s):
        return X.shl(X.band(s, MASK), OFF)
    want = {(((show(NOVAL), True),), show(ENC(SRC))), (((show(NOVAL), False),), show(ENC(VAL)))}
    L.ob(R, F, fn, "enc_val = (value & mask) << offset -- truncated to the width before shifting; value is the fixed `val` if set, else vals[name]",
         sorted(want), sorted(got), got == want, fd.lineno)
    ci, fd = need(repo, "BitField", "dec_val")
    fn = "BitField.dec_val"
    L.fn(F, fn)
    sx, outs = walk_method(fd, ["self", "vals", "blob"])
    DEC = X.band(X.shr(V("$blob"), OFF), MASK)
    n_expr = 0
    for o in outs:
        st = [(a, v) for a, v in o.stores() if a == SRC]
        L.ob(R, F, fn, "dec_val stores (blob >> offset) & mask into vals[name] (path: %s)" % o.sig().split(" ")[0],
             show(DEC), [show(v) for _, v in st], len(st) == 1 and st[0][1] == DEC, fd.lineno)
        n_expr += 1
    MISM = X.cmp_("==", DEC, VAL)
    atoms, rows = table(outs, lambda o: o.sig() if o.kind == "raise" else "accept")
    want_atoms = sorted([show(NOVAL), show(MISM[1] if MISM[0] == "not" else MISM)])
    L.require(R, F, fn, "atoms of the fixed-value check", want_atoms, fmt_atoms(atoms), line=fd.lineno)
    if want_atoms == fmt_atoms(atoms):
        EQ = MISM[1] if MISM[0] == "not" else MISM
        want_rows = {}
        for vals in itertools.product([False, True], repeat=2):
            a = dict(zip(atoms, vals))
            want_rows[vals] = "raise DecodeError" if (not a[NOVAL] and not a[EQ]) else "accept"
        L.require(R, F, fn, "a decoded value different from the fixed `val` is rejected with DecodeError, anything else accepted",
                  fmt_rows(atoms, want_rows), fmt_rows(atoms, rows), line=fd.lineno)
    # spare bit-fields
    ci, fd = need(repo, "BitField.Spare", "enc_val")
    L.fn(F, "BitField.Spare.enc_val")
    sx, outs = walk_method(fd, ["self", "vals"])
    L.require(R, F, "BitField.Spare.enc_val", "spare bits are encoded as zero", ["return 0"], sorted({o.sig() for o in outs}), line=fd.lineno)
    ci, fd = need(repo, "BitField.Spare", "dec_val")
    L.fn(F, "BitField.Spare.dec_val")
    sx, outs = walk_method(fd, ["self", "vals", "blob"])
    L.require(R, F, "BitField.Spare.dec_val", "spare bits are ignored on decode (no store, no rejection)", [("fall", 0)],
              sorted({(o.kind if o.kind != "ret" or o.val != NONE else "fall", len(o.stores())) for o in outs}), line=fd.lineno)
    # BitField.__init__: bl >= 1, val default None
    ci, fd = need(repo, "BitField", "__init__")
    L.fn(F, "BitField.__init__")
    sx, outs = walk_method(fd, ["self", "name", "bl"])
    for o in outs:
        if o.kind in ("fall", "ret"):
            L.require(R, F, "BitField.__init__", "fixed value defaults to None (kw 'val')", show(mcall("get", V("$kw"), K("val"), NONE)),
                      show(o.st.env.get(V("self.val"), NONE)), line=fd.lineno)
            L.require(R, F, "BitField.__init__", "bit length is stored as given", "$bl", show(o.st.env.get(V("self.bl"), NONE)), line=fd.lineno)


def r1_set_pack(L, repo):
    """R1 (group: BitFieldSet._to_bytes / _from_bytes): packing of the whole set"""
    R = "C16.R1"
    ci, fd = need(repo, "BitFieldSet", "_to_bytes")
    fn = "BitFieldSet._to_bytes"
    L.fn(F, fn)
    sx, outs = walk_method(fd, ["self", "vals"])
    rets = [o for o in outs if o.kind == "ret"]
    L.require(R, F, fn, "outcomes", ["ret"], sorted({o.kind for o in outs}), line=fd.lineno)
    for o in rets:
        loops = [e[1] for e in o.st.events if e[0] == "loop"]
        if len(loops) != 1:
            raise AnalysisError("BitFieldSet._to_bytes: packing shape unclassifiable (expected one loop over the fields)")
        lp = loops[0]
        L.require(R, F, fn, "every field of the set contributes", "self._fields", show(lp.head), line=lp.node.lineno)
        bf = lp.falls()
        car = lp.carried()
        if len(car) != 1 or len(bf) != 1 or len(lp.outs) != 1:
            L.ob(R, F, fn, "one accumulator, straight-line loop body", "1 accumulator / 1 path", (len(car), len(lp.outs)), False, lp.node.lineno)
            continue
        acc = car[0]
        L.require(R, F, fn, "the accumulator starts at 0", "0", show(lp.pre[acc]), line=lp.node.lineno)
        L.require(R, F, fn, "each field's enc_val(vals) is ORed into the accumulator",
                  show(X.bor(acc, mcall("enc_val", V("$it"), V("$vals")))), show(bf[0].st.env.get(acc)), line=lp.node.lineno)
        got = norm_bytes_call(o.val)
        L.require(R, F, fn, "the accumulated integer is emitted as len octets, big-endian, unsigned",
                  ("to_bytes", show(acc), "self.len", "'big'", "False"), got, line=fd.lineno)
    ci, fd = need(repo, "BitFieldSet", "_from_bytes")
    fn = "BitFieldSet._from_bytes"
    L.fn(F, fn)
    sx, outs = walk_method(fd, ["self", "vals", "data"])
    L.require(R, F, fn, "outcomes", ["fall"], sorted({o.kind if not (o.kind == "ret" and o.val == NONE) else "fall" for o in outs}), line=fd.lineno)
    for o in outs:
        loops = [e[1] for e in o.st.events if e[0] == "loop"]
        if len(loops) != 1:
            raise AnalysisError("BitFieldSet._from_bytes: unpacking shape unclassifiable (expected one loop over the fields)")
        lp = loops[0]
        L.require(R, F, fn, "every field of the set is decoded", "self._fields", show(lp.head), line=lp.node.lineno)
        dcs = [c for b in lp.outs for c in b.calls("dec_val")]
        if len(dcs) != 1 or len(lp.outs) != 1:
            L.ob(R, F, fn, "one dec_val call per field", 1, len(dcs), False, lp.node.lineno)
            continue
        c = dcs[0]
        L.require(R, F, fn, "dec_val is called on the loop's field with the caller's dict", ("$it", "$vals"), (show(c[2]), show(c[3]) if len(c) > 3 else None), line=lp.node.lineno)
        blob = c[4] if len(c) > 4 else NONE
        L.require(R, F, fn, "the octets are read as one big-endian unsigned integer (same order as _to_bytes)",
                  ("from_bytes", "$data", "'big'", "False"), norm_bytes_call(blob), line=fd.lineno)


def ite_cases(t):
    """split a term with a top-level conditional into (conditions, term) cases"""
    # find first ite inside
    for s in subterms(t):
        if s[0] == "ite":
            out = []
            for pol, alt in ((True, s[2]), (False, s[3])):
                for conds, v in ite_cases(subst(t, s, alt)):
                    out.append((((s[1], pol),) + conds, v))
            return out
    return [((), t)]


def norm_bytes_call(t):
    """canonical view of int.from_bytes(data, order, signed=) /
    x.to_bytes(len, order, signed=)"""
    if not (isinstance(t, tuple) and t and t[0] == "mcall" and t[1] in ("from_bytes", "to_bytes")):
        return ("?", show(t))
    pos = [a for a in t[3:] if a[0] not in ("kw", "star")]
    kws = {a[1]: a[2] for a in t[3:] if a[0] == "kw"}
    if any(a[0] == "star" for a in t[3:]) or None in kws:
        return ("?", show(t))
    if t[1] == "from_bytes":
        if t[2] != V("int"):
            return ("?", show(t))
        names = ["bytes", "byteorder"]
    else:
        names = ["length", "byteorder"]
    d = dict(kws)
    for n, a in zip(names, pos):
        d[n] = a
    if len(pos) > 2:
        return ("?", show(t))
    signed = d.get("signed", FALSE)
    if t[1] == "from_bytes":
        return ("from_bytes", show(d.get("bytes", NONE)), show(d.get("byteorder", NONE)), show(signed))
    return ("to_bytes", show(t[2]), show(d.get("length", NONE)), show(d.get("byteorder", NONE)), show(signed))


# ====================================================================== R2

INT_RE = re.compile(r"^(Uint|Int)(\d+)(BE|LE)$")


def r2_pair(L, repo):
    """R2 (group: Uint._from_bytes / _to_bytes inverse pair)"""
    R = "C16.R2"
    ci, fd = need(repo, "Uint", "_from_bytes")
    fn = "Uint._from_bytes"
    L.fn(F, fn)
    sx, outs = walk_method(fd, ["self", "vals", "data"])
    SRC = idx(V("$vals"), V("self.name"))
    MULT, OFFS = idx(V("self.p"), K("mult")), idx(V("self.p"), K("offset"))
    dec = None
    L.require(R, F, fn, "straight-line decoder", 1, len(outs), line=fd.lineno)
    for o in outs:
        st = [v for a, v in o.stores() if a == SRC]
        if len(st) != 1:
            L.ob(R, F, fn, "one store into vals[name]", 1, len(st), False, fd.lineno)
            continue
        dec = st[0]
    if dec is None:
        raise AnalysisError("Uint._from_bytes: decoded value not found")
    fbs = [s for s in subterms(dec) if s[0] == "mcall" and s[1] == "from_bytes"]
    if len(fbs) != 1:
        raise AnalysisError("Uint._from_bytes: int.from_bytes call not found")
    FB = fbs[0]
    L.require(R, F, fn, "raw integer is read from the whole slice with the class's byte order and sign",
              ("from_bytes", "$data", "self.BO", "self.SIGN"), norm_bytes_call(FB), line=fd.lineno)
    want = X.add(X.mul(FB, MULT), OFFS)
    L.require(R, F, fn, "decoded value = raw * mult + offset", show(want), show(dec), line=fd.lineno)
    ci, fd = need(repo, "Uint", "_to_bytes")
    fn = "Uint._to_bytes"
    L.fn(F, fn)
    sx, outs = walk_method(fd, ["self", "vals"])
    L.require(R, F, fn, "straight-line encoder", ["ret"], [o.kind for o in outs], line=fd.lineno)
    GV = mcall("get_val", V("self"), V("$vals"))
    for o in outs:
        if o.kind != "ret":
            continue
        tb = norm_bytes_call(o.val)
        if tb[0] != "to_bytes":
            L.ob(R, F, fn, "encoder returns <raw>.to_bytes(...)", "to_bytes call", tb, False, fd.lineno)
            continue
        raw = o.val[2]
        comp = subst(raw, GV, dec)
        if comp != FB:
            # a differing result is a violation only if the expression is made of known arithmetic
            # (+, *, //, true division, int()) over the value, offset and mult; anything else is unclassifiable
            for t in subterms(raw):
                known = t[0] in ("c", "v", "k", "+", "*", "div", "truediv", "idx") or t == GV or \
                    (t[0] == "call" and t[1] in ("int", "round") and len(t) == 3)
                if not known:
                    raise AnalysisError("Uint._to_bytes: raw integer expression unclassifiable: %s" % show(raw)[:100])
        L.ob(R, F, fn, "the value is taken through get_val", show(GV), show(raw), any(t == GV for t in subterms(raw)), fd.lineno)
        L.ob(R, "%s" % F, "Uint._to_bytes o Uint._from_bytes",
             "re-encoding a decoded value reproduces the raw integer: ((x*mult + offset) - offset) // mult rewrites to x",
             show(FB), show(comp), comp == FB, fd.lineno)
        L.require(R, F, fn, "encoder and decoder use the same length, byte-order and sign attributes",
                  ("self.len", "self.BO", "self.SIGN"), tb[2:], line=fd.lineno)


def r2_class_table(L, repo):
    """R2 (group: the integer class table resolved through the MRO)"""
    R = "C16.R2"
    mod = repo.mod("codec")
    n = 0
    expected_base = {"Uint": (1, "big", False), "Int": (1, "big", True)}
    uint = repo.need_class("codec", "Uint")
    for name, c in sorted(mod.classes.items()):
        if uint not in repo.mro(c):
            continue
        m = INT_RE.match(name)
        if m:
            want = (int(m.group(2)) // 8 if int(m.group(2)) % 8 == 0 else None,
                    "big" if m.group(3) == "BE" else "little", m.group(1) == "Int")
        elif name in expected_base:
            want = expected_base[name]
        else:
            continue
        ev = Ev(repo, mod, self_cls=c)
        try:
            got = (ev.class_attr(c, "DEF_LEN"), ev.class_attr(c, "BO"), ev.class_attr(c, "SIGN"))
        except (Unknown, Raised) as e:
            raise AnalysisError("codec.%s: DEF_LEN/BO/SIGN do not fold: %s" % (name, e))
        n += 1
        L.require(R, F, name, "class %s: (DEF_LEN, BO, SIGN) resolved through the MRO match the name" % name, want, got, line=c.node.lineno)
        for meth in ("_from_bytes", "_to_bytes"):
            oc, om = repo.find_method(c, meth)
            L.require(R, F, name, "class %s inherits %s from Uint (no override)" % (name, meth), "Uint", oc.name if oc else None, line=c.node.lineno)
    L.floor(R, "integer classes", n, 10)
    dp, dv = repo.find_attr(uint, "DEF_PARAMS")
    try:
        got = Ev(repo, mod, self_cls=uint).ev(dv) if dv is not None else None
    except (Unknown, Raised):
        got = None
    L.require(R, F, "Uint", "default parameters are the identity transform", {"offset": 0, "mult": 1}, got)


# ====================================================================== R3 / R5

def r3_field(L, repo):
    """R3 (group: Field.from_bytes / Field.to_bytes decision tables); returns the presence tests for R5"""
    R = "C16.R3"
    ci, fd = need(repo, "Field", "from_bytes")
    fn = "Field.from_bytes"
    L.fn(F, fn)
    sx, outs = walk_method(fd, ["self", "vals", "data"])
    LEN = mcall("get_len", V("self"), V("$vals"), V("$data"))
    SHORT = X.cmp_("<", call("len", V("$data")), LEN)
    DECODE = mcall("_from_bytes", V("self"), V("$vals"), sl(V("$data"), NONE, LEN))

    def sig(o):
        if o.kind == "raise":
            return o.sig()
        cs = [show(c) for c in o.all_calls() if c[0] == "mcall" and c[1] in ("_from_bytes",)]
        return "%s after %s" % (o.sig(), cs if cs else "no decoder call")
    atoms, rows = table(outs, sig)
    pa = [a for a in atoms if pres_kind(a)]
    oth = [a for a in atoms if not pres_kind(a)]
    L.ob(R, F, fn, "atoms of from_bytes: presence test and the short-input test len(data) < get_len(vals, data)",
         ["<presence test>", show(SHORT)], ["<presence test>"] * len(pa) + fmt_atoms(oth), len(pa) == 1 and oth == [SHORT], fd.lineno)
    presence = {}
    if len(pa) == 1 and oth == [SHORT]:
        P = pa[0]
        want, got = {}, {}
        for vals, s in rows.items():
            a = dict(zip(atoms, vals))
            absent = absent_value(P, a[P])
            key = "absent=%d, short=%d" % (absent, a[SHORT])
            got[key] = s
            if absent:
                want[key] = "return 0 after no decoder call"
            elif a[SHORT]:
                want[key] = "raise DecodeError"
            else:
                want[key] = "return %s after %s" % (show(LEN), [show(DECODE)])
        L.require(R, F, fn, "from_bytes returns 0 when absent, raises DecodeError on short input, else hands data[:length] to the decoder and returns exactly length",
                  want, got, line=fd.lineno)
        presence[fn] = (P, fd)
        for o in outs:
            seq = [show(c) for c in o.all_calls()]
            L.ob("C16.R5", F, fn, "presence is consulted first: get_pres(vals) is the first call on every path", show(PRES),
                 seq[:1], seq[:1] == [show(PRES)], fd.lineno)
            if any(absent_value(P, p) for t, p in o.lits if t == P):
                n = [show(c) for c in o.all_calls() if c != PRES]
                L.ob("C16.R5", F, fn, "the absent path makes no length/decoder call", [], n, not n, fd.lineno)
    # ---- Field.to_bytes -----------------------------------------------------
    ci, fd = need(repo, "Field", "to_bytes")
    fn = "Field.to_bytes"
    L.fn(F, fn)
    sx, outs = walk_method(fd, ["self", "vals"])
    ENC = mcall("_to_bytes", V("self"), V("$vals"))
    FIXED = X.cmp_("<", C(0), V("self.len"))
    SAME = X.cmp_("==", call("len", ENC), V("self.len"))
    atoms, rows = table(outs, lambda o: o.sig())
    pa = [a for a in atoms if pres_kind(a)]
    oth = [a for a in atoms if not pres_kind(a)]
    alt_fixed = ("not", X.cmp_("==", V("self.len"), C(0)))
    ok_atoms = len(pa) == 1 and sorted(fmt_atoms(oth)) == sorted([show(FIXED), show(SAME)])
    L.ob(R, F, fn, "atoms of to_bytes: presence test, fixed-length test self.len > 0, length comparison len(encoded) == self.len",
         ["<presence test>"] + sorted([show(FIXED), show(SAME)]), ["<presence test>"] * len(pa) + fmt_atoms(oth), ok_atoms, fd.lineno)
    if ok_atoms:
        P = pa[0]
        want, got = {}, {}
        for vals, s in rows.items():
            a = dict(zip(atoms, vals))
            absent = absent_value(P, a[P])
            key = "absent=%d, fixed=%d, same_len=%d" % (absent, a[FIXED], a[SAME])
            got[key] = s
            if absent:
                want[key] = "return b''"
            elif a[FIXED] and not a[SAME]:
                want[key] = "raise EncodeError"
            else:
                want[key] = "return " + show(ENC)
        L.require(R, F, fn, "to_bytes returns b'' when absent, raises EncodeError when a fixed-length field encodes to another length, else returns the encoder's octets unchanged",
                  want, got, line=fd.lineno)
        presence[fn] = (P, fd)
        for o in outs:
            seq = [show(c) for c in o.all_calls()]
            L.ob("C16.R5", F, fn, "presence is consulted first: get_pres(vals) is the first call on every path", show(PRES),
                 seq[:1], seq[:1] == [show(PRES)], fd.lineno)
            if any(absent_value(P, p) for t, p in o.lits if t == P):
                n = [show(c) for c in o.all_calls() if c != PRES]
                L.ob("C16.R5", F, fn, "the absent path makes no encoder call", [], n, not n, fd.lineno)
    return presence


def r3_envelope(L, repo):
    """R3 (group: Envelope._from_bytes offset advance and tail check, Envelope._to_bytes concatenation)"""
    R = "C16.R3"
    ci, fd = need(repo, "Envelope", "_from_bytes")
    fn = "Envelope._from_bytes"
    L.fn(F, fn)
    sx, outs = walk_method(fd, ["self", "vals", "data", "offset"])
    dflt = [canon(d) for d in fd.args.defaults]
    L.require(R, F, fn, "decoding starts at offset 0 unless told otherwise (parameter default)", ["0"], dflt, line=fd.lineno)
    normal = [o for o in outs if not any(t[0] == "exc" for t, _ in o.st.conds)]
    n_loop = 0
    offs = set()
    for o in normal:
        loops = [e[1] for e in o.st.events if e[0] == "loop"]
        if len(loops) != 1:
            raise AnalysisError("Envelope._from_bytes: field loop not found")
        lp = loops[0]
        bf = lp.falls()
        car = lp.carried()
        if len(car) != 1 or len(lp.outs) != 1:
            L.ob(R, F, fn, "field loop: one running offset, straight-line body", "1 / 1", (len(car), len(lp.outs)), False, lp.node.lineno)
            continue
        off = car[0]
        offs.add(off)
        n_loop += 1
        L.require(R, F, fn, "fields are decoded in STRUCT order", "self.STRUCT", show(lp.head), line=lp.node.lineno)
        L.require(R, F, fn, "the running offset starts at the offset parameter", "$offset", show(lp.pre[off]), line=lp.node.lineno)
        want = X.add(off, mcall("from_bytes", V("$it"), V("$vals"), sl(V("$data"), off)))
        L.require(R, F, fn, "each field sees data[offset:] and its return value is added to offset", show(want), show(bf[0].st.env.get(off)), line=lp.node.lineno)
    L.floor(R, "Envelope field loops", n_loop, 1)
    if len(offs) == 1:
        off = offs.pop()
        CHK = V("self.check_len")
        TAIL = X.cmp_("==", call("len", V("$data")), off)
        atoms, rows = table(outs, lambda o: o.sig())
        L.require(R, F, fn, "atoms of the tail check", sorted([show(CHK), show(TAIL)]), fmt_atoms(atoms), line=fd.lineno)
        if sorted([show(CHK), show(TAIL)]) == fmt_atoms(atoms):
            want, got = {}, {}
            for vals, s in rows.items():
                a = dict(zip(atoms, vals))
                key = "check_len=%d, len(data)==offset: %d" % (a[CHK], a[TAIL])
                got[key] = s
                want[key] = "raise DecodeError" if (a[CHK] and not a[TAIL]) else "return " + show(off)
            L.require(R, F, fn, "tail octets are rejected with DecodeError iff check_len; otherwise the consumed length is returned",
                      want, got, line=fd.lineno)
    # ---- Envelope._to_bytes -------------------------------------------------
    ci, fd = need(repo, "Envelope", "_to_bytes")
    fn = "Envelope._to_bytes"
    L.fn(F, fn)
    sx, outs = walk_method(fd, ["self", "vals"])
    rets = [o for o in outs if o.kind == "ret" and not any(t[0] == "exc" for t, _ in o.st.conds)]
    L.require(R, F, fn, "normal outcomes", 1, len(rets), line=fd.lineno)
    for o in rets:
        v = o.val
        elt = None
        shape = None
        if v[0] == "mcall" and v[1] == "join" and len(v) == 4 and v[3][0] == "comp":
            shape = "join"
            if v[2] == K(b"") and v[3][2] == V("self.STRUCT"):
                elt = v[3][1]
        else:
            # explicit accumulation loop: acc = b''; for f in self.STRUCT: acc += <f's octets>; return acc
            loops = [e[1] for e in o.st.events if e[0] == "loop"]
            if len(loops) == 1 and v in loops[0].carried() and len(loops[0].outs) == 1:
                lp = loops[0]
                new = lp.outs[0].st.env.get(v)
                ordered = False
                for n in ast.walk(lp.node):
                    if isinstance(n, ast.AugAssign) and isinstance(n.op, ast.Add) and isinstance(n.target, ast.Name) and V(n.target.id) == v:
                        ordered = True
                    if isinstance(n, ast.Assign) and len(n.targets) == 1 and isinstance(n.targets[0], ast.Name) and V(n.targets[0].id) == v \
                            and isinstance(n.value, ast.BinOp) and isinstance(n.value.op, ast.Add) and isinstance(n.value.left, ast.Name) \
                            and V(n.value.left.id) == v:
                        ordered = True
                if ordered and new[0] == "+" and len(new) == 3 and v in new[1:] and lp.head == V("self.STRUCT") and lp.pre.get(v) == K(b""):
                    shape = "loop"
                    elt = subst([x for x in new[1:] if x != v][0], V("$it"), V("$e"))
        if shape is None and v[0] == "mcall" and v[1] == "join" and len(v) == 4 and v[3][0] == "obj" and v[3][2] == ("list",):
            # chunks = []; for f in self.STRUCT: chunks.append(<f's octets>); return b''.join(chunks)
            lst = v[3]
            loops = [e[1] for e in o.st.events if e[0] == "loop"]
            outside = [e[1] for e in o.st.events if e[0] in ("call", "eval") and e[1][0] == "mcall" and e[1][2] == lst and e[1] != v]
            if len(loops) == 1 and not outside and loops[0].head == V("self.STRUCT") and v[2] == K(b""):
                lp = loops[0]
                normal = [b for b in lp.outs if not any(t[0] == "exc" for t, _ in b.st.conds)]
                if len(normal) == 1 and normal[0].kind in ("fall", "continue"):
                    muts = [e[1] for e in normal[0].st.events if e[0] == "call" and e[1][0] == "mcall" and e[1][2] == lst]
                    if len(muts) == 1 and muts[0][1] == "append" and len(muts[0]) == 4:
                        shape = "append-loop"
                        elt = subst(muts[0][3], V("$it"), V("$e"))
        if shape is None:
            raise AnalysisError("Envelope._to_bytes: concatenation shape unclassifiable: %s" % show(v)[:80])
        direct = mcall("to_bytes", V("$e"), V("$vals"))
        ok = elt == direct
        if elt is not None and elt[0] == "call" and elt[2:] == (V("$e"),):
            # local helper: its body must return f.to_bytes(vals)
            for n in ast.walk(fd):
                if isinstance(n, ast.FunctionDef) and n is not fd and n.name == elt[1]:
                    env = {V(params(n)[0]): V("$e"), V(params(fd)[1]): V("$vals"), V(params(fd)[0]): V("self")}
                    hs = Sx().run(n.body, St(env))
                    r = [h for h in hs if h.kind == "ret" and not any(t[0] == "exc" for t, _ in h.st.conds)]
                    ok = len(r) == 1 and r[0].val == direct
        L.ob(R, F, fn, "the encoding is the concatenation of every field's to_bytes(vals) in STRUCT order",
             "b''.join([f.to_bytes(vals) for f in self.STRUCT])", show(v) if shape == "join" else "loop: %s" % show(elt), ok, fd.lineno)


def r3_sequence(L, repo):
    """R3 (group: Sequence.__init__ / from_bytes / to_bytes)"""
    R = "C16.R3"
    ci, fd = need(repo, "Sequence", "__init__")
    fn = "Sequence.__init__"
    L.fn(F, fn)
    sx, outs = walk_method(fd, ["self"])
    ITEM = mcall("get", V("$kw"), K("item"), V("self.ITEM"))
    nn = 0
    for o in outs:
        if o.kind not in ("fall", "ret"):
            continue
        nn += 1
        L.require(R, F, fn, "the item envelope is kw 'item' (default ITEM)", show(ITEM), show(o.st.env.get(V("self._item"), NONE)), line=fd.lineno)
        st = [(a, v) for a, v in o.stores() if (a[0] == "v" and a[1].endswith(".check_len")) or (a[0] == "attr" and a[2] == "check_len")]
        item = o.st.env.get(V("self._item"), V("self._item"))
        L.ob(R, F, fn, "the item envelope's tail check is switched off (check_len = False on the stored item)",
             "<item>.check_len = False", [(show(a), show(v)) for a, v in st],
             len(st) == 1 and st[0][1] == FALSE and st[0][0] in (("attr", item, "check_len"), V("self._item.check_len")), fd.lineno)
    L.floor(R, "Sequence.__init__ normal paths", nn, 1)
    ci, fd = need(repo, "Sequence", "from_bytes")
    fn = "Sequence.from_bytes"
    L.fn(F, fn)
    sx, outs = walk_method(fd, ["self", "data"])
    rets = [o for o in outs if o.kind == "ret"]
    L.require(R, F, fn, "outcomes", ["ret"], sorted({o.kind for o in outs}), line=fd.lineno)
    nseq = 0
    for o in rets:
        loops = [e[1] for e in o.st.events if e[0] == "loop"]
        if len(loops) != 1:
            raise AnalysisError("Sequence.from_bytes: item loop not found")
        lp = loops[0]
        bf = lp.falls()
        car = lp.carried()
        if len(car) != 1 or len(lp.outs) != 1:
            L.ob(R, F, fn, "item loop: one running offset, straight-line body", "1 / 1", (len(car), len(lp.outs)), False, lp.node.lineno)
            continue
        off = car[0]
        nseq += 1
        L.require(R, F, fn, "items are decoded while offset < len(data)", show(X.cmp_("<", off, call("len", V("$data")))), show(lp.head), line=lp.node.lineno)
        L.require(R, F, fn, "the running offset starts at 0", "0", show(lp.pre[off]), line=lp.node.lineno)
        new = bf[0].st.env.get(off)
        calls = [s for s in subterms(new) if s[0] == "mcall" and s[1] == "_from_bytes"]
        if len(calls) != 1:
            L.ob(R, F, fn, "one item decode per iteration", 1, len(calls), False, lp.node.lineno)
            continue
        c = calls[0]
        L.require(R, F, fn, "offset advances by the item envelope's return value", show(X.add(off, c)), show(new), line=lp.node.lineno)
        L.require(R, F, fn, "the item is decoded by the envelope whose tail check __init__ switched off, from data[offset:]",
                  ("self._item", show(sl(V("$data"), off))), (show(c[2]), show(c[4]) if len(c) > 4 else None), line=lp.node.lineno)
        seqv = o.val
        evs = list(bf[0].st.events)
        apps = [(k, e[1]) for k, e in enumerate(evs) if e[0] == "call" and e[1][0] == "mcall" and e[1][1] == "append" and e[1][2] == seqv]
        decs = [k for k, e in enumerate(evs) if e[0] == "eval" and e[1] == c]
        tgt = c[3] if len(c) > 3 else None
        key = "every item is decoded into a fresh dict that is appended, in the same iteration, to the returned list (which starts empty)"
        found = ([show(a) for _, a in apps], "decode into %s" % (show(tgt) if tgt else None), "return %s" % show(seqv))
        if not (seqv[0] == "obj" and seqv[2] == ("list",)):
            if seqv[0] in ("list", "tuple", "k"):
                L.ob(R, F, fn, key, "return <the list the items were appended to>", found, False, lp.node.lineno)
                continue
            if not is_symbol(seqv):
                raise AnalysisError("Sequence.from_bytes: returned value unclassifiable: %s" % show(seqv)[:60])
            # one identity-bearing object that this call did not create (an argument, an attribute, a module-level
            # name): the item bookkeeping below is decided on it as on a local list; whether that object may be
            # returned at all (who owns it, does it start empty) is decided by R6 (result ownership)
        if len(apps) != 1 or len(apps[0][1]) != 4 or not decs or tgt is None:
            if not apps and tgt is not None and tgt[0] in ("dict", "obj"):
                L.ob(R, F, fn, key, "one append of the decoded dict per iteration", found, False, lp.node.lineno)
                continue
            raise AnalysisError("Sequence.from_bytes: item bookkeeping unclassifiable: %s" % (found,))
        ak, app = apps[0]
        arg = app[3]
        fresh_local = arg[0] == "obj" and arg[2] == ("dict",) and V(arg[1]) in lp.pre      # a dict created by this iteration
        if arg == ("dict",) and tgt == idx(seqv, C(-1)):
            ok = ak < decs[0]          # the last element is the one just appended only after the append
        elif fresh_local and tgt == arg:
            ok = True                  # the very object appended is the one decoded into (either order)
        elif arg == ("dict",) or fresh_local or (arg[0] == "obj" and arg[2] == ("dict",)):
            ok = False                 # a dict is appended but another object (or a shared one) is decoded into
        else:
            raise AnalysisError("Sequence.from_bytes: item bookkeeping unclassifiable: %s" % (found,))
        if arg[0] == "obj" and not fresh_local:
            ok = False                 # one dict shared by all items
        L.ob(R, F, fn, key, "append(<fresh dict>) and decode into that same object; return the list", found, ok, lp.node.lineno)
    L.floor(R, "Sequence item loops", nseq, 1)
    ci, fd = need(repo, "Sequence", "to_bytes")
    L.fn(F, "Sequence.to_bytes")
    sx, outs = walk_method(fd, ["self", "vseq"])
    want = mcall("join", K(b""), ("comp", mcall("_to_bytes", V("self._item"), V("$e")), V("$vseq")))
    if not all(o.kind == "ret" and o.val[0] == "mcall" and o.val[1] == "join" and len(o.val) == 4 and o.val[3][0] == "comp" for o in outs):
        raise AnalysisError("Sequence.to_bytes: concatenation shape unclassifiable")
    L.require(R, F, "Sequence.to_bytes", "a sequence encodes as the concatenation of its items in list order", [show(want)],
              [show(o.val) if o.kind == "ret" else o.sig() for o in outs], line=fd.lineno)


def r3_nested(L, repo):
    """R3 (group: the Envelope.F / Sequence.F field wrappers)"""
    R = "C16.R3"
    for cls, inner, call_dec, call_enc in (
            ("Envelope.F", "self.e", "_from_bytes", "_to_bytes"), ("Sequence.F", "self.s", "from_bytes", "to_bytes")):
        ci, fd = need(repo, cls, "_from_bytes")
        L.fn(F, cls + "._from_bytes")
        sx, outs = walk_method(fd, ["self", "vals", "data"])
        SRC = idx(V("$vals"), V("self.name"))
        for o in outs:
            cs = [c for c in o.all_calls() if c[0] == "mcall" and c[1] == call_dec]
            if cls == "Envelope.F":
                want = [show(mcall(call_dec, V(inner), ("dict",), V("$data")))]
                st = [show(v) for a, v in o.stores() if a == SRC]
                L.ob(R, F, cls + "._from_bytes", "nested envelope: a fresh dict is stored under the field name and the whole slice is decoded into it",
                     "vals[name] = {}; %s.%s(vals[name], data)" % (inner, call_dec), (st, [show(c) for c in cs]),
                     st == ["{}"] and [show(c) for c in cs] == want, fd.lineno)
            else:
                st = [v for a, v in o.stores() if a == SRC]
                want = mcall(call_dec, V(inner), V("$data"))
                L.ob(R, F, cls + "._from_bytes", "nested sequence: the whole slice is decoded and the list stored under the field name",
                     show(want), [show(v) for v in st], st == [want], fd.lineno)
        ci, fd = need(repo, cls, "_to_bytes")
        L.fn(F, cls + "._to_bytes")
        sx, outs = walk_method(fd, ["self", "vals"])
        want = mcall(call_enc, V(inner), mcall("get_val", V("self"), V("$vals")))
        L.require(R, F, cls + "._to_bytes", "nested %s encodes the value obtained through get_val" % ("envelope" if cls == "Envelope.F" else "sequence"),
                  [show(want)], [show(o.val) if o.kind == "ret" else o.sig() for o in outs], line=fd.lineno)
        ci, fd = need(repo, cls, "__init__")
        sx, outs = walk_method(fd, ["self", "inner", "name"])
        for o in outs:
            if o.kind in ("fall", "ret"):
                L.require(R, F, cls + ".__init__", "the wrapper keeps the wrapped codec it was given", "$inner",
                          show(o.st.env.get(V(inner), NONE)), line=fd.lineno)


def r5_presence(L, repo, presence):
    R = "C16.R5"
    n = 0
    for fn, (P, fd) in sorted(presence.items()):
        n += 1
        L.require(R, F, fn, "the presence callback's result is compared with `is False` (only the bool False means absent)",
                  "is False", pres_kind(P), line=fd.lineno)
    L.floor(R, "presence tests (from_bytes, to_bytes)", n, 2)


def r5_defaults(L, repo):
    """R5 (group: default callbacks installed by Field.__init__)"""
    R = "C16.R5"
    ci, fd = need(repo, "Field", "__init__")
    fn = "Field.__init__"
    L.fn(F, fn)
    sx, outs = walk_method(fd, ["self", "name"])
    Z = X.cmp_("==", V("self.len"), C(0))
    LENV = mcall("get", V("$kw"), K("len"), V("self.DEF_LEN"))
    Zs = X.cmp_("==", LENV, C(0))
    nn = 0
    for o in outs:
        if o.kind not in ("fall", "ret"):
            L.ob(R, F, fn, "Field.__init__ does not reject", "no raise", o.sig(), False, fd.lineno)
            continue
        env = o.st.env
        nn += 1
        L.require(R, F, fn, "field length is kw 'len' (default DEF_LEN)", show(LENV), show(env.get(V("self.len"), NONE)), line=fd.lineno)
        L.require(R, F, fn, "a field is present by default: get_pres returns the bool True", "lambda/1: True", show(env.get(V("self.get_pres"), NONE)), line=fd.lineno)
        L.require(R, F, fn, "a field takes its value from vals[name] by default", "lambda/1: $0[self.name]", show(env.get(V("self.get_val"), NONE)), line=fd.lineno)
        L.require(R, F, fn, "the field name is stored", "$name", show(env.get(V("self.name"), NONE)), line=fd.lineno)
        zl = [(t, p) for t, p in o.lits if t in (Z, Zs)]
        gl = env.get(V("self.get_len"), NONE)
        if len(zl) != 1:
            L.ob(R, F, fn, "default get_len is selected by len == 0", "one test of the length against 0", [show(t) for t, _ in o.lits], False, fd.lineno)
            continue
        if zl[0][1]:
            L.require(R, F, fn, "flexible field (len == 0): get_len returns the length of the remaining data", "lambda/2: len($1)", show(gl), line=fd.lineno)
        else:
            L.require(R, F, fn, "fixed-length field: get_len returns self.len", "lambda/2: self.len", show(gl), line=fd.lineno)
        want_p = ("dictcomp", V("$e"), mcall("get", V("$kw"), V("$e"), idx(V("self.DEF_PARAMS"), V("$e"))), V("self.DEF_PARAMS"))
        L.require(R, F, fn, "parameters: kw value, default from DEF_PARAMS, for exactly the keys of DEF_PARAMS", show(want_p), show(env.get(V("self.p"), NONE)), line=fd.lineno)
    L.floor(R, "Field.__init__ paths", nn, 2)


# ====================================================================== R4

FIELD_EXC = ["ValueError", "TypeError", "KeyError", "IndexError", "OverflowError", "ZeroDivisionError",
             "AttributeError", "struct.error", "DecodeError", "EncodeError", "NotImplementedError"]


def enclosing_try(node, stop):
    cur = getattr(node, "_parent", None)
    prev = node
    out = []
    while cur is not None and cur is not stop:
        if isinstance(cur, ast.Try) and any(prev is s for s in cur.body):
            out.append(cur)
        prev = cur
        cur = getattr(cur, "_parent", None)
    return out


def r4_errors(L, repo):
    R = "C16.R4"
    for meth, callee, want_cls in (("_from_bytes", "from_bytes", "DecodeError"), ("_to_bytes", "to_bytes", "EncodeError")):
        ci, fd = need(repo, "Envelope", meth)
        fn = "Envelope." + meth
        sites = [c for c in ast.walk(fd) if isinstance(c, ast.Call) and isinstance(c.func, ast.Attribute) and c.func.attr == callee]
        L.floor(R, "field %s call sites in %s" % (callee, fn), len(sites), 1)
        for c in sites:
            # innermost function holding the call
            inner = c
            while not isinstance(inner, ast.FunctionDef):
                inner = inner._parent
            trys = enclosing_try(c, inner)
            if not trys and inner is not fd:
                # helper: look at its call sites
                for c2 in ast.walk(fd):
                    if isinstance(c2, ast.Call) and isinstance(c2.func, ast.Name) and c2.func.id == inner.name:
                        trys += enclosing_try(c2, fd)
            stack = [[(handler_classes(h), "except %s" % (canon(h.type) if h.type is not None else "<all>")) for h in t.handlers]
                     for t in reversed(trys)]
            missed = [e for e in FIELD_EXC if catches(stack, e) is None]
            L.ob(R, F, fn, "field call `%s` is enclosed by a handler catching every exception class a field can raise" % canon(c)[:50],
                 "caught: all", "not caught: %s" % missed if missed else "caught: all", not missed, c.lineno)
            for t in trys:
                for h in t.handlers:
                    env = {V(p): V("$" + p) for p in params(fd)}
                    hs = Sx().run(h.body, St(env))
                    L.require(R, F, fn, "handler `%s` turns whatever a field raised into %s on every path" % (
                        "except %s" % (canon(h.type) if h.type is not None else "<all>"), want_cls),
                        ["raise " + want_cls], sorted({o.sig() for o in hs}), line=h.lineno)
        # explicit raises of the method itself
        rs = sorted({canon(n.exc.func if isinstance(n.exc, ast.Call) else n.exc) for n in ast.walk(fd)
                     if isinstance(n, ast.Raise) and n.exc is not None})
        L.ob(R, F, fn, "the method itself raises only %s" % want_cls, [want_cls], rs, set(rs) <= {want_cls}, fd.lineno)


def r4_classes(L, repo):
    """R4 (group: explicit rejections use the codec's own error classes)"""
    R = "C16.R4"
    for cls, meth, want_cls in (("Field", "from_bytes", "DecodeError"), ("Field", "to_bytes", "EncodeError"), ("BitField", "dec_val", "DecodeError")):
        ci, fd = need(repo, cls, meth)
        rs = sorted({canon(n.exc.func if isinstance(n.exc, ast.Call) else n.exc) for n in ast.walk(fd)
                     if isinstance(n, ast.Raise) and n.exc is not None})
        L.require(R, F, "%s.%s" % (cls, meth), "explicit rejections use the codec's own error class", [want_cls], rs, line=fd.lineno)
    # error classes are plain Exception subclasses (so the wrappers catch them, and nothing else hides them)
    mod = repo.mod("codec")
    for e in ("DecodeError", "EncodeError", "ProtocolError"):
        c = repo.need_class("codec", e)
        L.require(R, F, e, "%s derives from Exception" % e, ["Exception"], c.bases, line=c.node.lineno)


def r4_spare_buf(L, repo):
    """R4 (group: Spare ignores input and emits filler * len, Buf passes the slice through)"""
    R = "C16.R4"
    mod = repo.mod("codec")
    ci, fd = need(repo, "Spare", "_from_bytes")
    L.fn(F, "Spare._from_bytes")
    sx, outs = walk_method(fd, ["self", "vals", "data"])
    L.require(R, F, "Spare._from_bytes", "spare octets are ignored on decode (no store, no rejection)", [("fall", 0)],
              sorted({(o.kind if not (o.kind == "ret" and o.val == NONE) else "fall", len(o.stores())) for o in outs}), line=fd.lineno)
    ci, fd = need(repo, "Spare", "_to_bytes")
    L.fn(F, "Spare._to_bytes")
    sx, outs = walk_method(fd, ["self", "vals"])
    fill = idx(V("self.p"), K("filler"))
    lens = (mcall("get_len", V("self"), V("$vals"), K(b"")), V("self.len"))
    got = [o.val if o.kind == "ret" else K(o.sig()) for o in outs]
    L.ob(R, F, "Spare._to_bytes", "spare octets are emitted as filler * length, independent of vals",
         show(X.mul(fill, lens[0])), [show(g) for g in got], len(got) == 1 and got[0] in [X.mul(fill, l) for l in lens], fd.lineno)
    sp = repo.need_class("codec", "Spare")
    dp, dv = repo.find_attr(sp, "DEF_PARAMS")
    try:
        gotp = Ev(repo, mod, self_cls=sp).ev(dv)
    except (Unknown, Raised):
        gotp = None
    L.require(R, F, "Spare", "default filler is one zero octet", {"filler": b"\x00"}, gotp)
    ci, fd = need(repo, "Buf", "_from_bytes")
    L.fn(F, "Buf._from_bytes")
    sx, outs = walk_method(fd, ["self", "vals", "data"])
    SRC = idx(V("$vals"), V("self.name"))
    L.require(R, F, "Buf._from_bytes", "a buffer stores the slice it was handed, unchanged", [[(show(SRC), "$data")]],
              [[(show(a), show(v)) for a, v in o.stores()] for o in outs], line=fd.lineno)
    ci, fd = need(repo, "Buf", "_to_bytes")
    L.fn(F, "Buf._to_bytes")
    sx, outs = walk_method(fd, ["self", "vals"])
    L.require(R, F, "Buf._to_bytes", "a buffer encodes as its value, unchanged", ["return " + show(mcall("get_val", V("self"), V("$vals")))],
              [o.sig() for o in outs], line=fd.lineno)


# ====================================================================== R6

MUTABLE_CTORS = ("list", "dict", "set", "bytearray", "collections.deque", "deque")
GROWERS = ("append", "extend", "insert")
R6_KEY = ("the list that Sequence.from_bytes fills and returns is created by that very call - not one default-argument, "
          "class-level or module-level object that still holds the items of earlier decodes")


def is_symbol(t):
    """a term that names one object the walked method did not create (argument, attribute, global)"""
    return isinstance(t, tuple) and len(t) == 2 and t[0] == "v"


def default_exprs(fd):
    """parameter name -> default-value expression"""
    a = fd.args
    pos = list(getattr(a, "posonlyargs", [])) + list(a.args)
    out = {}
    for p, d in zip(pos[len(pos) - len(a.defaults):], a.defaults):
        out[p.arg] = d
    for p, d in zip(a.kwonlyargs, a.kw_defaults):
        if d is not None:
            out[p.arg] = d
    return out


def creates_mutable(e):
    """True: evaluating e creates a mutable container (once, where the expression stands: a default argument is
    evaluated when the function is defined, a class/module-level value when the class/module is); False: an
    immutable constant; None: cannot tell"""
    if isinstance(e, (ast.List, ast.Dict, ast.Set, ast.ListComp, ast.DictComp, ast.SetComp)):
        return True
    if isinstance(e, ast.Call) and canon(e.func) in MUTABLE_CTORS:
        return True
    if isinstance(e, ast.Constant):
        return False
    if isinstance(e, ast.Tuple) and all(creates_mutable(x) is False for x in e.elts):
        return False
    return None


def path_events(o):
    """events of an outcome, those of the loop bodies it ran through included"""
    out = []

    def rec(evs):
        for e in evs:
            if e[0] == "loop":
                for b in e[1].outs:
                    rec(b.st.events)
            else:
                out.append(e)
    rec(o.st.events)
    return out


def uses_of(val, o):
    """(method names called on the object `val`, other writes through it) along the path of outcome o"""
    meths, writes = [], []
    for e in path_events(o):
        if e[0] in ("call", "eval", "expr") and isinstance(e[1], tuple):
            for t in subterms(e[1]):
                if t[0] == "mcall" and t[2] == val and t[1] not in meths:
                    meths.append(t[1])
                if t[0] in ("mcall", "call") and not (t[0] == "call" and t[1] == "len"):
                    for x in t[3 if t[0] == "mcall" else 2:]:
                        if x == val or (x[0] in ("kw", "star") and x[-1] == val):
                            writes.append("passed to %s()" % t[1])      # the callee may do anything with it
        if e[0] == "store" and e[1] != val and any(x == val for x in subterms(e[1])):
            writes.append(show(e[1]))
    return meths, writes


def mentions_elsewhere(repo, fd, name):
    """mentions of a module-level name / an attribute called `name` anywhere in the toolkit outside the method fd
    (its definition included)"""
    inside = {id(n) for n in ast.walk(fd)}
    out = []
    for m in repo.tk_modules():
        for n in ast.walk(m.tree):
            if id(n) in inside:
                continue
            if (isinstance(n, ast.Name) and n.id == name) or (isinstance(n, ast.Attribute) and n.attr == name) or \
                    (isinstance(n, ast.Global) and name in n.names) or (isinstance(n, ast.alias) and name in (n.name, n.asname)) or \
                    (isinstance(n, ast.Constant) and n.value == name):
                out.append("%s:%d" % (m.name, getattr(n, "lineno", 0)))
    return out


def seq_owner(repo, ci, fd, o, roles):
    """Who owns the object outcome o of Sequence.from_bytes returns:
       ('fresh', text)    a list created by this call
       ('caller', text)   an argument, on a path taken only when the caller supplied it
       ('stale', text)    ONE object that outlives the call (default-argument object, class attribute, module-level
                          object), never re-created or emptied, that every call only appends to
       ('unknown', text)  anything else"""
    val = o.val
    if val[0] == "obj" and val[2] == ("list",):
        return "fresh", "a list created during the call (local `%s`)" % val[1]
    if not is_symbol(val):
        return "unknown", "returned value %s" % show(val)[:60]
    meths, writes = uses_of(val, o)
    guards = [show(t) for t, _ in o.lits if t[0] not in ("exc", "inloop") and any(x == val for x in subterms(t))]
    name = val[1]
    a = fd.args
    pnames = [p.arg for p in list(getattr(a, "posonlyargs", [])) + list(a.args) + list(a.kwonlyargs)]
    if name in pnames and name not in params(fd)[:len(roles)]:
        d = default_exprs(fd).get(name)
        mut = creates_mutable(d) if d is not None else None
        if d is not None and mut is False:
            # e.g. `vseq=None`: the raw argument is returned only where the path excludes the default
            if isinstance(d, ast.Constant) and d.value is None and (is_(val, NONE), False) in o.lits:
                return "caller", "argument `%s`, on the path where the caller supplied it (default None excluded by the guard)" % name
            return "unknown", "argument `%s` (default %s) returned without a guard that excludes the default" % (name, canon(d))
        if mut is not True:
            return "unknown", "argument `%s`%s" % (name, " (default %s)" % canon(d)[:40] if d is not None else " (no default)")
        what = "the default-argument object of parameter `%s` (= %s, evaluated once when the method is defined)" % (name, canon(d))
        # who relies on the default: the field wrapper Sequence.F._from_bytes
        wci, wfd = need(repo, "Sequence.F", "_from_bytes")
        _, wouts = walk_method(wfd, ["self", "vals", "data"])
        sites = [c for w in wouts for c in w.all_calls() if c[0] == "mcall" and c[1] == fd.name and c[2] == V("self.s")]
        if not sites:
            return "unknown", what + "; no call from Sequence.F._from_bytes found"
        posidx = params(fd).index(name) - 1 if name in params(fd) else None
        for c in sites:
            pos = [x for x in c[3:] if x[0] not in ("kw", "star")]
            if any(x[0] == "star" or (x[0] == "kw" and x[1] in (None, name)) for x in c[3:]) or \
                    (posidx is not None and len(pos) > posidx):
                return "unknown", what + "; Sequence.F._from_bytes passes its own object for it"
        what += "; Sequence.F._from_bytes calls %s(data) without that argument" % fd.name
    elif "." not in name:
        r = repo.lookup(ci.mod, name)
        if r is None or r[0] != "const" or creates_mutable(r[1]) is not True:
            return "unknown", "name `%s`" % name
        other = mentions_elsewhere(repo, fd, name)
        if len(other) != 1:
            return "unknown", "module-level object `%s`, also used at %s" % (name, other[:4])
        what = "the module-level object `%s` (= %s, created once at import, used nowhere else)" % (name, canon(r[1]))
    elif name.startswith("self.") and name.count(".") == 1:
        attr = name[5:]
        c, v = repo.find_attr(ci, attr)
        if v is None or creates_mutable(v) is not True:
            return "unknown", "attribute `%s`" % name
        other = mentions_elsewhere(repo, fd, attr)
        if len(other) != 1:
            return "unknown", "class attribute `%s.%s`, also used at %s" % (c.name, attr, other[:4])
        what = "the class attribute `%s.%s` (= %s, one object shared by all instances, assigned nowhere else)" % (c.name, attr, canon(v))
    else:
        return "unknown", "object `%s`" % name
    # one long-lived object: stale content is certain only if this call never re-creates / empties / tests it and
    # does nothing but grow it
    if guards:
        return "unknown", what + ", returned under the test %s" % guards[:2]
    if writes or not meths or any(m not in GROWERS for m in meths):
        return "unknown", what + ", used through %s" % (meths + writes)[:4]
    return "stale", what + "; every call only does %s on it" % "/".join(meths)


def r6_ownership(L, repo, R="C16.R6", key=R6_KEY):
    """R6 result ownership.  Clause decided: "decoding the encoding of in-range values returns those values" for
    EVERY decode of a definition with a sequence, not only the first one in a process (C17.R5 uses the same
    function for "a version-2 PDU with any number of batched sub-PDUs round-trips with every sub-PDU intact").
    Necessary condition: the list Sequence.from_bytes fills and returns is an object created by that call (or
    handed in by the caller of that call).  If it is one object that outlives the call - the default-argument
    object of a parameter the callers omit, a class attribute or a module-level object, never re-created or
    emptied - and each call only appends to it, the second decode also returns the items of the first one:
    decode(encode(v)) != v.  The object is identified through the walker's environment (aliases, temporaries and
    statement order do not matter), its origin is resolved on the definitions (default expression, class body,
    module level, all mentions in the toolkit).  Anything that cannot be resolved this far is no verdict."""
    roles = ["self", "data"]
    ci, fd = need(repo, "Sequence", "from_bytes")
    fn = "Sequence.from_bytes"
    L.fn(F, fn)
    sx, outs = walk_method(fd, roles)
    n = 0
    for o in outs:
        if o.kind != "ret":
            continue
        kind, text = seq_owner(repo, ci, fd, o, roles)
        if kind == "unknown":
            raise AnalysisError("Sequence.from_bytes: ownership of the returned list unclassifiable: %s" % text[:200])
        n += 1
        L.ob(R, F, fn, key, "a list created during the call (or passed in by the caller of this call)", text,
             kind in ("fresh", "caller"), o.node.lineno if o.node is not None else fd.lineno)
    L.floor(R, "return paths of Sequence.from_bytes", n, 1)


def run(L, tier):
    repo = Repo(L.repo)
    L.unit(F)
    L.stage(r1_set_init, L, repo)
    L.stage(r1_field_pair, L, repo)
    L.stage(r1_set_pack, L, repo)
    L.stage(r2_pair, L, repo)
    L.stage(r2_class_table, L, repo)
    presence = L.stage(r3_field, L, repo)
    L.stage(r3_envelope, L, repo)
    L.stage(r3_sequence, L, repo)
    L.stage(r3_nested, L, repo)
    L.stage(r4_errors, L, repo)
    L.stage(r4_classes, L, repo)
    L.stage(r4_spare_buf, L, repo)
    L.stage(r5_presence, L, repo, presence)
    L.stage(r5_defaults, L, repo)
    L.stage(r6_ownership, L, repo)
