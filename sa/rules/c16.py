# C16 -- declarative codec: the laws of every building block (bit-field
# pair, integer pair, length exactness, error discipline, presence/length
# protocol, ownership of the decoded sequence, closure of sequences over items
# of different lengths, independence of a definition object from the messages
# it processed before) and of compositions of them.
#
# Two layers:
#  (1) SEMANTIC rules (decisive).  codec.py is folded by the checker's own
#      concrete evaluator (`Mach`, below: an interpreter for the Python subset
#      the module is written in, working on the `ast` only) over witness
#      definitions built through the codec's public construction protocol, and
#      every outcome (octets, decoded values, octets consumed, error class,
#      non-termination) is compared with the checker's reference model of the
#      documented behaviour (`R*` classes).  A counterexample is a VIOLATION
#      and is printed with the definition, the input and both outcomes.  The
#      shape of the implementation (helpers, loops vs comprehensions, cached
#      tuples, assertions, guards on inputs where the original diverges,
#      modern syntax) does not enter.
#  (2) SYMBOLIC proof attempts (for all inputs, on the shape known at the pinned
#      commit): a small path-sensitive symbolic walker over the method bodies
#      (forward substitution into exprnf terms, loops summarised as one symbolic
#      iteration, try/except as an extra path), complete decision tables,
#      normal-form comparison, the linear rewrite ((x*m + o) - o) // m -> x, the
#      class table through the MRO.  A proof that closes is recorded.  A proof
#      that does not close is NOT a verdict: the law is then decided by (1)
#      alone; the symbolic findings are printed only next to an evaluated
#      counterexample; if (1) cannot be carried out either the run ends as
#      ANALYSIS-ERROR.
# Nothing of the repository is imported or executed by the host interpreter.

import ast
import itertools
import re

from report import AnalysisError
from pyfront import Repo, canon, qualname
from pyutil import params, rel
from consteval import Ev, Unknown, Raised
from escape import handler_classes, catches
import exprnf as X

EXPLANATION = (
    "Semantic layer (decisive): codec.py is folded by the checker's own concrete evaluator (an AST interpreter; nothing is imported "
    "or executed) over witness definitions built through the codec's public protocol - 110 bit-field sets (22 partitions of 1..32 bits "
    "with spares and fixed values incl. 0, explicit lengths; 5 order spellings), 27 integer fields (all ten classes, widths 1..8 octets, "
    "five offset/mult transforms, boundary raws incl. 2**53+1 and the first unencodable values), the Field length/presence protocol with "
    "probe fields and callbacks, ten compositions (TLV, optional fields, nested envelopes to depth 3, sequences, sequences in sequences), "
    "eleven nested-length cases, sequences whose items differ in length (five item definitions with optional / callback-length parts, every "
    "presence pattern of 1..4 items incl. the optional part absent in the last item; stand-alone, as flexible tail and behind a length "
    "callback; truncations), error wrapping for every exception class a field can raise (also below nested envelopes and sequence "
    "items), the value domain of buffers (bytes / bytearray / memoryview / integer equal to the declared length / other integers / "
    "bool / float / str / None for a Buf at top level, flexible, nested and in a sequence item: only octet strings are ever encoded), "
    "decoded buffer values as octet strings of their own (bytes / bytearray witnesses, the bytearray overwritten afterwards) and "
    "length callbacks that search the remaining octets with bytes methods, "
    "repeated decodes of one Sequence/envelope (result ownership), message sequences through ONE definition object (eight "
    "definitions with callback-length spares / buffers / nested envelopes / sequences and optional fields, 4..7 messages each whose "
    "variable parts differ, encoded, decoded and re-encoded in order, in reverse and interleaved; single field objects used again and "
    "again; two objects of one class used alternately), and the toolkit's own definitions (trxd_proto) - and every "
    "outcome (octets, values, octets consumed, error class, non-termination) is compared with a reference model of the documented "
    "behaviour. Symbolic layer (proof attempts for all inputs on the known shape): path outcomes of every method as exprnf terms, complete "
    "decision tables, the linear rewrite ((x*m+o)-o)//m -> x, the class table through the MRO, handler stacks, the origin of the list "
    "Sequence.from_bytes returns. A symbolic proof that does not close is never a verdict by itself: the law is then decided by the "
    "evaluation. State kept between messages (R9) is additionally decided on the code: per-message methods through the call graph of the "
    "class hierarchy, store sites of attributes of self / in-place changes, reads no store of the same call comes before, abstract "
    "evaluation of the loop-free paths (dependence on the call's parameters / on kept attributes) and three-valued evaluation of the guards "
    "under the state a first call leaves: an unkeyed memo of a message-dependent value is a violation by itself, nothing kept holds by "
    "itself, everything else is decided by the message-sequence witnesses.")
ASSUMPTIONS = [
    "the universal over all compositions is decided on the listed witness compositions (and, where the symbolic proofs close, for all inputs of each block); not for every program built from the blocks",
    "the concrete evaluator implements the semantics of the Python subset codec.py uses (checked against the host interpreter on the checker's own test snippets); int.from_bytes / int.to_bytes / slicing / bytes.join / struct are the host's",
    "callbacks (get_pres/get_len/get_val) are pure functions of their arguments",
    "a sequence item that consumes no octets is outside the domain (the pinned code does not terminate on it)",
    "R6 (symbolic): a default-argument object / class attribute / module-level object that no toolkit code mentions outside Sequence.from_bytes is not emptied by reflection",
    "ceil(sum/8) (symbolic): tabulated exhaustively over bit sums 0..64",
    "R9 (code analysis): a value computed from the parameters of a per-message method (the message dictionary / octets, also through the "
    "get_pres / get_len / get_val callbacks called with them) differs between some two messages of some definition - the property "
    "quantifies over arbitrary presence / length callbacks; state kept outside the definition objects' attributes, containers and "
    "module / class-level objects written by codec.py is not looked for",
]

F = rel("codec")


# ------------------------------------------------------------------ terms

def K(v):
    return ("k", v)


NONE = K(None)
FALSE = K(False)
TRUE = K(True)


def V(n):
    return X.V(n)


def C(n):
    return X.C(n)


def mcall(name, recv, *args, **kw):
    return ("mcall", name, recv) + tuple(args) + tuple(("kw", k, kw[k]) for k in sorted(kw))


def call(name, *args):
    return ("call", name) + tuple(args)


def idx(b, i):
    return ("idx", b, i)


def sl(b, lo=NONE, hi=NONE, st=NONE):
    return ("slice", b, lo, hi, st)


def is_(a, b):
    a, b = sorted([a, b], key=repr)
    return ("cmp", "is", a, b)


def show(t):
    if not isinstance(t, tuple) or not t:
        return repr(t)
    k = t[0]
    if k == "k":
        v = t[1]
        if isinstance(v, frozenset):
            return "{" + ", ".join(sorted(repr(x) for x in v)) + "}"
        return repr(v)
    if k == "mcall":
        return "%s.%s(%s)" % (show(t[2]), t[1], ", ".join(show(a) for a in t[3:]))
    if k == "call":
        return "%s(%s)" % (t[1], ", ".join(show(a) for a in t[2:]))
    if k == "kw":
        return "%s=%s" % (t[1] if t[1] is not None else "**", show(t[2]))
    if k == "star":
        return "*" + show(t[1])
    if k == "slice":
        return "%s[%s:%s%s]" % (show(t[1]), "" if t[2] == NONE else show(t[2]), "" if t[3] == NONE else show(t[3]),
                                "" if t[4] == NONE else ":" + show(t[4]))
    if k == "idx":
        return "%s[%s]" % (show(t[1]), show(t[2]))
    if k == "attr":
        return "%s.%s" % (show(t[1]), t[2])
    if k == "cmp" and t[1] in ("is", "in"):
        return "(%s %s %s)" % (show(t[2]), t[1], show(t[3]))
    if k == "cmp":
        return "(%s %s %s)" % (show(t[2]), t[1], show(t[3]))
    if k == "not":
        return "not " + show(t[1])
    if k in ("and", "or"):
        return "(" + (" %s " % k).join(show(x) for x in t[1:]) + ")"
    if k in ("tuple", "list"):
        return ("(%s)" if k == "tuple" else "[%s]") % ", ".join(show(x) for x in t[1:])
    if k == "dict":
        return "{}"
    if k == "comp":
        return "[%s for $e in %s]" % (show(t[1]), show(t[2]))
    if k == "dictcomp":
        return "{%s: %s for $e in %s}" % (show(t[1]), show(t[2]), show(t[3]))
    if k == "lambda":
        return "lambda/%d: %s" % (t[1], show(t[2]))
    if k == "fn":
        return "<local function %s>" % t[1]
    if k == "obj":
        return "<new %s %s>" % ("list" if t[2] == ("list",) else "dict", t[1])
    if k == "ite":
        return "(%s if %s else %s)" % (show(t[2]), show(t[1]), show(t[3]))
    if k in ("+", "*", "&", "|", "^"):
        return "(" + (" %s " % k).join(show(x) for x in t[1:]) + ")"
    if k in ("mod", "div", "<<", ">>", "truediv"):
        op = {"mod": "%", "div": "//", "truediv": "/"}.get(k, k)
        return "(%s %s %s)" % (show(t[1]), op, show(t[2]))
    if k == "c":
        return str(t[1])
    if k == "v":
        return t[1]
    if k == "exc":
        return "<exception caught by `%s`>" % t[1]
    return repr(t)


def mydiv(a, n):
    """exprnf.div plus the exact-division rewrite (x*m) // m -> x (m != 0)."""
    if not X.is_c(n):
        if a == n:
            return C(1)
        if a[0] == "*" and n in a[1:]:
            rest = list(a[1:])
            rest.remove(n)
            return rest[0] if len(rest) == 1 else X.mul(*rest)
    return X.div(a, n)


_REB = {"+": X.add, "*": X.mul, "mod": X.mod, "&": X.band, "|": X.bor, "^": X.bxor,
        "<<": X.shl, ">>": X.shr, "div": mydiv}


def rebuild(t, f):
    """map f over the leaves-first rebuilt term, re-normalising."""
    r = f(t)
    if r is not None:
        return r
    if not isinstance(t, tuple) or not t:
        return t
    k = t[0]
    if k in ("c", "v", "k"):
        return t
    if k in _REB:
        return _REB[k](*[rebuild(x, f) for x in t[1:]])
    return tuple(rebuild(x, f) if isinstance(x, tuple) else x for x in t)


def subst(t, a, b):
    return rebuild(t, lambda x: b if x == a else None)


def subterms(t):
    yield t
    if isinstance(t, tuple):
        for x in t[1:]:
            if isinstance(x, tuple):
                for s in subterms(x):
                    yield s


def teval(t, bind):
    """Value of an arithmetic/boolean term under a binding of sub-terms to
    ints (the checker's own evaluator over its own normal form)."""
    if t in bind:
        return bind[t]
    k = t[0]
    if k == "c":
        return t[1]
    if k == "k" and isinstance(t[1], (bool, int)):
        return t[1]
    if k == "+":
        return sum(teval(x, bind) for x in t[1:])
    if k == "*":
        r = 1
        for x in t[1:]:
            r *= teval(x, bind)
        return r
    if k == "div":
        return teval(t[1], bind) // teval(t[2], bind)
    if k == "mod":
        return teval(t[1], bind) % teval(t[2], bind)
    if k == "<<":
        return teval(t[1], bind) << teval(t[2], bind)
    if k == ">>":
        return teval(t[1], bind) >> teval(t[2], bind)
    if k == "&":
        r = -1
        for x in t[1:]:
            r &= teval(x, bind)
        return r
    if k == "|":
        r = 0
        for x in t[1:]:
            r |= teval(x, bind)
        return r
    if k == "ite":
        return teval(t[2], bind) if teval(t[1], bind) else teval(t[3], bind)
    if k == "not":
        return not teval(t[1], bind)
    if k == "and":
        return all(teval(x, bind) for x in t[1:])
    if k == "or":
        return any(teval(x, bind) for x in t[1:])
    if k == "cmp" and t[1] == "<":
        return teval(t[2], bind) < teval(t[3], bind)
    if k == "cmp" and t[1] == "==":
        return teval(t[2], bind) == teval(t[3], bind)
    raise AnalysisError("term outside the arithmetic vocabulary: %s" % show(t)[:80])


# ------------------------------------------------------------- lowering

class Lw(X.PyLower):
    """Python expression -> term.  The environment maps *address terms*
    (('v', name) | ('v', 'a.b') | ('idx', base, i)) to value terms."""

    def __init__(self, env):
        X.PyLower.__init__(self, env={})
        self.st = env

    def addr(self, e):
        if isinstance(e, ast.Name):
            return V(e.id)
        if isinstance(e, ast.Attribute):
            b = self.lower(e.value)
            if b[0] == "v":
                return V(b[1] + "." + e.attr)
            return ("attr", b, e.attr)
        if isinstance(e, ast.Subscript) and not isinstance(e.slice, ast.Slice):
            return idx(self.lower(e.value), self.lower(e.slice))
        raise AnalysisError("store target outside the vocabulary: %s" % canon(e)[:60])

    def args(self, c):
        out = []
        for a in c.args:
            if isinstance(a, ast.Starred):
                out.append(("star", self.lower(a.value)))
            else:
                out.append(self.lower(a))
        for k in sorted(c.keywords, key=lambda k: k.arg or ""):
            out.append(("kw", k.arg, self.lower(k.value)))
        return tuple(out)

    def lower(self, e):
        if isinstance(e, ast.Constant):
            v = e.value
            if isinstance(v, bool) or v is None or isinstance(v, (str, bytes)):
                return K(v)
            if isinstance(v, int):
                return C(v)
            raise AnalysisError("constant outside the vocabulary: %r" % (v,))
        if isinstance(e, (ast.Name, ast.Attribute)) or (
                isinstance(e, ast.Subscript) and not isinstance(e.slice, ast.Slice)):
            a = self.addr(e)
            return self.st.get(a, a)
        if isinstance(e, ast.Subscript):
            s = e.slice
            return sl(self.lower(e.value),
                      self.lower(s.lower) if s.lower is not None else NONE,
                      self.lower(s.upper) if s.upper is not None else NONE,
                      self.lower(s.step) if s.step is not None else NONE)
        if isinstance(e, ast.BinOp) and isinstance(e.op, ast.Pow):
            if self.lower(e.left) == C(2):
                return X.shl(C(1), self.lower(e.right))       # 2 ** k == 1 << k for k >= 0
            raise AnalysisError("power with a base other than 2: %s" % canon(e)[:60])
        if isinstance(e, ast.BinOp) and isinstance(e.op, ast.FloorDiv):
            return mydiv(self.lower(e.left), self.lower(e.right))
        if isinstance(e, ast.BinOp) and isinstance(e.op, ast.Div):
            # true (floating point) division: a known operator that is NOT the inverse of integer multiplication
            return ("truediv", self.lower(e.left), self.lower(e.right))
        if isinstance(e, ast.Compare):
            if len(e.ops) != 1:
                raise AnalysisError("chained comparison: %s" % canon(e)[:60])
            a, b = self.lower(e.left), self.lower(e.comparators[0])
            op = e.ops[0]
            if isinstance(op, ast.Is):
                return is_(a, b)
            if isinstance(op, ast.IsNot):
                return ("not", is_(a, b))
            if isinstance(op, (ast.In, ast.NotIn)):
                rhs = e.comparators[0]
                if isinstance(rhs, (ast.Tuple, ast.List, ast.Set)) and all(isinstance(x, ast.Constant) for x in rhs.elts):
                    b = K(frozenset(x.value for x in rhs.elts))
                t = ("cmp", "in", a, b)
                return t if isinstance(op, ast.In) else ("not", t)
            sym = {ast.Lt: "<", ast.LtE: "<=", ast.Gt: ">", ast.GtE: ">=", ast.Eq: "==", ast.NotEq: "!="}[type(op)]
            return X.cmp_(sym, a, b)
        if isinstance(e, ast.BoolOp):
            return ("and" if isinstance(e.op, ast.And) else "or",) + tuple(self.lower(v) for v in e.values)
        if isinstance(e, ast.UnaryOp) and isinstance(e.op, ast.Not):
            return ("not", self.lower(e.operand))
        if isinstance(e, (ast.Tuple, ast.List)):
            return ("tuple" if isinstance(e, ast.Tuple) else "list",) + tuple(self.lower(x) for x in e.elts)
        if isinstance(e, ast.Dict):
            if e.keys:
                raise AnalysisError("non-empty dict display: %s" % canon(e)[:60])
            return ("dict",)
        if isinstance(e, ast.Call):
            f = e.func
            if isinstance(f, ast.Attribute):
                return ("mcall", f.attr, self.lower(f.value)) + self.args(e)
            if isinstance(f, ast.Name):
                tgt = self.st.get(V(f.id))
                if tgt is not None and tgt[0] == "v" and "." in tgt[1]:
                    recv, _, meth = tgt[1].rpartition(".")
                    return ("mcall", meth, self.st.get(V(recv), V(recv))) + self.args(e)
                if tgt is None and f.id in ("list", "dict") and not e.args and not e.keywords:
                    return (f.id,)                 # list() / dict(): the same fresh empty object as [] / {}
                return ("call", f.id) + self.args(e)
            raise AnalysisError("callee outside the vocabulary: %s" % canon(e)[:60])
        if isinstance(e, (ast.ListComp, ast.GeneratorExp, ast.DictComp)):
            if len(e.generators) != 1 or e.generators[0].ifs or not isinstance(e.generators[0].target, ast.Name):
                raise AnalysisError("comprehension outside the vocabulary: %s" % canon(e)[:60])
            g = e.generators[0]
            it = self.lower(g.iter)
            env2 = dict(self.st)
            env2[V(g.target.id)] = V("$e")
            sub = Lw(env2)
            if isinstance(e, ast.DictComp):
                return ("dictcomp", sub.lower(e.key), sub.lower(e.value), it)
            return ("comp", sub.lower(e.elt), it)
        if isinstance(e, ast.Lambda):
            ps = [a.arg for a in e.args.args]
            # the body is evaluated at call time: attributes are read then
            env2 = {k: V("self") for k, v in self.st.items() if v == V("self")}
            for i, p in enumerate(ps):
                env2[V(p)] = V("$%d" % i)
            return ("lambda", len(ps), Lw(env2).lower(e.body))
        if isinstance(e, (ast.BinOp, ast.UnaryOp, ast.IfExp)):
            return X.PyLower.lower(self, e)
        raise AnalysisError("expression outside the vocabulary: %s" % canon(e)[:60])


# ------------------------------------------------------- literals / tables

def tlits(t, pol=True):
    """literal set of a condition term taken with polarity pol"""
    k = t[0]
    if k == "not":
        return tlits(t[1], not pol)
    if (k == "and" and pol) or (k == "or" and not pol):
        out = set()
        for x in t[1:]:
            out |= tlits(x, pol)
        return out
    if k == "k":
        return set() if bool(t[1]) == pol else {(K("unreachable"), True)}
    return {(t, pol)}


def atoms_of(t, out):
    k = t[0]
    if k == "not":
        return atoms_of(t[1], out)
    if k in ("and", "or"):
        for x in t[1:]:
            atoms_of(x, out)
        return out
    if k == "k":
        return out
    if t not in out:
        out.append(t)
    return out


def ceval(t, assign):
    k = t[0]
    if k == "not":
        return not ceval(t[1], assign)
    if k == "and":
        return all(ceval(x, assign) for x in t[1:])
    if k == "or":
        return any(ceval(x, assign) for x in t[1:])
    if k == "k":
        return bool(t[1])
    if t not in assign:
        raise AnalysisError("atom not in the decision table: %s" % show(t)[:80])
    return assign[t]


# ------------------------------------------------------------ the walker

class St:
    __slots__ = ("env", "conds", "events")

    def __init__(self, env, conds=(), events=()):
        self.env = env
        self.conds = tuple(conds)
        self.events = tuple(events)

    def fork(self, cond=None, event=None):
        return St(dict(self.env), self.conds + ((cond,) if cond is not None else ()),
                  self.events + ((event,) if event is not None else ()))


class Out:
    def __init__(self, kind, st, val=None, cls=None, node=None, cause=False):
        self.kind, self.st, self.val, self.cls, self.node, self.cause = kind, st, val, cls, node, cause

    @property
    def lits(self):
        out = set()
        for t, p in self.st.conds:
            out |= tlits(t, p)
        return out

    def sig(self):
        if self.kind == "ret":
            return "return " + show(self.val)
        if self.kind == "raise":
            return "raise " + str(self.cls)
        return self.kind

    def calls(self, name=None):
        out = []
        for e in self.st.events:
            if e[0] == "call" and (name is None or (e[1][0] == "mcall" and e[1][1] == name) or
                                   (e[1][0] == "call" and e[1][1] == name)):
                out.append(e[1])
        return out

    def all_calls(self):
        """every call term evaluated on the path (statement calls, calls nested in stores/conditions/returns)"""
        seen = []
        for e in self.st.events:
            if e[0] in ("eval", "call") and e[1][0] in ("mcall", "call") and e[1] not in seen:
                seen.append(e[1])
        return seen

    def stores(self):
        return [(e[1], e[2]) for e in self.st.events if e[0] == "store"]


class Loop:
    def __init__(self, node, kind, head, pre, env0, outs, target):
        self.node, self.kind, self.head, self.pre, self.env0, self.outs, self.target = \
            node, kind, head, pre, env0, outs, target

    def falls(self):
        return [o for o in self.outs if o.kind in ("fall", "continue")]

    def carried(self):
        """names assigned in the body whose value at the end of an iteration
        depends on the value at its start (or that are re-assigned)"""
        out = []
        for a in self.pre:
            if a[0] == "v" and "." not in a[1]:
                for b in self.falls():
                    v = b.st.env.get(a, a)
                    if v != a and any(s == a for s in subterms(v)):
                        if a not in out:
                            out.append(a)
        return out


def assigned_addrs(stmts, lw):
    out = []
    for st in stmts:
        for n in ast.walk(st):
            tg = []
            if isinstance(n, ast.Assign):
                tg = list(n.targets)
            elif isinstance(n, (ast.AugAssign, ast.AnnAssign)):
                tg = [n.target]
            elif isinstance(n, ast.For):
                tg = [n.target]
            for t in tg:
                for x in (t.elts if isinstance(t, (ast.Tuple, ast.List)) else [t]):
                    if isinstance(x, ast.Name):
                        a = V(x.id)
                        if a not in out:
                            out.append(a)
    return out


def eval_calls(e, lw):
    """call terms evaluated by expression e, inner calls first; bodies of
    lambdas and comprehensions are not entered (deferred / per element)"""
    out = []

    def rec(n):
        if isinstance(n, ast.Lambda):
            return
        if isinstance(n, (ast.ListComp, ast.GeneratorExp, ast.DictComp, ast.SetComp)):
            for g in n.generators:
                rec(g.iter)
            return
        for c in ast.iter_child_nodes(n):
            rec(c)
        if isinstance(n, ast.Call):
            out.append(lw.lower(n))
    if e is not None:
        rec(e)
    return tuple(("eval", t) for t in out)


class Sx:
    """Path-sensitive symbolic walk of a statement list."""

    def __init__(self, limit=400):
        self.loops = []
        self.steps = 0
        self.limit = limit

    def run(self, stmts, st):
        self.steps += 1
        if self.steps > self.limit * 50:
            raise AnalysisError("symbolic walk: too many paths")
        stmts = list(stmts)
        for i, s in enumerate(stmts):
            rest = stmts[i + 1:]
            lw = Lw(st.env)
            if isinstance(s, ast.Expr):
                if isinstance(s.value, ast.Constant):
                    continue
                t = lw.lower(s.value)
                st = st.fork(event=("call", t) if t[0] in ("mcall", "call") else ("expr", t))
                st.events = st.events[:-1] + eval_calls(s.value, lw) + st.events[-1:]
                continue
            if isinstance(s, ast.Pass):
                continue
            if isinstance(s, (ast.Assign, ast.AnnAssign)):
                if isinstance(s, ast.AnnAssign):
                    if s.value is None:
                        continue
                    targets = [s.target]
                else:
                    targets = s.targets
                v = lw.lower(s.value)
                st = st.fork()
                st.events = st.events + eval_calls(s.value, lw)
                for t in targets:
                    self.assign(t, v, st, lw)
                continue
            if isinstance(s, ast.AugAssign):
                cur = lw.lower(s.target)
                val = lw.lower(s.value)
                op = type(s.op)
                fn = {ast.Add: X.add, ast.Sub: X.sub, ast.Mult: X.mul, ast.BitOr: X.bor, ast.BitAnd: X.band,
                      ast.BitXor: X.bxor, ast.LShift: X.shl, ast.RShift: X.shr, ast.FloorDiv: mydiv, ast.Mod: X.mod}.get(op)
                if fn is None:
                    raise AnalysisError("augmented assignment outside the vocabulary: %s" % canon(s)[:60])
                st = st.fork()
                st.events = st.events + eval_calls(s.value, lw)
                self.assign(s.target, fn(cur, val), st, lw)
                continue
            if isinstance(s, ast.If):
                c = lw.lower(s.test)
                st = st.fork()
                st.events = st.events + eval_calls(s.test, lw)
                if c[0] == "k":
                    return self.run(list(s.body if c[1] else s.orelse) + rest, st)
                return self.run(list(s.body) + rest, st.fork(cond=(c, True))) + \
                    self.run(list(s.orelse) + rest, st.fork(cond=(c, False)))
            if isinstance(s, ast.Return):
                st = st.fork()
                st.events = st.events + eval_calls(s.value, lw)
                return [Out("ret", st, lw.lower(s.value) if s.value is not None else NONE, node=s)]
            if isinstance(s, ast.Raise):
                cls = "Exception"
                if s.exc is not None:
                    e = s.exc.func if isinstance(s.exc, ast.Call) else s.exc
                    cls = canon(e)
                return [Out("raise", st, cls=cls, node=s, cause=s.cause is not None)]
            if isinstance(s, ast.Break):
                return [Out("break", st, node=s)]
            if isinstance(s, ast.Continue):
                return [Out("continue", st, node=s)]
            if isinstance(s, ast.FunctionDef):
                st = st.fork()
                st.env[V(s.name)] = ("fn", s.name)
                continue
            if isinstance(s, (ast.For, ast.While)):
                if s.orelse:
                    raise AnalysisError("loop with else clause")
                st, escaped = self.loop(s, st, lw)
                if escaped:
                    return escaped + self.run(rest, st)
                continue
            if isinstance(s, ast.Try):
                return self.try_(s, st, rest)
            raise AnalysisError("statement outside the vocabulary: %s" % canon(s)[:60])
        return [Out("fall", st)]

    def assign(self, t, v, st, lw):
        if isinstance(t, (ast.Tuple, ast.List)):
            if v[0] in ("tuple", "list") and len(v) - 1 == len(t.elts):
                for x, vv in zip(t.elts, v[1:]):
                    self.assign(x, vv, st, lw)
            else:
                for i, x in enumerate(t.elts):
                    self.assign(x, idx(v, C(i)), st, lw)
            return
        a = Lw(st.env).addr(t)
        if isinstance(t, ast.Name) and v in (("list",), ("dict",)):
            v = ("obj", t.id, v)       # a fresh mutable object: keep its identity, not its (changing) content
        st.env[a] = v
        if not isinstance(t, ast.Name):
            st.events = st.events + (("store", a, v),)

    def loop(self, s, st, lw):
        asg = assigned_addrs(s.body, lw)
        target = None
        env2 = dict(st.env)
        if isinstance(s, ast.For):
            if not isinstance(s.target, ast.Name):
                raise AnalysisError("loop target outside the vocabulary")
            target = s.target.id
            head = lw.lower(s.iter)
            env2[V(target)] = V("$it")
        pre = {}
        for a in asg:
            if target is not None and a == V(target):
                continue
            pre[a] = st.env.get(a, a)
            env2.pop(a, None)
        # attribute/subscript stores made in the body are not carried: drop
        # stale facts about them
        if isinstance(s, ast.While):
            head = Lw(env2).lower(s.test)
        outs = self.run(s.body, St(env2))
        rec = Loop(s, "for" if isinstance(s, ast.For) else "while", head, pre, dict(st.env), outs, target)
        self.loops.append(rec)
        st2 = St(dict(env2), st.conds, st.events + (("loop", rec),))
        st2.env.pop(V(target), None) if target else None
        escaped = []
        for o in outs:
            if o.kind in ("ret", "raise"):
                escaped.append(Out(o.kind, St(o.st.env, st.conds + ((("inloop", id(rec)), True),) + o.st.conds,
                                              st.events + (("loop", rec),) + o.st.events),
                                   o.val, o.cls, o.node, o.cause))
        return st2, escaped

    def try_(self, s, st, rest):
        if s.finalbody:
            raise AnalysisError("try/finally outside the vocabulary")
        hs = [(handler_classes(h), "except %s" % (canon(h.type) if h.type is not None else "<all>")) for h in s.handlers]
        outs = []
        for o in self.run(s.body, st):
            if o.kind == "fall":
                outs += self.run(list(s.orelse) + rest, o.st)
            elif o.kind == "raise" and catches([hs], o.cls) is not None:
                txt = catches([hs], o.cls)
                h = s.handlers[[t for _, t in hs].index(txt)]
                outs += self.handler(h, txt, o.st, rest, explicit=o)
            else:
                outs.append(o)
        # implicit: any operation of the protected region raises
        lw = Lw(st.env)
        asg = assigned_addrs(s.body, lw)
        for h, (_, txt) in zip(s.handlers, hs):
            env2 = dict(st.env)
            for a in asg:
                env2.pop(a, None)
            outs += self.handler(h, txt, St(env2, st.conds, st.events), rest)
        return outs

    def handler(self, h, txt, st, rest, explicit=None):
        st = st.fork(cond=(("exc", txt), True), event=("exc", txt))
        if h.name:
            st.env[V(h.name)] = V("$exc")
        return self.run(list(h.body) + rest, st)


def walk_method(fd, roles):
    """symbolic walk of a method with its parameters renamed to roles"""
    ps = params(fd)
    if len(ps) < len(roles):
        raise AnalysisError("%s: expected parameters %s, found %s" % (fd.name, roles, ps))
    env = {}
    for p, r in zip(ps, roles):
        env[V(p)] = V(r if r == "self" else "$" + r)
    if fd.args.kwarg is not None:
        env[V(fd.args.kwarg.arg)] = V("$kw")
    if fd.args.vararg is not None:
        env[V(fd.args.vararg.arg)] = V("$args")
    sx = Sx()
    outs = sx.run(fd.body, St(env))
    return sx, outs


def table(outs, sig):
    """complete decision table of the outcomes over their atoms:
    (atoms, {assignment tuple: signature})"""
    atoms = []
    for o in outs:
        for t, _ in o.st.conds:
            atoms_of(t, atoms)
    atoms = [a for a in atoms if a[0] not in ("exc", "inloop")]
    if len(atoms) > 8:
        raise AnalysisError("decision table too large")
    rows = {}
    normal = [o for o in outs if not any(t[0] in ("exc",) for t, _ in o.st.conds)]
    for vals in itertools.product([False, True], repeat=len(atoms)):
        assign = dict(zip(atoms, vals))
        hit = [o for o in normal if all(ceval(t, assign) == p for t, p in o.st.conds if t[0] != "inloop")]
        sigs = sorted({sig(o) for o in hit})
        rows[vals] = sigs[0] if len(sigs) == 1 else tuple(sigs)
    return atoms, rows


def fmt_atoms(atoms):
    return sorted(show(a) for a in atoms)


def fmt_rows(atoms, rows, names=None):
    out = {}
    for vals, s in rows.items():
        k = ", ".join("%s=%d" % ((names or {}).get(a, show(a)), v) for a, v in sorted(zip(atoms, vals), key=lambda z: show(z[0])))
        out[k] = s
    return out


def need(repo, cls, meth):
    parts = cls.split(".")
    ci = repo.need_class("codec", parts[0])
    for p in parts[1:]:
        if p not in ci.inner:
            raise AnalysisError("anchor class codec.%s vanished" % cls)
        ci = ci.inner[p]
    fd = ci.methods.get(meth)
    if fd is None:
        raise AnalysisError("anchor method codec.%s.%s vanished" % (cls, meth))
    return ci, fd


# pres literal classification ------------------------------------------------

PRES = mcall("get_pres", V("self"), V("$vals"))


def pres_kind(atom):
    """how an atom tests the presence callback: 'is False' | 'falsy' |
    '== False' | None (not a presence test)"""
    if atom == is_(PRES, FALSE):
        return "is False"
    if atom == PRES:
        return "falsy"
    if atom == X.cmp_("==", PRES, FALSE) or atom == X.cmp_("==", PRES, C(0)):
        return "== False"
    if atom == is_(PRES, TRUE) or atom == X.cmp_("==", PRES, TRUE):
        return "is/== True"
    return None


def absent_value(atom, val):
    """truth of 'field absent' given the atom's truth value"""
    k = pres_kind(atom)
    if k in ("is False", "== False"):
        return val
    return not val


# ====================================================================== R1

def r1_set_init(L, repo):
    """R1 (group: BitFieldSet.__init__): offset/mask/length derivation of a bit-field set"""
    R = "C16.R1"
    ci, fd = need(repo, "BitFieldSet", "__init__")
    fn = "BitFieldSet.__init__"
    L.fn(F, fn)
    sx, outs = walk_method(fd, ["self"])
    falls = [o for o in outs if o.kind in ("fall", "ret")]
    raises = [o for o in outs if o.kind == "raise"]
    L.require(R, F, fn, "every rejection of a definition raises ProtocolError", ["ProtocolError"],
              sorted({o.cls for o in raises}) or ["<none>"])
    if not falls:
        raise AnalysisError("BitFieldSet.__init__: no normal path")
    F0 = mcall("get", V("$kw"), K("set"), V("self.STRUCT"))
    ORDER = idx(V("self.p"), K("order"))
    Z = X.cmp_("==", V("self.len"), C(0))
    n_loops = 0
    len_rows = {}      # (z, extra-literals) -> len term
    for o in falls:
        lits = o.lits
        rev_l = [(t, p) for t, p in lits if t[0] == "cmp" and t[1] == "in" and t[2] == ORDER]
        z_l = [(t, p) for t, p in lits if t == Z]
        other = [(t, p) for t, p in lits if (t, p) not in rev_l and (t, p) not in z_l and
                 not (t[0] == "cmp" and t[1] == "is")]
        if len(rev_l) != 1:
            L.ob(R, F, fn, "field order is selected by the 'order' parameter on every path", "one test of self.p['order']",
                 [show(t) for t, _ in rev_l], False, fd.lineno)
            continue
        (rt, rp), = rev_l
        L.require(R, F, fn, "orders that mean LSB-first", ["little", "lsb"],
                  sorted(rt[3][1]) if rt[3][0] == "k" and isinstance(rt[3][1], frozenset) else show(rt[3]), line=fd.lineno)
        fields = o.st.env.get(V("self._fields"), V("self._fields"))
        REV = sl(F0, NONE, NONE, C(-1))
        REV2 = call("tuple", call("reversed", F0))
        if rp:
            L.ob(R, F, fn, "LSB-first order ('little'/'lsb'): the field tuple is reversed", show(REV), show(fields),
                 fields in (REV, REV2), fd.lineno)
        else:
            L.ob(R, F, fn, "MSB-first order: the field tuple is kept as given (kw 'set', default STRUCT)", show(F0), show(fields),
                 fields == F0, fd.lineno)
        # length
        lent = o.st.env.get(V("self.len"), V("self.len"))
        if len(z_l) == 1:
            len_rows.setdefault((z_l[0][1], rp), []).append((tuple(other), lent, fields))
        else:
            len_rows.setdefault((None, rp), []).append((tuple(other), lent, fields))
        # get_len re-defined
        gl = o.st.env.get(V("self.get_len"))
        L.ob(R, F, fn, "get_len is re-defined to the (derived) set length", "lambda/2: self.len", show(gl) if gl else "not re-defined",
             gl == ("lambda", 2, V("self.len")), fd.lineno)
        # the derivation loop
        loops = [e[1] for e in o.st.events if e[0] == "loop"]
        dl = []
        for lp in loops:
            for b in lp.falls():
                if V("$it.offset") in b.st.env or V("$it.mask") in b.st.env:
                    if lp not in dl:
                        dl.append(lp)
        if len(dl) != 1:
            raise AnalysisError("BitFieldSet.__init__: offset/mask derivation loop not found (anchor vanished)")
        lp = dl[0]
        n_loops += 1
        L.ob(R, F, fn, "offsets are assigned walking the (possibly reversed) field tuple in order", show(fields), show(lp.head),
             lp.head == fields, lp.node.lineno)
        car = lp.carried()
        if len(car) != 1:
            L.ob(R, F, fn, "one running 'remaining bits' counter is carried through the derivation loop", 1,
                 [show(a) for a in car], False, lp.node.lineno)
            continue
        rem = car[0]
        want_pre = X.mul(C(8), lent)
        L.ob(R, F, fn, "the walk starts at the most significant end: remaining = 8 * len", show(want_pre), show(lp.pre[rem]),
             lp.pre[rem] == want_pre, lp.node.lineno)
        BL = V("$it.bl")
        OVER = X.cmp_("<", rem, BL)
        bfalls = lp.falls()
        atoms = []
        for b in lp.outs:
            for t, _ in b.st.conds:
                atoms_of(t, atoms)
        L.require(R, F, fn, "atoms of the derivation loop body", [show(OVER)], fmt_atoms(atoms), line=lp.node.lineno)
        if [show(OVER)] != fmt_atoms(atoms):
            continue
        at, rows = table(lp.outs, lambda b: b.sig() if b.kind == "raise" else "assign")
        L.require(R, F, fn, "a field wider than the remaining bits is rejected (ProtocolError), every other field is placed",
                  {"%s=0" % show(OVER): "assign", "%s=1" % show(OVER): "raise ProtocolError"}, fmt_rows(at, rows), line=lp.node.lineno)
        for b in bfalls:
            env = b.st.env
            L.require(R, F, fn, "field offset = remaining - bl", show(X.sub(rem, BL)), show(env.get(V("$it.offset"), NONE)), line=lp.node.lineno)
            L.require(R, F, fn, "field mask = 2**bl - 1", show(X.add(X.shl(C(1), BL), C(-1))), show(env.get(V("$it.mask"), NONE)), line=lp.node.lineno)
            L.require(R, F, fn, "remaining bits decrease by bl after each field", show(X.sub(rem, BL)), show(env.get(rem, rem)), line=lp.node.lineno)
    L.floor(R, "offset/mask derivation loops (per path)", n_loops, 1)
    # derived length: ceil(sum(bl)/8) when no length was given
    n_len = 0
    for (z, rp), rows in sorted(len_rows.items(), key=repr):
        if z is None:
            L.ob(R, F, fn, "the set length is derived only when none was given (self.len == 0)", show(Z), "no such test", False, fd.lineno)
            continue
        if not z:
            for other, lent, _ in rows:
                L.require(R, F, fn, "an explicitly given length is kept", "self.len", show(lent), line=fd.lineno)
            continue
        # find the bit-sum term
        S = None
        for other, lent, fields in rows:
            for t in list(subterms(lent)) + [s for c, _ in other for s in subterms(c)]:
                if t[0] == "call" and t[1] == "sum":
                    S = t
        want_s = [call("sum", ("comp", V("$e.bl"), f)) for f in (F0, sl(F0, NONE, NONE, C(-1)), call("tuple", call("reversed", F0)))]
        L.ob(R, F, fn, "derived length is computed from the sum of the fields' bit lengths", show(want_s[0]),
             show(S) if S else "no sum", S in want_s, fd.lineno)
        if S not in want_s:
            continue
        bad = None
        for s in range(0, 65):
            hit = [(other, lent) for other, lent, _ in rows if all(bool(teval(c, {S: s})) == p for c, p in other)]
            if len(hit) != 1:
                raise AnalysisError("BitFieldSet.__init__: length derivation paths do not partition (sum=%d)" % s)
            got = teval(hit[0][1], {S: s})
            if got != -(-s // 8):
                bad = (s, got)
                break
        n_len += 1
        L.ob(R, F, fn, "derived length = ceil(sum(bl) / 8) octets%s" % (" (LSB-first path)" if rp else ""),
             "ceil(sum/8) for every bit sum 0..64", "sum=%d -> %d" % bad if bad else "ceil(sum/8) for every bit sum 0..64",
             bad is None, fd.lineno)
    L.floor(R, "length derivations", n_len, 1)


def r1_field_pair(L, repo):
    """R1 (group: BitField.enc_val / dec_val, spare bit-fields, BitField.__init__)"""
    R = "C16.R1"
    MASK, OFF, VAL = V("self.mask"), V("self.offset"), V("self.val")
    NOVAL = is_(VAL, NONE)
    SRC = idx(V("$vals"), V("self.name"))
    ci, fd = need(repo, "BitField", "enc_val")
    fn = "BitField.enc_val"
    L.fn(F, fn)
    sx, outs = walk_method(fd, ["self", "vals"])
    got = set()
    for o in outs:
        if o.kind != "ret":
            got.add((tuple(sorted((show(t), p) for t, p in o.lits)), o.sig()))
            continue
        for conds, v in ite_cases(o.val):
            lits = set(o.lits)
            for c, p in conds:
                lits |= tlits(c, p)
            got.add((tuple(sorted((show(t), p) for t, p in lits)), show(v)))

    def ENC(s):
        return X.shl(X.band(s, MASK), OFF)
    want = {(((show(NOVAL), True),), show(ENC(SRC))), (((show(NOVAL), False),), show(ENC(VAL)))}
    L.ob(R, F, fn, "enc_val = (value & mask) << offset -- truncated to the width before shifting; value is the fixed `val` if set, else vals[name]",
         sorted(want), sorted(got), got == want, fd.lineno)
    ci, fd = need(repo, "BitField", "dec_val")
    fn = "BitField.dec_val"
    L.fn(F, fn)
    sx, outs = walk_method(fd, ["self", "vals", "blob"])
    DEC = X.band(X.shr(V("$blob"), OFF), MASK)
    n_expr = 0
    for o in outs:
        st = [(a, v) for a, v in o.stores() if a == SRC]
        L.ob(R, F, fn, "dec_val stores (blob >> offset) & mask into vals[name] (path: %s)" % o.sig().split(" ")[0],
             show(DEC), [show(v) for _, v in st], len(st) == 1 and st[0][1] == DEC, fd.lineno)
        n_expr += 1
    MISM = X.cmp_("==", DEC, VAL)
    atoms, rows = table(outs, lambda o: o.sig() if o.kind == "raise" else "accept")
    want_atoms = sorted([show(NOVAL), show(MISM[1] if MISM[0] == "not" else MISM)])
    L.require(R, F, fn, "atoms of the fixed-value check", want_atoms, fmt_atoms(atoms), line=fd.lineno)
    if want_atoms == fmt_atoms(atoms):
        EQ = MISM[1] if MISM[0] == "not" else MISM
        want_rows = {}
        for vals in itertools.product([False, True], repeat=2):
            a = dict(zip(atoms, vals))
            want_rows[vals] = "raise DecodeError" if (not a[NOVAL] and not a[EQ]) else "accept"
        L.require(R, F, fn, "a decoded value different from the fixed `val` is rejected with DecodeError, anything else accepted",
                  fmt_rows(atoms, want_rows), fmt_rows(atoms, rows), line=fd.lineno)
    # spare bit-fields
    ci, fd = need(repo, "BitField.Spare", "enc_val")
    L.fn(F, "BitField.Spare.enc_val")
    sx, outs = walk_method(fd, ["self", "vals"])
    L.require(R, F, "BitField.Spare.enc_val", "spare bits are encoded as zero", ["return 0"], sorted({o.sig() for o in outs}), line=fd.lineno)
    ci, fd = need(repo, "BitField.Spare", "dec_val")
    L.fn(F, "BitField.Spare.dec_val")
    sx, outs = walk_method(fd, ["self", "vals", "blob"])
    L.require(R, F, "BitField.Spare.dec_val", "spare bits are ignored on decode (no store, no rejection)", [("fall", 0)],
              sorted({(o.kind if o.kind != "ret" or o.val != NONE else "fall", len(o.stores())) for o in outs}), line=fd.lineno)
    # BitField.__init__: bl >= 1, val default None
    ci, fd = need(repo, "BitField", "__init__")
    L.fn(F, "BitField.__init__")
    sx, outs = walk_method(fd, ["self", "name", "bl"])
    for o in outs:
        if o.kind in ("fall", "ret"):
            L.require(R, F, "BitField.__init__", "fixed value defaults to None (kw 'val')", show(mcall("get", V("$kw"), K("val"), NONE)),
                      show(o.st.env.get(V("self.val"), NONE)), line=fd.lineno)
            L.require(R, F, "BitField.__init__", "bit length is stored as given", "$bl", show(o.st.env.get(V("self.bl"), NONE)), line=fd.lineno)


def r1_set_pack(L, repo):
    """R1 (group: BitFieldSet._to_bytes / _from_bytes): packing of the whole set"""
    R = "C16.R1"
    ci, fd = need(repo, "BitFieldSet", "_to_bytes")
    fn = "BitFieldSet._to_bytes"
    L.fn(F, fn)
    sx, outs = walk_method(fd, ["self", "vals"])
    rets = [o for o in outs if o.kind == "ret"]
    L.require(R, F, fn, "outcomes", ["ret"], sorted({o.kind for o in outs}), line=fd.lineno)
    for o in rets:
        loops = [e[1] for e in o.st.events if e[0] == "loop"]
        if len(loops) != 1:
            raise AnalysisError("BitFieldSet._to_bytes: packing shape unclassifiable (expected one loop over the fields)")
        lp = loops[0]
        L.require(R, F, fn, "every field of the set contributes", "self._fields", show(lp.head), line=lp.node.lineno)
        bf = lp.falls()
        car = lp.carried()
        if len(car) != 1 or len(bf) != 1 or len(lp.outs) != 1:
            L.ob(R, F, fn, "one accumulator, straight-line loop body", "1 accumulator / 1 path", (len(car), len(lp.outs)), False, lp.node.lineno)
            continue
        acc = car[0]
        L.require(R, F, fn, "the accumulator starts at 0", "0", show(lp.pre[acc]), line=lp.node.lineno)
        L.require(R, F, fn, "each field's enc_val(vals) is ORed into the accumulator",
                  show(X.bor(acc, mcall("enc_val", V("$it"), V("$vals")))), show(bf[0].st.env.get(acc)), line=lp.node.lineno)
        got = norm_bytes_call(o.val)
        L.require(R, F, fn, "the accumulated integer is emitted as len octets, big-endian, unsigned",
                  ("to_bytes", show(acc), "self.len", "'big'", "False"), got, line=fd.lineno)
    ci, fd = need(repo, "BitFieldSet", "_from_bytes")
    fn = "BitFieldSet._from_bytes"
    L.fn(F, fn)
    sx, outs = walk_method(fd, ["self", "vals", "data"])
    L.require(R, F, fn, "outcomes", ["fall"], sorted({o.kind if not (o.kind == "ret" and o.val == NONE) else "fall" for o in outs}), line=fd.lineno)
    for o in outs:
        loops = [e[1] for e in o.st.events if e[0] == "loop"]
        if len(loops) != 1:
            raise AnalysisError("BitFieldSet._from_bytes: unpacking shape unclassifiable (expected one loop over the fields)")
        lp = loops[0]
        L.require(R, F, fn, "every field of the set is decoded", "self._fields", show(lp.head), line=lp.node.lineno)
        dcs = [c for b in lp.outs for c in b.calls("dec_val")]
        if len(dcs) != 1 or len(lp.outs) != 1:
            L.ob(R, F, fn, "one dec_val call per field", 1, len(dcs), False, lp.node.lineno)
            continue
        c = dcs[0]
        L.require(R, F, fn, "dec_val is called on the loop's field with the caller's dict", ("$it", "$vals"), (show(c[2]), show(c[3]) if len(c) > 3 else None), line=lp.node.lineno)
        blob = c[4] if len(c) > 4 else NONE
        L.require(R, F, fn, "the octets are read as one big-endian unsigned integer (same order as _to_bytes)",
                  ("from_bytes", "$data", "'big'", "False"), norm_bytes_call(blob), line=fd.lineno)


def ite_cases(t):
    """split a term with a top-level conditional into (conditions, term) cases"""
    # find first ite inside
    for s in subterms(t):
        if s[0] == "ite":
            out = []
            for pol, alt in ((True, s[2]), (False, s[3])):
                for conds, v in ite_cases(subst(t, s, alt)):
                    out.append((((s[1], pol),) + conds, v))
            return out
    return [((), t)]


def norm_bytes_call(t):
    """canonical view of int.from_bytes(data, order, signed=) /
    x.to_bytes(len, order, signed=)"""
    if not (isinstance(t, tuple) and t and t[0] == "mcall" and t[1] in ("from_bytes", "to_bytes")):
        return ("?", show(t))
    pos = [a for a in t[3:] if a[0] not in ("kw", "star")]
    kws = {a[1]: a[2] for a in t[3:] if a[0] == "kw"}
    if any(a[0] == "star" for a in t[3:]) or None in kws:
        return ("?", show(t))
    if t[1] == "from_bytes":
        if t[2] != V("int"):
            return ("?", show(t))
        names = ["bytes", "byteorder"]
    else:
        names = ["length", "byteorder"]
    d = dict(kws)
    for n, a in zip(names, pos):
        d[n] = a
    if len(pos) > 2:
        return ("?", show(t))
    signed = d.get("signed", FALSE)
    if t[1] == "from_bytes":
        return ("from_bytes", show(d.get("bytes", NONE)), show(d.get("byteorder", NONE)), show(signed))
    return ("to_bytes", show(t[2]), show(d.get("length", NONE)), show(d.get("byteorder", NONE)), show(signed))


# ====================================================================== R2

INT_RE = re.compile(r"^(Uint|Int)(\d+)(BE|LE)$")


def r2_pair(L, repo):
    """R2 (group: Uint._from_bytes / _to_bytes inverse pair)"""
    R = "C16.R2"
    ci, fd = need(repo, "Uint", "_from_bytes")
    fn = "Uint._from_bytes"
    L.fn(F, fn)
    sx, outs = walk_method(fd, ["self", "vals", "data"])
    SRC = idx(V("$vals"), V("self.name"))
    MULT, OFFS = idx(V("self.p"), K("mult")), idx(V("self.p"), K("offset"))
    dec = None
    L.require(R, F, fn, "straight-line decoder", 1, len(outs), line=fd.lineno)
    for o in outs:
        st = [v for a, v in o.stores() if a == SRC]
        if len(st) != 1:
            L.ob(R, F, fn, "one store into vals[name]", 1, len(st), False, fd.lineno)
            continue
        dec = st[0]
    if dec is None:
        raise AnalysisError("Uint._from_bytes: decoded value not found")
    fbs = [s for s in subterms(dec) if s[0] == "mcall" and s[1] == "from_bytes"]
    if len(fbs) != 1:
        raise AnalysisError("Uint._from_bytes: int.from_bytes call not found")
    FB = fbs[0]
    L.require(R, F, fn, "raw integer is read from the whole slice with the class's byte order and sign",
              ("from_bytes", "$data", "self.BO", "self.SIGN"), norm_bytes_call(FB), line=fd.lineno)
    want = X.add(X.mul(FB, MULT), OFFS)
    L.require(R, F, fn, "decoded value = raw * mult + offset", show(want), show(dec), line=fd.lineno)
    ci, fd = need(repo, "Uint", "_to_bytes")
    fn = "Uint._to_bytes"
    L.fn(F, fn)
    sx, outs = walk_method(fd, ["self", "vals"])
    L.require(R, F, fn, "straight-line encoder", ["ret"], [o.kind for o in outs], line=fd.lineno)
    GV = mcall("get_val", V("self"), V("$vals"))
    for o in outs:
        if o.kind != "ret":
            continue
        tb = norm_bytes_call(o.val)
        if tb[0] != "to_bytes":
            L.ob(R, F, fn, "encoder returns <raw>.to_bytes(...)", "to_bytes call", tb, False, fd.lineno)
            continue
        raw = o.val[2]
        comp = subst(raw, GV, dec)
        if comp != FB:
            # a differing result is a violation only if the expression is made of known arithmetic
            # (+, *, //, true division, int()) over the value, offset and mult; anything else is unclassifiable
            for t in subterms(raw):
                known = t[0] in ("c", "v", "k", "+", "*", "div", "truediv", "idx") or t == GV or \
                    (t[0] == "call" and t[1] in ("int", "round") and len(t) == 3)
                if not known:
                    raise AnalysisError("Uint._to_bytes: raw integer expression unclassifiable: %s" % show(raw)[:100])
        L.ob(R, F, fn, "the value is taken through get_val", show(GV), show(raw), any(t == GV for t in subterms(raw)), fd.lineno)
        L.ob(R, "%s" % F, "Uint._to_bytes o Uint._from_bytes",
             "re-encoding a decoded value reproduces the raw integer: ((x*mult + offset) - offset) // mult rewrites to x",
             show(FB), show(comp), comp == FB, fd.lineno)
        L.require(R, F, fn, "encoder and decoder use the same length, byte-order and sign attributes",
                  ("self.len", "self.BO", "self.SIGN"), tb[2:], line=fd.lineno)


def r2_class_table(L, repo):
    """R2 (group: the integer class table resolved through the MRO)"""
    R = "C16.R2"
    mod = repo.mod("codec")
    n = 0
    expected_base = {"Uint": (1, "big", False), "Int": (1, "big", True)}
    uint = repo.need_class("codec", "Uint")
    for name, c in sorted(mod.classes.items()):
        if uint not in repo.mro(c):
            continue
        m = INT_RE.match(name)
        if m:
            want = (int(m.group(2)) // 8 if int(m.group(2)) % 8 == 0 else None,
                    "big" if m.group(3) == "BE" else "little", m.group(1) == "Int")
        elif name in expected_base:
            want = expected_base[name]
        else:
            continue
        ev = Ev(repo, mod, self_cls=c)
        try:
            got = (ev.class_attr(c, "DEF_LEN"), ev.class_attr(c, "BO"), ev.class_attr(c, "SIGN"))
        except (Unknown, Raised) as e:
            raise AnalysisError("codec.%s: DEF_LEN/BO/SIGN do not fold: %s" % (name, e))
        n += 1
        L.require(R, F, name, "class %s: (DEF_LEN, BO, SIGN) resolved through the MRO match the name" % name, want, got, line=c.node.lineno)
        for meth in ("_from_bytes", "_to_bytes"):
            oc, om = repo.find_method(c, meth)
            L.require(R, F, name, "class %s inherits %s from Uint (no override)" % (name, meth), "Uint", oc.name if oc else None, line=c.node.lineno)
    L.floor(R, "integer classes", n, 10)
    dp, dv = repo.find_attr(uint, "DEF_PARAMS")
    try:
        got = Ev(repo, mod, self_cls=uint).ev(dv) if dv is not None else None
    except (Unknown, Raised):
        got = None
    L.require(R, F, "Uint", "default parameters are the identity transform", {"offset": 0, "mult": 1}, got)


# ====================================================================== R3 / R5

def r3_field(L, repo):
    """R3 (group: Field.from_bytes / Field.to_bytes decision tables); returns the presence tests for R5"""
    R = "C16.R3"
    ci, fd = need(repo, "Field", "from_bytes")
    fn = "Field.from_bytes"
    L.fn(F, fn)
    sx, outs = walk_method(fd, ["self", "vals", "data"])
    LEN = mcall("get_len", V("self"), V("$vals"), V("$data"))
    SHORT = X.cmp_("<", call("len", V("$data")), LEN)
    DECODE = mcall("_from_bytes", V("self"), V("$vals"), sl(V("$data"), NONE, LEN))

    def sig(o):
        if o.kind == "raise":
            return o.sig()
        cs = [show(c) for c in o.all_calls() if c[0] == "mcall" and c[1] in ("_from_bytes",)]
        return "%s after %s" % (o.sig(), cs if cs else "no decoder call")
    atoms, rows = table(outs, sig)
    pa = [a for a in atoms if pres_kind(a)]
    oth = [a for a in atoms if not pres_kind(a)]
    L.ob(R, F, fn, "atoms of from_bytes: presence test and the short-input test len(data) < get_len(vals, data)",
         ["<presence test>", show(SHORT)], ["<presence test>"] * len(pa) + fmt_atoms(oth), len(pa) == 1 and oth == [SHORT], fd.lineno)
    presence = {}
    if len(pa) == 1 and oth == [SHORT]:
        P = pa[0]
        want, got = {}, {}
        for vals, s in rows.items():
            a = dict(zip(atoms, vals))
            absent = absent_value(P, a[P])
            key = "absent=%d, short=%d" % (absent, a[SHORT])
            got[key] = s
            if absent:
                want[key] = "return 0 after no decoder call"
            elif a[SHORT]:
                want[key] = "raise DecodeError"
            else:
                want[key] = "return %s after %s" % (show(LEN), [show(DECODE)])
        L.require(R, F, fn, "from_bytes returns 0 when absent, raises DecodeError on short input, else hands data[:length] to the decoder and returns exactly length",
                  want, got, line=fd.lineno)
        presence[fn] = (P, fd)
        for o in outs:
            seq = [show(c) for c in o.all_calls()]
            L.ob("C16.R5", F, fn, "presence is consulted first: get_pres(vals) is the first call on every path", show(PRES),
                 seq[:1], seq[:1] == [show(PRES)], fd.lineno)
            if any(absent_value(P, p) for t, p in o.lits if t == P):
                n = [show(c) for c in o.all_calls() if c != PRES]
                L.ob("C16.R5", F, fn, "the absent path makes no length/decoder call", [], n, not n, fd.lineno)
    # ---- Field.to_bytes -----------------------------------------------------
    ci, fd = need(repo, "Field", "to_bytes")
    fn = "Field.to_bytes"
    L.fn(F, fn)
    sx, outs = walk_method(fd, ["self", "vals"])
    ENC = mcall("_to_bytes", V("self"), V("$vals"))
    FIXED = X.cmp_("<", C(0), V("self.len"))
    SAME = X.cmp_("==", call("len", ENC), V("self.len"))
    atoms, rows = table(outs, lambda o: o.sig())
    pa = [a for a in atoms if pres_kind(a)]
    oth = [a for a in atoms if not pres_kind(a)]
    alt_fixed = ("not", X.cmp_("==", V("self.len"), C(0)))
    ok_atoms = len(pa) == 1 and sorted(fmt_atoms(oth)) == sorted([show(FIXED), show(SAME)])
    L.ob(R, F, fn, "atoms of to_bytes: presence test, fixed-length test self.len > 0, length comparison len(encoded) == self.len",
         ["<presence test>"] + sorted([show(FIXED), show(SAME)]), ["<presence test>"] * len(pa) + fmt_atoms(oth), ok_atoms, fd.lineno)
    if ok_atoms:
        P = pa[0]
        want, got = {}, {}
        for vals, s in rows.items():
            a = dict(zip(atoms, vals))
            absent = absent_value(P, a[P])
            key = "absent=%d, fixed=%d, same_len=%d" % (absent, a[FIXED], a[SAME])
            got[key] = s
            if absent:
                want[key] = "return b''"
            elif a[FIXED] and not a[SAME]:
                want[key] = "raise EncodeError"
            else:
                want[key] = "return " + show(ENC)
        L.require(R, F, fn, "to_bytes returns b'' when absent, raises EncodeError when a fixed-length field encodes to another length, else returns the encoder's octets unchanged",
                  want, got, line=fd.lineno)
        presence[fn] = (P, fd)
        for o in outs:
            seq = [show(c) for c in o.all_calls()]
            L.ob("C16.R5", F, fn, "presence is consulted first: get_pres(vals) is the first call on every path", show(PRES),
                 seq[:1], seq[:1] == [show(PRES)], fd.lineno)
            if any(absent_value(P, p) for t, p in o.lits if t == P):
                n = [show(c) for c in o.all_calls() if c != PRES]
                L.ob("C16.R5", F, fn, "the absent path makes no encoder call", [], n, not n, fd.lineno)
    return presence


def r3_envelope(L, repo):
    """R3 (group: Envelope._from_bytes offset advance and tail check, Envelope._to_bytes concatenation)"""
    R = "C16.R3"
    ci, fd = need(repo, "Envelope", "_from_bytes")
    fn = "Envelope._from_bytes"
    L.fn(F, fn)
    sx, outs = walk_method(fd, ["self", "vals", "data", "offset"])
    dflt = [canon(d) for d in fd.args.defaults]
    L.require(R, F, fn, "decoding starts at offset 0 unless told otherwise (parameter default)", ["0"], dflt, line=fd.lineno)
    normal = [o for o in outs if not any(t[0] == "exc" for t, _ in o.st.conds)]
    n_loop = 0
    offs = set()
    for o in normal:
        loops = [e[1] for e in o.st.events if e[0] == "loop"]
        if len(loops) != 1:
            raise AnalysisError("Envelope._from_bytes: field loop not found")
        lp = loops[0]
        bf = lp.falls()
        car = lp.carried()
        if len(car) != 1 or len(lp.outs) != 1:
            L.ob(R, F, fn, "field loop: one running offset, straight-line body", "1 / 1", (len(car), len(lp.outs)), False, lp.node.lineno)
            continue
        off = car[0]
        offs.add(off)
        n_loop += 1
        L.require(R, F, fn, "fields are decoded in STRUCT order", "self.STRUCT", show(lp.head), line=lp.node.lineno)
        L.require(R, F, fn, "the running offset starts at the offset parameter", "$offset", show(lp.pre[off]), line=lp.node.lineno)
        want = X.add(off, mcall("from_bytes", V("$it"), V("$vals"), sl(V("$data"), off)))
        L.require(R, F, fn, "each field sees data[offset:] and its return value is added to offset", show(want), show(bf[0].st.env.get(off)), line=lp.node.lineno)
    L.floor(R, "Envelope field loops", n_loop, 1)
    if len(offs) == 1:
        off = offs.pop()
        CHK = V("self.check_len")
        TAIL = X.cmp_("==", call("len", V("$data")), off)
        atoms, rows = table(outs, lambda o: o.sig())
        L.require(R, F, fn, "atoms of the tail check", sorted([show(CHK), show(TAIL)]), fmt_atoms(atoms), line=fd.lineno)
        if sorted([show(CHK), show(TAIL)]) == fmt_atoms(atoms):
            want, got = {}, {}
            for vals, s in rows.items():
                a = dict(zip(atoms, vals))
                key = "check_len=%d, len(data)==offset: %d" % (a[CHK], a[TAIL])
                got[key] = s
                want[key] = "raise DecodeError" if (a[CHK] and not a[TAIL]) else "return " + show(off)
            L.require(R, F, fn, "tail octets are rejected with DecodeError iff check_len; otherwise the consumed length is returned",
                      want, got, line=fd.lineno)
    # ---- Envelope._to_bytes -------------------------------------------------
    ci, fd = need(repo, "Envelope", "_to_bytes")
    fn = "Envelope._to_bytes"
    L.fn(F, fn)
    sx, outs = walk_method(fd, ["self", "vals"])
    rets = [o for o in outs if o.kind == "ret" and not any(t[0] == "exc" for t, _ in o.st.conds)]
    L.require(R, F, fn, "normal outcomes", 1, len(rets), line=fd.lineno)
    for o in rets:
        v = o.val
        elt = None
        shape = None
        if v[0] == "mcall" and v[1] == "join" and len(v) == 4 and v[3][0] == "comp":
            shape = "join"
            if v[2] == K(b"") and v[3][2] == V("self.STRUCT"):
                elt = v[3][1]
        else:
            # explicit accumulation loop: acc = b''; for f in self.STRUCT: acc += <f's octets>; return acc
            loops = [e[1] for e in o.st.events if e[0] == "loop"]
            if len(loops) == 1 and v in loops[0].carried() and len(loops[0].outs) == 1:
                lp = loops[0]
                new = lp.outs[0].st.env.get(v)
                ordered = False
                for n in ast.walk(lp.node):
                    if isinstance(n, ast.AugAssign) and isinstance(n.op, ast.Add) and isinstance(n.target, ast.Name) and V(n.target.id) == v:
                        ordered = True
                    if isinstance(n, ast.Assign) and len(n.targets) == 1 and isinstance(n.targets[0], ast.Name) and V(n.targets[0].id) == v \
                            and isinstance(n.value, ast.BinOp) and isinstance(n.value.op, ast.Add) and isinstance(n.value.left, ast.Name) \
                            and V(n.value.left.id) == v:
                        ordered = True
                if ordered and new[0] == "+" and len(new) == 3 and v in new[1:] and lp.head == V("self.STRUCT") and lp.pre.get(v) == K(b""):
                    shape = "loop"
                    elt = subst([x for x in new[1:] if x != v][0], V("$it"), V("$e"))
        if shape is None and v[0] == "mcall" and v[1] == "join" and len(v) == 4 and v[3][0] == "obj" and v[3][2] == ("list",):
            # chunks = []; for f in self.STRUCT: chunks.append(<f's octets>); return b''.join(chunks)
            lst = v[3]
            loops = [e[1] for e in o.st.events if e[0] == "loop"]
            outside = [e[1] for e in o.st.events if e[0] in ("call", "eval") and e[1][0] == "mcall" and e[1][2] == lst and e[1] != v]
            if len(loops) == 1 and not outside and loops[0].head == V("self.STRUCT") and v[2] == K(b""):
                lp = loops[0]
                normal = [b for b in lp.outs if not any(t[0] == "exc" for t, _ in b.st.conds)]
                if len(normal) == 1 and normal[0].kind in ("fall", "continue"):
                    muts = [e[1] for e in normal[0].st.events if e[0] == "call" and e[1][0] == "mcall" and e[1][2] == lst]
                    if len(muts) == 1 and muts[0][1] == "append" and len(muts[0]) == 4:
                        shape = "append-loop"
                        elt = subst(muts[0][3], V("$it"), V("$e"))
        if shape is None:
            raise AnalysisError("Envelope._to_bytes: concatenation shape unclassifiable: %s" % show(v)[:80])
        direct = mcall("to_bytes", V("$e"), V("$vals"))
        ok = elt == direct
        if elt is not None and elt[0] == "call" and elt[2:] == (V("$e"),):
            # local helper: its body must return f.to_bytes(vals)
            for n in ast.walk(fd):
                if isinstance(n, ast.FunctionDef) and n is not fd and n.name == elt[1]:
                    env = {V(params(n)[0]): V("$e"), V(params(fd)[1]): V("$vals"), V(params(fd)[0]): V("self")}
                    hs = Sx().run(n.body, St(env))
                    r = [h for h in hs if h.kind == "ret" and not any(t[0] == "exc" for t, _ in h.st.conds)]
                    ok = len(r) == 1 and r[0].val == direct
        L.ob(R, F, fn, "the encoding is the concatenation of every field's to_bytes(vals) in STRUCT order",
             "b''.join([f.to_bytes(vals) for f in self.STRUCT])", show(v) if shape == "join" else "loop: %s" % show(elt), ok, fd.lineno)


def r3_sequence(L, repo):
    """R3 (group: Sequence.__init__ / from_bytes / to_bytes)"""
    R = "C16.R3"
    ci, fd = need(repo, "Sequence", "__init__")
    fn = "Sequence.__init__"
    L.fn(F, fn)
    sx, outs = walk_method(fd, ["self"])
    ITEM = mcall("get", V("$kw"), K("item"), V("self.ITEM"))
    nn = 0
    for o in outs:
        if o.kind not in ("fall", "ret"):
            continue
        nn += 1
        L.require(R, F, fn, "the item envelope is kw 'item' (default ITEM)", show(ITEM), show(o.st.env.get(V("self._item"), NONE)), line=fd.lineno)
        st = [(a, v) for a, v in o.stores() if (a[0] == "v" and a[1].endswith(".check_len")) or (a[0] == "attr" and a[2] == "check_len")]
        item = o.st.env.get(V("self._item"), V("self._item"))
        L.ob(R, F, fn, "the item envelope's tail check is switched off (check_len = False on the stored item)",
             "<item>.check_len = False", [(show(a), show(v)) for a, v in st],
             len(st) == 1 and st[0][1] == FALSE and st[0][0] in (("attr", item, "check_len"), V("self._item.check_len")), fd.lineno)
    L.floor(R, "Sequence.__init__ normal paths", nn, 1)
    ci, fd = need(repo, "Sequence", "from_bytes")
    fn = "Sequence.from_bytes"
    L.fn(F, fn)
    sx, outs = walk_method(fd, ["self", "data"])
    rets = [o for o in outs if o.kind == "ret"]
    L.require(R, F, fn, "outcomes", ["ret"], sorted({o.kind for o in outs}), line=fd.lineno)
    nseq = 0
    for o in rets:
        loops = [e[1] for e in o.st.events if e[0] == "loop"]
        if len(loops) != 1:
            raise AnalysisError("Sequence.from_bytes: item loop not found")
        lp = loops[0]
        bf = lp.falls()
        car = lp.carried()
        if len(car) != 1 or len(lp.outs) != 1:
            L.ob(R, F, fn, "item loop: one running offset, straight-line body", "1 / 1", (len(car), len(lp.outs)), False, lp.node.lineno)
            continue
        off = car[0]
        nseq += 1
        L.require(R, F, fn, "items are decoded while offset < len(data)", show(X.cmp_("<", off, call("len", V("$data")))), show(lp.head), line=lp.node.lineno)
        L.require(R, F, fn, "the running offset starts at 0", "0", show(lp.pre[off]), line=lp.node.lineno)
        new = bf[0].st.env.get(off)
        calls = [s for s in subterms(new) if s[0] == "mcall" and s[1] == "_from_bytes"]
        if len(calls) != 1:
            L.ob(R, F, fn, "one item decode per iteration", 1, len(calls), False, lp.node.lineno)
            continue
        c = calls[0]
        L.require(R, F, fn, "offset advances by the item envelope's return value", show(X.add(off, c)), show(new), line=lp.node.lineno)
        L.require(R, F, fn, "the item is decoded by the envelope whose tail check __init__ switched off, from data[offset:]",
                  ("self._item", show(sl(V("$data"), off))), (show(c[2]), show(c[4]) if len(c) > 4 else None), line=lp.node.lineno)
        seqv = o.val
        evs = list(bf[0].st.events)
        apps = [(k, e[1]) for k, e in enumerate(evs) if e[0] == "call" and e[1][0] == "mcall" and e[1][1] == "append" and e[1][2] == seqv]
        decs = [k for k, e in enumerate(evs) if e[0] == "eval" and e[1] == c]
        tgt = c[3] if len(c) > 3 else None
        key = "every item is decoded into a fresh dict that is appended, in the same iteration, to the returned list (which starts empty)"
        found = ([show(a) for _, a in apps], "decode into %s" % (show(tgt) if tgt else None), "return %s" % show(seqv))
        if not (seqv[0] == "obj" and seqv[2] == ("list",)):
            if seqv[0] in ("list", "tuple", "k"):
                L.ob(R, F, fn, key, "return <the list the items were appended to>", found, False, lp.node.lineno)
                continue
            if not is_symbol(seqv):
                raise AnalysisError("Sequence.from_bytes: returned value unclassifiable: %s" % show(seqv)[:60])
            # one identity-bearing object that this call did not create (an argument, an attribute, a module-level
            # name): the item bookkeeping below is decided on it as on a local list; whether that object may be
            # returned at all (who owns it, does it start empty) is decided by R6 (result ownership)
        if len(apps) != 1 or len(apps[0][1]) != 4 or not decs or tgt is None:
            if not apps and tgt is not None and tgt[0] in ("dict", "obj"):
                L.ob(R, F, fn, key, "one append of the decoded dict per iteration", found, False, lp.node.lineno)
                continue
            raise AnalysisError("Sequence.from_bytes: item bookkeeping unclassifiable: %s" % (found,))
        ak, app = apps[0]
        arg = app[3]
        fresh_local = arg[0] == "obj" and arg[2] == ("dict",) and V(arg[1]) in lp.pre      # a dict created by this iteration
        if arg == ("dict",) and tgt == idx(seqv, C(-1)):
            ok = ak < decs[0]          # the last element is the one just appended only after the append
        elif fresh_local and tgt == arg:
            ok = True                  # the very object appended is the one decoded into (either order)
        elif arg == ("dict",) or fresh_local or (arg[0] == "obj" and arg[2] == ("dict",)):
            ok = False                 # a dict is appended but another object (or a shared one) is decoded into
        else:
            raise AnalysisError("Sequence.from_bytes: item bookkeeping unclassifiable: %s" % (found,))
        if arg[0] == "obj" and not fresh_local:
            ok = False                 # one dict shared by all items
        L.ob(R, F, fn, key, "append(<fresh dict>) and decode into that same object; return the list", found, ok, lp.node.lineno)
    L.floor(R, "Sequence item loops", nseq, 1)
    ci, fd = need(repo, "Sequence", "to_bytes")
    L.fn(F, "Sequence.to_bytes")
    sx, outs = walk_method(fd, ["self", "vseq"])
    want = mcall("join", K(b""), ("comp", mcall("_to_bytes", V("self._item"), V("$e")), V("$vseq")))
    if not all(o.kind == "ret" and o.val[0] == "mcall" and o.val[1] == "join" and len(o.val) == 4 and o.val[3][0] == "comp" for o in outs):
        raise AnalysisError("Sequence.to_bytes: concatenation shape unclassifiable")
    L.require(R, F, "Sequence.to_bytes", "a sequence encodes as the concatenation of its items in list order", [show(want)],
              [show(o.val) if o.kind == "ret" else o.sig() for o in outs], line=fd.lineno)


def r3_nested(L, repo):
    """R3 (group: the Envelope.F / Sequence.F field wrappers)"""
    R = "C16.R3"
    for cls, inner, call_dec, call_enc in (
            ("Envelope.F", "self.e", "_from_bytes", "_to_bytes"), ("Sequence.F", "self.s", "from_bytes", "to_bytes")):
        ci, fd = need(repo, cls, "_from_bytes")
        L.fn(F, cls + "._from_bytes")
        sx, outs = walk_method(fd, ["self", "vals", "data"])
        SRC = idx(V("$vals"), V("self.name"))
        for o in outs:
            cs = [c for c in o.all_calls() if c[0] == "mcall" and c[1] == call_dec]
            if cls == "Envelope.F":
                want = [show(mcall(call_dec, V(inner), ("dict",), V("$data")))]
                st = [show(v) for a, v in o.stores() if a == SRC]
                L.ob(R, F, cls + "._from_bytes", "nested envelope: a fresh dict is stored under the field name and the whole slice is decoded into it",
                     "vals[name] = {}; %s.%s(vals[name], data)" % (inner, call_dec), (st, [show(c) for c in cs]),
                     st == ["{}"] and [show(c) for c in cs] == want, fd.lineno)
            else:
                st = [v for a, v in o.stores() if a == SRC]
                want = mcall(call_dec, V(inner), V("$data"))
                L.ob(R, F, cls + "._from_bytes", "nested sequence: the whole slice is decoded and the list stored under the field name",
                     show(want), [show(v) for v in st], st == [want], fd.lineno)
        ci, fd = need(repo, cls, "_to_bytes")
        L.fn(F, cls + "._to_bytes")
        sx, outs = walk_method(fd, ["self", "vals"])
        want = mcall(call_enc, V(inner), mcall("get_val", V("self"), V("$vals")))
        L.require(R, F, cls + "._to_bytes", "nested %s encodes the value obtained through get_val" % ("envelope" if cls == "Envelope.F" else "sequence"),
                  [show(want)], [show(o.val) if o.kind == "ret" else o.sig() for o in outs], line=fd.lineno)
        ci, fd = need(repo, cls, "__init__")
        sx, outs = walk_method(fd, ["self", "inner", "name"])
        for o in outs:
            if o.kind in ("fall", "ret"):
                L.require(R, F, cls + ".__init__", "the wrapper keeps the wrapped codec it was given", "$inner",
                          show(o.st.env.get(V(inner), NONE)), line=fd.lineno)


def r5_presence(L, repo, presence):
    R = "C16.R5"
    n = 0
    for fn, (P, fd) in sorted(presence.items()):
        n += 1
        L.require(R, F, fn, "the presence callback's result is compared with `is False` (only the bool False means absent)",
                  "is False", pres_kind(P), line=fd.lineno)
    L.floor(R, "presence tests (from_bytes, to_bytes)", n, 2)


def r5_defaults(L, repo):
    """R5 (group: default callbacks installed by Field.__init__)"""
    R = "C16.R5"
    ci, fd = need(repo, "Field", "__init__")
    fn = "Field.__init__"
    L.fn(F, fn)
    sx, outs = walk_method(fd, ["self", "name"])
    Z = X.cmp_("==", V("self.len"), C(0))
    LENV = mcall("get", V("$kw"), K("len"), V("self.DEF_LEN"))
    Zs = X.cmp_("==", LENV, C(0))
    nn = 0
    for o in outs:
        if o.kind not in ("fall", "ret"):
            L.ob(R, F, fn, "Field.__init__ does not reject", "no raise", o.sig(), False, fd.lineno)
            continue
        env = o.st.env
        nn += 1
        L.require(R, F, fn, "field length is kw 'len' (default DEF_LEN)", show(LENV), show(env.get(V("self.len"), NONE)), line=fd.lineno)
        L.require(R, F, fn, "a field is present by default: get_pres returns the bool True", "lambda/1: True", show(env.get(V("self.get_pres"), NONE)), line=fd.lineno)
        L.require(R, F, fn, "a field takes its value from vals[name] by default", "lambda/1: $0[self.name]", show(env.get(V("self.get_val"), NONE)), line=fd.lineno)
        L.require(R, F, fn, "the field name is stored", "$name", show(env.get(V("self.name"), NONE)), line=fd.lineno)
        zl = [(t, p) for t, p in o.lits if t in (Z, Zs)]
        gl = env.get(V("self.get_len"), NONE)
        if len(zl) != 1:
            L.ob(R, F, fn, "default get_len is selected by len == 0", "one test of the length against 0", [show(t) for t, _ in o.lits], False, fd.lineno)
            continue
        if zl[0][1]:
            L.require(R, F, fn, "flexible field (len == 0): get_len returns the length of the remaining data", "lambda/2: len($1)", show(gl), line=fd.lineno)
        else:
            L.require(R, F, fn, "fixed-length field: get_len returns self.len", "lambda/2: self.len", show(gl), line=fd.lineno)
        want_p = ("dictcomp", V("$e"), mcall("get", V("$kw"), V("$e"), idx(V("self.DEF_PARAMS"), V("$e"))), V("self.DEF_PARAMS"))
        L.require(R, F, fn, "parameters: kw value, default from DEF_PARAMS, for exactly the keys of DEF_PARAMS", show(want_p), show(env.get(V("self.p"), NONE)), line=fd.lineno)
    L.floor(R, "Field.__init__ paths", nn, 2)


# ====================================================================== R4

FIELD_EXC = ["ValueError", "TypeError", "KeyError", "IndexError", "OverflowError", "ZeroDivisionError",
             "AttributeError", "struct.error", "DecodeError", "EncodeError", "NotImplementedError"]


def enclosing_try(node, stop):
    cur = getattr(node, "_parent", None)
    prev = node
    out = []
    while cur is not None and cur is not stop:
        if isinstance(cur, ast.Try) and any(prev is s for s in cur.body):
            out.append(cur)
        prev = cur
        cur = getattr(cur, "_parent", None)
    return out


def r4_errors(L, repo):
    R = "C16.R4"
    for meth, callee, want_cls in (("_from_bytes", "from_bytes", "DecodeError"), ("_to_bytes", "to_bytes", "EncodeError")):
        ci, fd = need(repo, "Envelope", meth)
        fn = "Envelope." + meth
        sites = [c for c in ast.walk(fd) if isinstance(c, ast.Call) and isinstance(c.func, ast.Attribute) and c.func.attr == callee]
        L.floor(R, "field %s call sites in %s" % (callee, fn), len(sites), 1)
        for c in sites:
            # innermost function holding the call
            inner = c
            while not isinstance(inner, ast.FunctionDef):
                inner = inner._parent
            trys = enclosing_try(c, inner)
            if not trys and inner is not fd:
                # helper: look at its call sites
                for c2 in ast.walk(fd):
                    if isinstance(c2, ast.Call) and isinstance(c2.func, ast.Name) and c2.func.id == inner.name:
                        trys += enclosing_try(c2, fd)
            stack = [[(handler_classes(h), "except %s" % (canon(h.type) if h.type is not None else "<all>")) for h in t.handlers]
                     for t in reversed(trys)]
            missed = [e for e in FIELD_EXC if catches(stack, e) is None]
            L.ob(R, F, fn, "field call `%s` is enclosed by a handler catching every exception class a field can raise" % canon(c)[:50],
                 "caught: all", "not caught: %s" % missed if missed else "caught: all", not missed, c.lineno)
            for t in trys:
                for h in t.handlers:
                    env = {V(p): V("$" + p) for p in params(fd)}
                    hs = Sx().run(h.body, St(env))
                    L.require(R, F, fn, "handler `%s` turns whatever a field raised into %s on every path" % (
                        "except %s" % (canon(h.type) if h.type is not None else "<all>"), want_cls),
                        ["raise " + want_cls], sorted({o.sig() for o in hs}), line=h.lineno)
        # explicit raises of the method itself
        rs = sorted({canon(n.exc.func if isinstance(n.exc, ast.Call) else n.exc) for n in ast.walk(fd)
                     if isinstance(n, ast.Raise) and n.exc is not None})
        L.ob(R, F, fn, "the method itself raises only %s" % want_cls, [want_cls], rs, set(rs) <= {want_cls}, fd.lineno)


def r4_classes(L, repo):
    """R4 (group: explicit rejections use the codec's own error classes)"""
    R = "C16.R4"
    for cls, meth, want_cls in (("Field", "from_bytes", "DecodeError"), ("Field", "to_bytes", "EncodeError"), ("BitField", "dec_val", "DecodeError")):
        ci, fd = need(repo, cls, meth)
        rs = sorted({canon(n.exc.func if isinstance(n.exc, ast.Call) else n.exc) for n in ast.walk(fd)
                     if isinstance(n, ast.Raise) and n.exc is not None})
        L.require(R, F, "%s.%s" % (cls, meth), "explicit rejections use the codec's own error class", [want_cls], rs, line=fd.lineno)
    # error classes are plain Exception subclasses (so the wrappers catch them, and nothing else hides them)
    mod = repo.mod("codec")
    for e in ("DecodeError", "EncodeError", "ProtocolError"):
        c = repo.need_class("codec", e)
        L.require(R, F, e, "%s derives from Exception" % e, ["Exception"], c.bases, line=c.node.lineno)


def r4_spare_buf(L, repo):
    """R4 (group: Spare ignores input and emits filler * len, Buf passes the slice through)"""
    R = "C16.R4"
    mod = repo.mod("codec")
    ci, fd = need(repo, "Spare", "_from_bytes")
    L.fn(F, "Spare._from_bytes")
    sx, outs = walk_method(fd, ["self", "vals", "data"])
    L.require(R, F, "Spare._from_bytes", "spare octets are ignored on decode (no store, no rejection)", [("fall", 0)],
              sorted({(o.kind if not (o.kind == "ret" and o.val == NONE) else "fall", len(o.stores())) for o in outs}), line=fd.lineno)
    ci, fd = need(repo, "Spare", "_to_bytes")
    L.fn(F, "Spare._to_bytes")
    sx, outs = walk_method(fd, ["self", "vals"])
    fill = idx(V("self.p"), K("filler"))
    lens = (mcall("get_len", V("self"), V("$vals"), K(b"")), V("self.len"))
    got = [o.val if o.kind == "ret" else K(o.sig()) for o in outs]
    L.ob(R, F, "Spare._to_bytes", "spare octets are emitted as filler * length, independent of vals",
         show(X.mul(fill, lens[0])), [show(g) for g in got], len(got) == 1 and got[0] in [X.mul(fill, l) for l in lens], fd.lineno)
    sp = repo.need_class("codec", "Spare")
    dp, dv = repo.find_attr(sp, "DEF_PARAMS")
    try:
        gotp = Ev(repo, mod, self_cls=sp).ev(dv)
    except (Unknown, Raised):
        gotp = None
    L.require(R, F, "Spare", "default filler is one zero octet", {"filler": b"\x00"}, gotp)
    ci, fd = need(repo, "Buf", "_from_bytes")
    L.fn(F, "Buf._from_bytes")
    sx, outs = walk_method(fd, ["self", "vals", "data"])
    SRC = idx(V("$vals"), V("self.name"))
    L.require(R, F, "Buf._from_bytes", "a buffer stores the slice it was handed, unchanged", [[(show(SRC), "$data")]],
              [[(show(a), show(v)) for a, v in o.stores()] for o in outs], line=fd.lineno)
    ci, fd = need(repo, "Buf", "_to_bytes")
    L.fn(F, "Buf._to_bytes")
    sx, outs = walk_method(fd, ["self", "vals"])
    L.require(R, F, "Buf._to_bytes", "a buffer encodes as its value, unchanged", ["return " + show(mcall("get_val", V("self"), V("$vals")))],
              [o.sig() for o in outs], line=fd.lineno)


# ====================================================================== R6

MUTABLE_CTORS = ("list", "dict", "set", "bytearray", "collections.deque", "deque")
GROWERS = ("append", "extend", "insert")
R6_KEY = ("the list that Sequence.from_bytes fills and returns is created by that very call - not one default-argument, "
          "class-level or module-level object that still holds the items of earlier decodes")


def is_symbol(t):
    """a term that names one object the walked method did not create (argument, attribute, global)"""
    return isinstance(t, tuple) and len(t) == 2 and t[0] == "v"


def default_exprs(fd):
    """parameter name -> default-value expression"""
    a = fd.args
    pos = list(getattr(a, "posonlyargs", [])) + list(a.args)
    out = {}
    for p, d in zip(pos[len(pos) - len(a.defaults):], a.defaults):
        out[p.arg] = d
    for p, d in zip(a.kwonlyargs, a.kw_defaults):
        if d is not None:
            out[p.arg] = d
    return out


def creates_mutable(e):
    """True: evaluating e creates a mutable container (once, where the expression stands: a default argument is
    evaluated when the function is defined, a class/module-level value when the class/module is); False: an
    immutable constant; None: cannot tell"""
    if isinstance(e, (ast.List, ast.Dict, ast.Set, ast.ListComp, ast.DictComp, ast.SetComp)):
        return True
    if isinstance(e, ast.Call) and canon(e.func) in MUTABLE_CTORS:
        return True
    if isinstance(e, ast.Constant):
        return False
    if isinstance(e, ast.Tuple) and all(creates_mutable(x) is False for x in e.elts):
        return False
    return None


def path_events(o):
    """events of an outcome, those of the loop bodies it ran through included"""
    out = []

    def rec(evs):
        for e in evs:
            if e[0] == "loop":
                for b in e[1].outs:
                    rec(b.st.events)
            else:
                out.append(e)
    rec(o.st.events)
    return out


def uses_of(val, o):
    """(method names called on the object `val`, other writes through it) along the path of outcome o"""
    meths, writes = [], []
    for e in path_events(o):
        if e[0] in ("call", "eval", "expr") and isinstance(e[1], tuple):
            for t in subterms(e[1]):
                if t[0] == "mcall" and t[2] == val and t[1] not in meths:
                    meths.append(t[1])
                if t[0] in ("mcall", "call") and not (t[0] == "call" and t[1] == "len"):
                    for x in t[3 if t[0] == "mcall" else 2:]:
                        if x == val or (x[0] in ("kw", "star") and x[-1] == val):
                            writes.append("passed to %s()" % t[1])      # the callee may do anything with it
        if e[0] == "store" and e[1] != val and any(x == val for x in subterms(e[1])):
            writes.append(show(e[1]))
    return meths, writes


def mentions_elsewhere(repo, fd, name):
    """mentions of a module-level name / an attribute called `name` anywhere in the toolkit outside the method fd
    (its definition included)"""
    inside = {id(n) for n in ast.walk(fd)}
    out = []
    for m in repo.tk_modules():
        for n in ast.walk(m.tree):
            if id(n) in inside:
                continue
            if (isinstance(n, ast.Name) and n.id == name) or (isinstance(n, ast.Attribute) and n.attr == name) or \
                    (isinstance(n, ast.Global) and name in n.names) or (isinstance(n, ast.alias) and name in (n.name, n.asname)) or \
                    (isinstance(n, ast.Constant) and n.value == name):
                out.append("%s:%d" % (m.name, getattr(n, "lineno", 0)))
    return out


def seq_owner(repo, ci, fd, o, roles):
    """Who owns the object outcome o of Sequence.from_bytes returns:
       ('fresh', text)    a list created by this call
       ('caller', text)   an argument, on a path taken only when the caller supplied it
       ('stale', text)    ONE object that outlives the call (default-argument object, class attribute, module-level
                          object), never re-created or emptied, that every call only appends to
       ('unknown', text)  anything else"""
    val = o.val
    if val[0] == "obj" and val[2] == ("list",):
        return "fresh", "a list created during the call (local `%s`)" % val[1]
    if not is_symbol(val):
        return "unknown", "returned value %s" % show(val)[:60]
    meths, writes = uses_of(val, o)
    guards = [show(t) for t, _ in o.lits if t[0] not in ("exc", "inloop") and any(x == val for x in subterms(t))]
    name = val[1]
    a = fd.args
    pnames = [p.arg for p in list(getattr(a, "posonlyargs", [])) + list(a.args) + list(a.kwonlyargs)]
    if name in pnames and name not in params(fd)[:len(roles)]:
        d = default_exprs(fd).get(name)
        mut = creates_mutable(d) if d is not None else None
        if d is not None and mut is False:
            # e.g. `vseq=None`: the raw argument is returned only where the path excludes the default
            if isinstance(d, ast.Constant) and d.value is None and (is_(val, NONE), False) in o.lits:
                return "caller", "argument `%s`, on the path where the caller supplied it (default None excluded by the guard)" % name
            return "unknown", "argument `%s` (default %s) returned without a guard that excludes the default" % (name, canon(d))
        if mut is not True:
            return "unknown", "argument `%s`%s" % (name, " (default %s)" % canon(d)[:40] if d is not None else " (no default)")
        what = "the default-argument object of parameter `%s` (= %s, evaluated once when the method is defined)" % (name, canon(d))
        # who relies on the default: the field wrapper Sequence.F._from_bytes
        wci, wfd = need(repo, "Sequence.F", "_from_bytes")
        _, wouts = walk_method(wfd, ["self", "vals", "data"])
        sites = [c for w in wouts for c in w.all_calls() if c[0] == "mcall" and c[1] == fd.name and c[2] == V("self.s")]
        if not sites:
            return "unknown", what + "; no call from Sequence.F._from_bytes found"
        posidx = params(fd).index(name) - 1 if name in params(fd) else None
        for c in sites:
            pos = [x for x in c[3:] if x[0] not in ("kw", "star")]
            if any(x[0] == "star" or (x[0] == "kw" and x[1] in (None, name)) for x in c[3:]) or \
                    (posidx is not None and len(pos) > posidx):
                return "unknown", what + "; Sequence.F._from_bytes passes its own object for it"
        what += "; Sequence.F._from_bytes calls %s(data) without that argument" % fd.name
    elif "." not in name:
        r = repo.lookup(ci.mod, name)
        if r is None or r[0] != "const" or creates_mutable(r[1]) is not True:
            return "unknown", "name `%s`" % name
        other = mentions_elsewhere(repo, fd, name)
        if len(other) != 1:
            return "unknown", "module-level object `%s`, also used at %s" % (name, other[:4])
        what = "the module-level object `%s` (= %s, created once at import, used nowhere else)" % (name, canon(r[1]))
    elif name.startswith("self.") and name.count(".") == 1:
        attr = name[5:]
        c, v = repo.find_attr(ci, attr)
        if v is None or creates_mutable(v) is not True:
            return "unknown", "attribute `%s`" % name
        other = mentions_elsewhere(repo, fd, attr)
        if len(other) != 1:
            return "unknown", "class attribute `%s.%s`, also used at %s" % (c.name, attr, other[:4])
        what = "the class attribute `%s.%s` (= %s, one object shared by all instances, assigned nowhere else)" % (c.name, attr, canon(v))
    else:
        return "unknown", "object `%s`" % name
    # one long-lived object: stale content is certain only if this call never re-creates / empties / tests it and
    # does nothing but grow it
    if guards:
        return "unknown", what + ", returned under the test %s" % guards[:2]
    if writes or not meths or any(m not in GROWERS for m in meths):
        return "unknown", what + ", used through %s" % (meths + writes)[:4]
    return "stale", what + "; every call only does %s on it" % "/".join(meths)


def r6_ownership(L, repo, R="C16.R6", key=R6_KEY):
    """R6 result ownership.  Clause decided: "decoding the encoding of in-range values returns those values" for
    EVERY decode of a definition with a sequence, not only the first one in a process (C17.R5 uses the same
    function for "a version-2 PDU with any number of batched sub-PDUs round-trips with every sub-PDU intact").
    Necessary condition: the list Sequence.from_bytes fills and returns is an object created by that call (or
    handed in by the caller of that call).  If it is one object that outlives the call - the default-argument
    object of a parameter the callers omit, a class attribute or a module-level object, never re-created or
    emptied - and each call only appends to it, the second decode also returns the items of the first one:
    decode(encode(v)) != v.  The object is identified through the walker's environment (aliases, temporaries and
    statement order do not matter), its origin is resolved on the definitions (default expression, class body,
    module level, all mentions in the toolkit).  Anything that cannot be resolved this far is no verdict."""
    roles = ["self", "data"]
    ci, fd = need(repo, "Sequence", "from_bytes")
    fn = "Sequence.from_bytes"
    L.fn(F, fn)
    sx, outs = walk_method(fd, roles)
    n = 0
    for o in outs:
        if o.kind != "ret":
            continue
        kind, text = seq_owner(repo, ci, fd, o, roles)
        if kind == "unknown":
            raise AnalysisError("Sequence.from_bytes: ownership of the returned list unclassifiable: %s" % text[:200])
        n += 1
        L.ob(R, F, fn, key, "a list created during the call (or passed in by the caller of this call)", text,
             kind in ("fresh", "caller"), o.node.lineno if o.node is not None else fd.lineno)
    L.floor(R, "return paths of Sequence.from_bytes", n, 1)


# ====================================================================== R9 (state kept between messages)
#
# A protocol definition is built once (class-level STRUCT tuples of field objects) and every message of a process is
# encoded / decoded through the same objects; the items of one sequence go through one item definition.  The
# round-trip and length-exactness clauses therefore hold for all messages only if what a definition object does
# with a message does not depend on the messages it processed before.  The witness group `w_reuse` decides that by
# evaluation on message sequences.  The rule below decides it on the code: which methods that process a message
# leave something on the definition object, and whether a later call can read it back.

R9_CONSTRUCTION = ("__init__", "__new__", "__init_subclass__", "__set_name__", "__class_getitem__", "__post_init__")
R9_VALUE_STATE = {"Envelope": ("c",)}      # the documented value dictionary: input of to_bytes(), output of from_bytes()
R9_MUTATORS = {"append", "extend", "insert", "remove", "pop", "popitem", "clear", "sort", "reverse", "update", "setdefault", "add",
               "discard", "appendleft", "popleft", "move_to_end", "__setitem__", "__delitem__"}
R9_EVALUATED = ("Codec", "Field", "Buf", "Spare", "Uint", "BitFieldSet", "BitField", "BitField.Spare", "Envelope", "Envelope.F",
                "Sequence", "Sequence.F")      # classes whose objects the message-sequence witnesses (w_reuse) use repeatedly
R9_NONNULL_CALLS = ("bytes", "bytearray", "int", "len", "tuple", "list", "dict", "str", "bool", "float", "frozenset", "set", "sum", "abs")
_R9_UNSET = object()
R9_KEY = ("what the method does with a message does not depend on earlier messages: no attribute of the definition object that one call "
          "stores from the message is handed out by a later call without being recomputed or compared with what it depends on "
          "(the value dictionary `c` of an envelope excepted)")


class _AV:
    """abstract value: pt - depends on the message of THIS call (a parameter); sd - attributes of self read before this
    call stored them (what an earlier call left there); unk - depends on something the rule does not follow; alias -
    the value IS the kept attribute"""
    __slots__ = ("pt", "sd", "unk", "alias")

    def __init__(self, pt=False, sd=frozenset(), unk=False, alias=None):
        self.pt, self.sd, self.unk, self.alias = pt, frozenset(sd), unk, alias

    def join(self, o):
        return _AV(self.pt or o.pt, self.sd | o.sd, self.unk or o.unk)


def _r9_classes(mod):
    out = []

    def rec(ci, q):
        out.append((q, ci))
        for n, c in ci.inner.items():
            rec(c, q + "." + n)
    for n, ci in mod.classes.items():
        rec(ci, n)
    return out


def _r9_self(fd):
    """name of the instance parameter of a method (None: static / class method, no parameters)"""
    for d in fd.decorator_list:
        if canon(d) in ("staticmethod", "classmethod"):
            return None
    a = list(getattr(fd.args, "posonlyargs", [])) + list(fd.args.args)
    return a[0].arg if a else None


def _r9_enclosing(node, stop):
    """innermost enclosing function / lambda of a node below `stop` (None: directly in `stop`)"""
    cur = getattr(node, "_parent", None)
    while cur is not None and cur is not stop:
        if isinstance(cur, (ast.FunctionDef, ast.AsyncFunctionDef, ast.Lambda)):
            return cur
        cur = getattr(cur, "_parent", None)
    return None


def _r9_stmt(node, fd):
    cur = node
    while cur is not None and cur is not fd:
        if isinstance(cur, ast.stmt):
            return cur
        cur = getattr(cur, "_parent", None)
    return None


def _r9_root_attr(e, selfname):
    """the attribute A when e is reached from `self.A` through subscripts / attributes (self.A, self.A[k], self.A.x[k])"""
    cur = e
    while isinstance(cur, (ast.Subscript, ast.Attribute)):
        if isinstance(cur, ast.Attribute) and isinstance(cur.value, ast.Name) and cur.value.id == selfname:
            return cur.attr
        cur = cur.value
    return None


def _r9_locals(fd):
    names = set()
    a = fd.args
    for p in list(getattr(a, "posonlyargs", [])) + list(a.args) + list(a.kwonlyargs) + [x for x in (a.vararg, a.kwarg) if x is not None]:
        names.add(p.arg)
    for n in ast.walk(fd):
        if isinstance(n, ast.Name) and isinstance(n.ctx, (ast.Store, ast.Del)):
            names.add(n.id)
        elif isinstance(n, (ast.FunctionDef, ast.ClassDef)) and n is not fd:
            names.add(n.name)
        elif isinstance(n, ast.ExceptHandler) and n.name:
            names.add(n.name)
        elif isinstance(n, ast.arg):
            names.add(n.arg)
        elif isinstance(n, (ast.Import, ast.ImportFrom)):
            for al in n.names:
                names.add((al.asname or al.name).split(".")[0])
    return names


class _R9Method:
    def __init__(self, qual, ci, fd):
        self.qual, self.ci, self.fd = qual, ci, fd
        self.name = "%s.%s" % (qual, fd.name)
        self.selfname = _r9_self(fd)
        self.per_message = True
        self.plain = []        # (attr, stmt, value expr | None, is augmented, deferred)
        self.other = []        # (attr | None, text) - state written in a way the rule does not follow
        self.refs = set()      # attribute names referenced (any receiver): call graph by name
        self.deferred_refs = set()


def _r9_scan(mt):
    """state a method writes on the definition object (or anywhere else that outlives the call)"""
    fd, sn = mt.fd, mt.selfname
    loc = _r9_locals(fd)
    aliases = {}
    for n in ast.walk(fd):
        if isinstance(n, ast.Assign) and len(n.targets) == 1 and isinstance(n.targets[0], ast.Name) and sn is not None:
            v = n.value
            if isinstance(v, ast.Attribute) and isinstance(v.value, ast.Name) and v.value.id == sn:
                aliases[n.targets[0].id] = v.attr
    for n in ast.walk(fd):
        deferred = _r9_enclosing(n, fd) is not None
        if isinstance(n, ast.Attribute) and isinstance(n.ctx, ast.Load):
            (mt.deferred_refs if deferred else mt.refs).add(n.attr)
        if isinstance(n, ast.Global) or isinstance(n, ast.Nonlocal):
            mt.other.append((None, "`%s`" % canon(n), deferred))
        if isinstance(n, ast.Attribute) and isinstance(n.ctx, (ast.Store, ast.Del)):
            st = _r9_stmt(n, fd)
            if sn is not None and isinstance(n.value, ast.Name) and n.value.id == sn:
                val, aug = None, False
                if isinstance(st, ast.Assign) and any(t is n for t in st.targets):
                    val = st.value
                elif isinstance(st, ast.AnnAssign) and st.target is n:
                    val = st.value
                elif isinstance(st, ast.AugAssign) and st.target is n:
                    val, aug = st.value, True
                elif isinstance(st, ast.Delete):
                    val = None
                else:
                    mt.other.append((n.attr, "`%s` bound by `%s`" % (canon(n), canon(st).split("\n")[0][:60]), deferred))
                    continue
                mt.plain.append((n.attr, st, val, aug, deferred))
            else:
                root = _r9_root_attr(n.value, sn) if sn is not None else None
                base = n.value
                while isinstance(base, (ast.Subscript, ast.Attribute)):
                    base = base.value
                if root is None and isinstance(base, ast.Name) and base.id in aliases:
                    root = aliases[base.id]
                if root is None and isinstance(base, ast.Name) and base.id != sn and any(isinstance(p, ast.arg) and p.arg == base.id for p in ast.walk(fd.args)):
                    continue        # attribute of a parameter: the message / the caller's object
                mt.other.append((root, "attribute store `%s = ...`%s" % (canon(n), " on an object kept in `self.%s`" % root if root else
                                                                          " on an object that outlives the call"), deferred))
        elif isinstance(n, ast.Subscript) and isinstance(n.ctx, (ast.Store, ast.Del)):
            root = _r9_root_attr(n.value, sn) if sn is not None else None
            base = n.value
            while isinstance(base, (ast.Subscript, ast.Attribute)):
                base = base.value
            if root is None and isinstance(base, ast.Name) and base.id in aliases:
                root = aliases[base.id]
            if root is not None:
                mt.other.append((root, "`%s[...]` changed in place" % canon(n.value), deferred))
            elif isinstance(base, ast.Name) and base.id not in loc:
                mt.other.append((None, "module-level / class-level object `%s` changed in place" % base.id, deferred))
            elif isinstance(base, ast.Call) and canon(base.func) == "vars":
                mt.other.append((None, "`%s` changed in place" % canon(n.value), deferred))
        elif isinstance(n, ast.Call):
            fn = canon(n.func)
            if fn in ("setattr", "delattr", "object.__setattr__", "object.__delattr__") or fn.endswith((".__setattr__", ".__delattr__")):
                a1 = n.args[1] if fn in ("setattr", "delattr", "object.__setattr__", "object.__delattr__") and len(n.args) > 1 else \
                    (n.args[0] if n.args else None)
                mt.other.append((a1.value if isinstance(a1, ast.Constant) and isinstance(a1.value, str) else None, "`%s`" % canon(n)[:70], deferred))
            elif isinstance(n.func, ast.Attribute) and n.func.attr in R9_MUTATORS:
                recv = n.func.value
                root = _r9_root_attr(recv, sn) if sn is not None else None
                base = recv
                while isinstance(base, (ast.Subscript, ast.Attribute)):
                    base = base.value
                if root is None and isinstance(base, ast.Name) and base.id in aliases:
                    root = aliases[base.id]
                if root is not None:
                    mt.other.append((root, "`%s.%s(...)` changes the object kept in `self.%s` in place" % (canon(recv), n.func.attr, root), deferred))
                elif isinstance(base, ast.Name) and base.id not in loc and base.id != sn:
                    mt.other.append((None, "module-level / class-level object `%s` changed in place by .%s()" % (base.id, n.func.attr), deferred))
        if sn is not None and isinstance(n, ast.Attribute) and n.attr == "__dict__" and isinstance(n.value, ast.Name) and n.value.id == sn:
            mt.other.append((None, "`self.__dict__` used", deferred))


def _r9_value_state(repo, ci):
    out = set()
    for c in repo.mro(ci):
        out |= set(R9_VALUE_STATE.get(c.name, ()))
    return out


def _r9_nonnull(e):
    """True when evaluating e cannot yield None (arithmetic, displays, constants, conversions)"""
    if isinstance(e, ast.Constant):
        return e.value is not None
    if isinstance(e, (ast.BinOp, ast.Tuple, ast.List, ast.Dict, ast.Set, ast.JoinedStr, ast.ListComp, ast.DictComp, ast.SetComp, ast.Compare)):
        return True
    if isinstance(e, ast.UnaryOp):
        return True
    if isinstance(e, ast.IfExp):
        return _r9_nonnull(e.body) and _r9_nonnull(e.orelse)
    if isinstance(e, ast.Call) and isinstance(e.func, ast.Name) and e.func.id in R9_NONNULL_CALLS:
        return True
    return False


class _R9Walk:
    """abstract evaluation of one method along one path of its CFG"""

    def __init__(self, mt, state_attrs, touching, params_):
        self.mt, self.S, self.touching, self.params = mt, state_attrs, touching, params_

    def av(self, e, env, fresh, bound=()):
        sn = self.mt.selfname
        if e is None:
            return _AV()
        if isinstance(e, ast.Name):
            if e.id == sn or e.id in bound:
                return _AV()
            if e.id in env:
                return env[e.id]
            if e.id in self.params:
                return _AV(pt=True)
            return _AV()
        if isinstance(e, ast.Attribute) and isinstance(e.value, ast.Name) and e.value.id == sn:
            if e.attr in fresh:
                f = fresh[e.attr]
                return _AV(f.pt, f.sd, f.unk)
            if e.attr in self.S:
                return _AV(sd={e.attr}, alias=e.attr)
            if e.attr in self.touching:
                return _AV(unk=True)
            return _AV()
        if isinstance(e, (ast.Lambda, ast.FunctionDef)):
            return _AV(unk=True)
        if isinstance(e, (ast.ListComp, ast.SetComp, ast.GeneratorExp, ast.DictComp)):
            out = _AV()
            b = set(bound)
            for g in e.generators:
                out = out.join(self.av(g.iter, env, fresh, b))
                b |= {x.id for x in ast.walk(g.target) if isinstance(x, ast.Name)}
                for c in g.ifs:
                    out = out.join(self.av(c, env, fresh, b))
            # comprehension variables range over the iterable: what they carry is what the iterable carries
            for part in ([e.key, e.value] if isinstance(e, ast.DictComp) else [e.elt]):
                out = out.join(self.av(part, env, fresh, b))
            return out
        if isinstance(e, ast.Call):
            fn = canon(e.func)
            if fn in ("hasattr", "getattr") and len(e.args) >= 2 and isinstance(e.args[0], ast.Name) and e.args[0].id == sn:
                a = e.args[1]
                if isinstance(a, ast.Constant) and isinstance(a.value, str):
                    if a.value in fresh:
                        return _AV(fresh[a.value].pt, fresh[a.value].sd, fresh[a.value].unk)
                    out = _AV(sd={a.value}) if a.value in self.S else _AV()
                else:
                    out = _AV(unk=True)
                for x in e.args[2:]:
                    out = out.join(self.av(x, env, fresh, bound))
                return out
        out = _AV()
        for c in ast.iter_child_nodes(e):
            if isinstance(c, (ast.expr_context, ast.operator, ast.unaryop, ast.cmpop, ast.boolop)):
                continue
            if isinstance(c, ast.keyword):
                c = c.value
            out = out.join(self.av(c, env, fresh, bound))
        return out

    def tri(self, test, env, fresh, attr, nonnull, const=_R9_UNSET):
        """three-valued truth of a guard when `self.attr` holds: a value that is not None (nonnull) / the constant
        `const` (the initial value); None: not decided"""
        sn = self.mt.selfname

        def is_ref(x):
            if isinstance(x, ast.Attribute) and isinstance(x.value, ast.Name) and x.value.id == sn and x.attr == attr and attr not in fresh:
                return True
            return isinstance(x, ast.Name) and x.id in env and env[x.id].alias == attr

        if isinstance(test, ast.BoolOp):
            vals = [self.tri(v, env, fresh, attr, nonnull, const) for v in test.values]
            if isinstance(test.op, ast.And):
                return False if any(v is False for v in vals) else True if all(v is True for v in vals) else None
            return True if any(v is True for v in vals) else False if all(v is False for v in vals) else None
        if isinstance(test, ast.UnaryOp) and isinstance(test.op, ast.Not):
            v = self.tri(test.operand, env, fresh, attr, nonnull, const)
            return None if v is None else not v
        if isinstance(test, ast.Compare) and len(test.ops) == 1:
            a, b, op = test.left, test.comparators[0], test.ops[0]
            if is_ref(b) and not is_ref(a):
                a, b = b, a
            if is_ref(a) and isinstance(b, ast.Constant) and b.value is None and isinstance(op, (ast.Is, ast.IsNot, ast.Eq, ast.NotEq)):
                if const is not _R9_UNSET:
                    isnone = const is None
                elif nonnull:
                    isnone = False
                else:
                    return None
                return isnone if isinstance(op, (ast.Is, ast.Eq)) else not isnone
            return None
        if isinstance(test, ast.Call) and canon(test.func) == "hasattr" and len(test.args) == 2 and isinstance(test.args[0], ast.Name) \
                and test.args[0].id == sn and isinstance(test.args[1], ast.Constant) and test.args[1].value == attr and attr not in fresh:
            return True
        if is_ref(test) and const is not _R9_UNSET and isinstance(const, (type(None), bool, int, bytes, str, tuple)):
            return bool(const)
        return None

    def paths(self, cfg, limit=400):
        """loop-free paths entry -> normal exit as lists of (node, label taken)"""
        out, n = [], [0]

        def rec(node, acc, seen):
            if n[0] > limit:
                return
            if node is cfg.exit:
                n[0] += 1
                out.append(list(acc))
                return
            if node is cfg.rexit or node.id in seen:
                return
            if node.kind in ("loop", "handler") or (node.kind == "cond" and isinstance(node.ast, ast.While)):
                return
            for (s, l) in node.succ:
                if l == "exc":
                    continue
                acc.append((node, l))
                rec(s, acc, seen | {node.id})
                acc.pop()
        rec(cfg.entry, [], frozenset())
        return out if n[0] <= limit else []

    def run_path(self, path, attr):
        """-> (conds [(test, label, AV, env, fresh)], outputs [(AV, text)], first store of attr passed or None, clean)"""
        sn = self.mt.selfname
        env, fresh, exprs = {}, {}, {}
        conds, outs, stores = [], [], []
        clean = True
        for node, label in path:
            st = node.ast
            if node.kind == "entry" or st is None:
                continue
            if node.kind == "cond":
                conds.append((st.test, label, self.av(st.test, env, fresh), dict(env), dict(fresh)))
                continue
            if node.kind == "with":
                for it in st.items:
                    v = self.av(it.context_expr, env, fresh)
                    if it.optional_vars is not None:
                        for x in ast.walk(it.optional_vars):
                            if isinstance(x, ast.Name):
                                env[x.id] = _AV(v.pt, v.sd, v.unk)
                continue
            if isinstance(st, (ast.FunctionDef, ast.AsyncFunctionDef, ast.ClassDef)):
                env[st.name] = _AV(unk=True)
                continue
            if isinstance(st, ast.Return):
                outs.append((self.av(st.value, env, fresh), "return %s" % (canon(st.value) if st.value is not None else "None")))
                continue
            if isinstance(st, ast.Assert):
                v = self.av(st.test, env, fresh)
                if v.sd or v.unk:
                    clean = False
                continue
            if isinstance(st, (ast.Assign, ast.AnnAssign, ast.AugAssign)):
                value = st.value
                v = self.av(value, env, fresh)
                # the expression a plain local stands for on this path (temporaries are looked through)
                resolved = exprs.get(value.id, value) if isinstance(value, ast.Name) else value
                targets = st.targets if isinstance(st, ast.Assign) else [st.target]
                for t in targets:
                    if isinstance(t, ast.Name):
                        if isinstance(st, ast.AugAssign):
                            env[t.id] = self.av(t, env, fresh).join(v)
                            exprs.pop(t.id, None)
                        else:
                            env[t.id] = v if len(targets) == 1 else _AV(v.pt, v.sd, v.unk)
                            if resolved is not None:
                                exprs[t.id] = resolved
                    elif isinstance(t, ast.Attribute) and isinstance(t.value, ast.Name) and t.value.id == sn:
                        if isinstance(st, ast.AugAssign):
                            old = self.av(ast.Attribute(value=t.value, attr=t.attr, ctx=ast.Load()), env, fresh)
                            v2 = old.join(v)
                        else:
                            v2 = _AV(v.pt, v.sd, v.unk)
                        if t.attr == attr:
                            stores.append((st, v2, None if isinstance(st, ast.AugAssign) else resolved))
                        fresh[t.attr] = v2
                    elif isinstance(t, (ast.Tuple, ast.List, ast.Starred)):
                        for x in ast.walk(t):
                            if isinstance(x, ast.Name) and isinstance(x.ctx, ast.Store):
                                env[x.id] = _AV(v.pt, v.sd, v.unk)
                            elif isinstance(x, ast.Attribute) and isinstance(x.ctx, ast.Store):
                                clean = False
                    elif isinstance(t, ast.Subscript):
                        base = t.value
                        while isinstance(base, (ast.Subscript, ast.Attribute)):
                            base = base.value
                        if isinstance(base, ast.Name) and base.id in self.params and base.id != sn:
                            outs.append((v.join(self.av(t.slice, env, fresh)), "%s = %s" % (canon(t), canon(value))))
                        elif isinstance(base, ast.Name) and base.id in env:
                            env[base.id] = env[base.id].join(v)
                    else:
                        clean = False
                continue
            if isinstance(st, ast.Delete):
                for t in st.targets:
                    if isinstance(t, ast.Attribute) and isinstance(t.value, ast.Name) and t.value.id == sn:
                        clean = False
                continue
            if isinstance(st, ast.Expr):
                v = self.av(st.value, env, fresh)
                if v.unk:
                    clean = False
                continue
            if isinstance(st, (ast.Pass, ast.Import, ast.ImportFrom, ast.Raise, ast.Break, ast.Continue)):
                continue
            clean = False
        return conds, outs, stores, clean


def _r9_prove(mt, cfg, walk, attr, init_const):
    """a pair of calls of `mt` that proves the kept attribute wrong: the first stores into self.attr a value that depends
    on its message, the second returns what it finds there without looking at its own message.  -> text | None"""
    paths = walk.paths(cfg)
    first = None
    for p in paths:
        conds, outs, stores, clean = walk.run_path(p, attr)
        if not clean or not stores:
            continue
        st, v, sexpr = stores[-1]
        if not v.pt or v.unk or v.sd or sexpr is None or not _r9_nonnull(sexpr):
            continue
        ok = True
        for test, label, cv, env, fresh in conds:
            if cv.unk:
                ok = False
            elif cv.sd:
                if cv.sd != {attr} or cv.pt or walk.tri(test, env, fresh, attr, False, init_const) is not label:
                    ok = False
            elif not cv.pt:
                ok = False      # a condition on the definition alone: which definitions take the path is not followed
        if ok and (first is None or len(p) < len(first[0])):
            first = (p, st, conds, sexpr)
    if first is None:
        return None
    for p in paths:
        conds, outs, stores, clean = walk.run_path(p, attr)
        if not clean or stores or not conds:
            continue
        if not any(o.sd == {attr} and not o.pt and not o.unk for o, _t in outs) or any(o.pt or o.unk or (o.sd - {attr}) for o, _t in outs):
            continue
        ok = True
        for test, label, cv, env, fresh in conds:
            if cv.unk or cv.pt or cv.sd != {attr} or walk.tri(test, env, fresh, attr, True) is not label:
                ok = False
        if not ok:
            continue
        st = first[1]
        guard1 = " and ".join(("%s" if l else "not (%s)") % canon(t) for t, l, _c, _e, _f in first[2]) or "always"
        guard2 = " and ".join(("%s" if l else "not (%s)") % canon(t) for t, l, _c, _e, _f in conds)
        out = [t for o, t in outs if o.sd == {attr}][0]
        return ("`%s = %s` (a value that depends on the message: %s; stored when %s) is kept on the definition object; the next call, when %s, does `%s` "
                "without recomputing it or comparing it with its own message" % (canon(st.targets[0] if isinstance(st, ast.Assign) else st.target),
                                                                                 canon(first[3]), ", ".join(sorted(
                    {x.id for x in ast.walk(first[3]) if isinstance(x, ast.Name) and x.id in walk.params})), guard1, guard2, out)), st
    return None


def r9_state(L, repo, verdict):
    """C16.R9 (static part).  Clause decided: "decoding the encoding of in-range values returns those values,
    re-encoding a decoded message reproduces the canonical octets, and decoding consumes exactly the octets the
    definition declares" - for every message a definition processes, not only the first one.  Definitions are
    built once and used for all messages, so this needs: what a method that processes a message (everything but the
    constructors and what only they call) stores on the definition object from the message is never handed out by a
    later call that does not look at its own message.  Decided on resolved facts: the call graph of the class
    hierarchy (which methods run per message), store sites of attributes of self (assignment, augmented
    assignment, setattr, in-place changes of containers kept in attributes, module/class-level objects), reads
    that a store of the same call does not dominate (CFG reachability avoiding the store nodes), an abstract
    evaluation of each loop-free path (does a value depend on this call's parameters / on kept attributes), and a
    three-valued evaluation of the guards under the state the first call leaves.
      - no attribute stored per message is read before it is rewritten: the method keeps no state (holds);
      - a first call stores a message-dependent, non-None value and a second call returns the attribute on a path
        whose guards are all decided by the attribute itself (`is None` ...) and whose result mentions no parameter:
        the second message gets the first message's octets - VIOLATION, with the store and the read;
      - anything else (keyed memo, counters, containers, helpers): not decided here - the message-sequence
        witnesses (w_reuse) decide it; if they could not be evaluated, or the class is not among the evaluated
        ones, there is no verdict."""
    R = "C16.R9"
    V = verdict[0] if isinstance(verdict[0], Verdict) else None
    mod = repo.mod("codec")
    from pyfront import CFG
    classes = _r9_classes(mod)
    methods = []
    for q, ci in classes:
        for fd in ci.methods.values():
            methods.append(_R9Method(q, ci, fd))
    for mt in methods:
        _r9_scan(mt)
    # which methods run per message: everything except constructors and what only constructors reach (by name)
    cons = {mt.fd.name for mt in methods if mt.fd.name in R9_CONSTRUCTION}
    changed = True
    while changed:
        changed = False
        for name in {mt.fd.name for mt in methods} - cons:
            users = [m2 for m2 in methods if name in m2.refs and m2.fd.name != name]
            deferred_users = [m2 for m2 in methods if name in m2.deferred_refs]
            if users and not deferred_users and all(m2.fd.name in cons for m2 in users):
                cons.add(name)
                changed = True
    for mt in methods:
        mt.per_message = mt.fd.name not in cons
    related = lambda a, b: a is b or a in repo.mro(b) or b in repo.mro(a)
    n = 0
    undecided = []         # (method, attr | None, text, line)
    for mt in methods:
        # callbacks defined inside constructors (lambdas / nested functions) run per message as well
        scope = [mt] if mt.per_message else []
        exempt = _r9_value_state(repo, mt.ci)
        L.fn(F, mt.name)
        if mt.selfname is None:
            continue
        plain = [p for p in mt.plain if p[0] not in exempt and (mt.per_message or p[4])]
        other = [o for o in mt.other if (o[0] not in exempt or o[0] is None) and (mt.per_message or o[2])]
        if not mt.per_message and not plain and not other:
            continue
        n += 1
        found = []
        bad = []
        for a_, text, _d in other:
            undecided.append((mt, a_, text, mt.fd.lineno))
            found.append(text)
        for attr in sorted({p[0] for p in plain}):
            stores = [p for p in plain if p[0] == attr]
            fam = [m2 for m2 in methods if related(m2.ci, mt.ci) and m2.selfname is not None]
            if any(p[4] for p in stores):
                undecided.append((mt, attr, "`self.%s` stored inside a nested function / lambda" % attr, stores[0][1].lineno))
                found.append("self.%s stored in a nested function" % attr)
                continue
            # reads of the attribute a store of the same call does not come before
            stale = []
            for m2 in fam:
                sn2 = m2.selfname
                loads = [x for x in ast.walk(m2.fd) if isinstance(x, ast.Attribute) and x.attr == attr and isinstance(x.value, ast.Name)
                         and x.value.id == sn2 and (isinstance(x.ctx, ast.Load) or isinstance(getattr(x, "_parent", None), ast.AugAssign))]
                loads += [x for x in ast.walk(m2.fd) if isinstance(x, ast.Call) and canon(x.func) in ("getattr", "hasattr") and len(x.args) >= 2
                          and isinstance(x.args[1], ast.Constant) and x.args[1].value == attr]
                if not loads:
                    continue
                if not m2.per_message:
                    loads = [x for x in loads if _r9_enclosing(x, m2.fd) is not None]
                    if not loads:
                        continue
                cfg2 = CFG(m2.fd)
                kill = []
                for p in m2.plain:
                    if p[0] == attr and not p[4] and p[2] is not None:
                        kn = cfg2.node_of(p[1])
                        if not any(l == "exc" for _s, l in kn.succ):
                            kill.append(kn)
                for x in loads:
                    if _r9_enclosing(x, m2.fd) is not None:
                        stale.append((m2, x, True))
                        continue
                    xn = cfg2.node_of(x)
                    if xn.id in cfg2.reach(cfg2.entry, skip_nodes=[k for k in kill if k.id != xn.id], labels_skip=()):
                        stale.append((m2, x, False))
            if not stale:
                found.append("self.%s: rewritten by every call before it is read" % attr)
                continue
            # a proof that the pair is wrong: all stores and stale reads in this one method, no caller stores it
            text = None
            storers = {m2.name for m2 in fam if any(p[0] == attr for p in m2.plain) or any(o[0] == attr for o in m2.other)}
            callers, work = set(), [mt.fd.name]
            while work:
                nm = work.pop()
                for m2 in methods:
                    if (nm in m2.refs or nm in m2.deferred_refs) and m2.name not in callers:
                        callers.add(m2.name)
                        work.append(m2.fd.name)
            if storers == {mt.name} and all(m2 is mt and not d for m2, _x, d in stale) and not (callers & storers - {mt.name}) \
                    and not any(o[0] is None for o in mt.other):
                S = {p[0] for m2 in fam for p in m2.plain if m2.per_message or p[4]} | \
                    {o[0] for m2 in fam for o in m2.other if o[0] and (m2.per_message or o[2])}
                touching = {m2.fd.name for m2 in fam if m2.per_message and (m2.plain or m2.other or any(
                    isinstance(x, ast.Attribute) and x.attr in S and isinstance(x.value, ast.Name) and x.value.id == m2.selfname for x in ast.walk(m2.fd)))}
                pnames = {p.arg for p in ast.walk(mt.fd.args) if isinstance(p, ast.arg)} - {mt.selfname}
                walk = _R9Walk(mt, S, touching - {mt.fd.name}, pnames)
                init = _R9_UNSET
                c_, v_ = repo.find_attr(mt.ci, attr)
                if v_ is not None and isinstance(v_, ast.Constant):
                    init = v_.value
                ctor_sets = [p for m2 in fam if not m2.per_message for p in m2.plain if p[0] == attr]
                if ctor_sets:
                    init = ctor_sets[0][2].value if len(ctor_sets) == 1 and isinstance(ctor_sets[0][2], ast.Constant) else _R9_UNSET
                if init is not _R9_UNSET:
                    text = _r9_prove(mt, CFG(mt.fd), walk, attr, init)
            if text is not None:
                bad.append((attr, text[0], text[1].lineno))
                found.append("self.%s: kept from one message to the next, not keyed" % attr)
            else:
                m2, x, _d = stale[0]
                undecided.append((mt, attr, "`self.%s` stored by %s is read by a later call of %s (`%s`)" % (
                    attr, mt.name, m2.name, canon(_r9_stmt(x, m2.fd) or x).split("\n")[0][:70]), stores[0][1].lineno))
                found.append("self.%s: kept from one message to the next" % attr)
        L.ob(R, F, mt.name, R9_KEY, "nothing kept, or every kept value keyed by what it depends on",
             "nothing kept" if not found else "; ".join(found), not bad, mt.fd.lineno)
        for attr, text, line in bad:
            L.ob(R, F, mt.name, "`self.%s`: a value computed from one message is not handed out for the next message as it is" % attr,
                 "recomputed for every message, or compared with the values it was computed from before it is used again", text, False, line)
    L.floor(R, "methods that process messages examined for state kept on the definition object", n, 25)
    # what the code analysis leaves open is decided by the message-sequence witnesses
    if undecided:
        r9 = [f for f in (V.fams if V is not None else []) if f.rule == R]
        failed = [f for f in r9 if f.bad is not None]
        open_ = V is None or V.error or not r9 or any(f.unknown is not None and f.bad is None for f in r9)
        for mt, attr, text, line in undecided:
            key = "state kept between messages (%s): each message is still processed as by a newly built definition" % (
                "`self.%s`" % attr if attr else text[:80])
            if failed:
                L.ob(R, F, mt.name, key, "decided by message sequences through one definition object: no counterexample",
                     "%s; the message-sequence witnesses exhibit a counterexample" % text, False, line)
            elif open_:
                L.deficits.append("r9_state: %s: %s - not decidable on the code, and the message-sequence witnesses could not be evaluated (%s)" % (
                    mt.name, text, _short_txt(V.unknown_text() if V is not None else "witness evaluation failed", 200)))
            elif mt.qual not in R9_EVALUATED:
                L.deficits.append("r9_state: %s: %s - not decidable on the code, and no message-sequence witness uses objects of class %s" % (
                    mt.name, text, mt.qual))
            else:
                L.ob(R, F, mt.name, key, "decided by message sequences through one definition object: no counterexample",
                     "decided by message sequences through one definition object: no counterexample", True, line,
                     note="%s; %d evaluations of message sequences agree with the reference" % (text, sum(f.n for f in r9)))
                L.extra.setdefault("notes", []).append("r9_state: %s: %s; decided by the message-sequence witnesses" % (mt.name, text))
    return n


# ============================================================ concrete evaluator
#
# `Mach` is the checker's own evaluator for the Python subset the toolkit's declarative modules are written
# in (classes, closures, lambdas, comprehensions, try/except, while/for, super(), properties, f-strings,
# struct, enum tables).  It works on the parsed source (`ast`) only - nothing of the repository is
# imported, compiled or executed by the host interpreter - and is used to FOLD the code under analysis over
# finite witness domains: a law is decided by evaluating both sides on boundary witnesses instead of by
# matching the shape of the statements that implement it.  Anything outside the vocabulary raises
# MachUnknown ("no verdict"), an evaluation that exceeds its step budget raises MachTimeout.

import operator as _op
import struct as _struct
import array as _array
import functools as _functools
import math as _math
import builtins as _builtins


class MachUnknown(Exception):
    """construct outside the evaluator's vocabulary"""


class MachTimeout(Exception):
    """step budget exhausted (the evaluated code does not terminate within the budget)"""


class PyRaise(Exception):
    """an exception raised by the evaluated code: .value is a PInst of an evaluated exception class or a host
    exception instance created by a modelled primitive (ValueError, OverflowError, KeyError, ...)"""

    def __init__(self, value, cause=None):
        Exception.__init__(self, value)
        self.value = value
        self.cause = cause

    @property
    def cls_name(self):
        v = self.value
        return v.cls.name if isinstance(v, PInst) else type(v).__name__


class PModule:
    def __init__(self, name, ns=None, opaque=False):
        self.name = name
        self.ns = ns if ns is not None else {}
        self.opaque = opaque
        self.poisoned = {}

    def __repr__(self):
        return "<module %s>" % self.name


class POpaque:
    """a value of an unmodelled library: may be stored and passed around, never inspected"""

    def __init__(self, text):
        self.text = text

    def __repr__(self):
        return "<opaque %s>" % self.text


class _EnumBase(object):
    """stands for enum.Enum"""


class PClass:
    def __init__(self, mach, name, bases, ns, qual=None):
        self.mach = mach
        self.name = name
        self.qual = qual or name
        self.bases = list(bases)
        self.ns = ns
        self.poisoned = {}
        self.enum_members = None
        self.modname = None
        self.mro = self._c3()

    def _c3(self):
        seqs = []
        for b in self.bases:
            seqs.append(list(b.mro) if isinstance(b, PClass) else [c for c in b.__mro__ if c is not object])
        seqs.append(list(self.bases))
        out = [self]
        seqs = [s for s in seqs if s]
        while seqs:
            for s in seqs:
                h = s[0]
                if not any(h in t[1:] for t in seqs):
                    break
            else:
                raise MachUnknown("inconsistent class hierarchy of %s" % self.name)
            out.append(h)
            seqs = [[x for x in s if x is not h] for s in seqs]
            seqs = [s for s in seqs if s]
        return out

    def find(self, name, after=None):
        """(owner, value) of a class-level name through the MRO (optionally only after class `after`)"""
        mro = self.mro
        if after is not None:
            mro = mro[mro.index(after) + 1:] if after in mro else []
        for c in mro:
            if isinstance(c, PClass):
                if name in c.ns:
                    return c, c.ns[name]
                if name in c.poisoned:
                    raise MachUnknown(c.poisoned[name])
            elif name in ("__init__", "__new__", "__str__", "__repr__"):
                return c, _HostSlot(c, name)
        return None, None

    def is_sub(self, other):
        return other in self.mro

    def __iter__(self):
        if self.enum_members is None:
            raise TypeError("'type' object is not iterable")
        return iter(list(self.enum_members))

    def __len__(self):
        if self.enum_members is None:
            raise TypeError("object of type 'type' has no len()")
        return len(self.enum_members)

    def __repr__(self):
        return "<class '%s'>" % self.qual


class _HostSlot:
    """__init__/__str__ of a host base class (object, Exception, ...) reached through an evaluated class"""

    def __init__(self, cls, name):
        self.cls, self.name = cls, name


class PInst:
    def __init__(self, cls):
        self.cls = cls
        self.attrs = {}

    def __repr__(self):
        if "args" in self.attrs and any(isinstance(c, type) and issubclass(c, BaseException) for c in self.cls.mro):
            return "%s%r" % (self.cls.name, tuple(self.attrs["args"]))
        if self.cls.enum_members is not None and "_name_" in self.attrs:
            return "%s.%s" % (self.cls.name, self.attrs["_name_"])
        return "<%s object>" % self.cls.qual

    def __str__(self):
        if "args" in self.attrs and any(isinstance(c, type) and issubclass(c, BaseException) for c in self.cls.mro):
            a = self.attrs["args"]
            return "" if not a else (str(a[0]) if len(a) == 1 else str(tuple(a)))
        return self.__repr__()


class PFunc:
    def __init__(self, mach, node, env, name, defaults, kwdefaults, mod):
        self.mach, self.node, self.env, self.name = mach, node, env, name
        self.defaults, self.kwdefaults = defaults, kwdefaults
        self.owner = None
        self.mod = mod
        self.is_lambda = isinstance(node, ast.Lambda)

    def __repr__(self):
        return "<function %s>" % self.name


def _memo_hash(v, depth=0):
    """what hashing an argument of a memoised call does: nothing for a hashable value, TypeError (ValueError for a
    writable memoryview) for an unhashable one; objects of evaluated classes hash by identity unless the class says otherwise"""
    if isinstance(v, PInst):
        for c in v.cls.mro:
            if isinstance(c, PClass) and "__hash__" in c.ns:
                if c.ns["__hash__"] is None:
                    raise PyRaise(TypeError("unhashable type: '%s'" % v.cls.name))
                raise MachUnknown("memoised call keyed by a %s object (its own __hash__)" % v.cls.name)
            if isinstance(c, PClass) and "__eq__" in c.ns:
                raise PyRaise(TypeError("unhashable type: '%s'" % v.cls.name))
        return
    if isinstance(v, _INTERP):
        return
    if isinstance(v, (tuple, frozenset)):
        if depth > 20:
            raise MachUnknown("deeply nested key of a memoised call")
        for x in v:
            _memo_hash(x, depth + 1)
        return
    try:
        hash(v)
    except (TypeError, ValueError) as e:
        raise PyRaise(e)


class _Memo:
    """functools.lru_cache / functools.cache around an evaluated function: a call hashes its arguments before the body runs
    (bytearray, list, dict, set: TypeError), equal arguments get the very object the first call returned, the least
    recently used entry goes beyond maxsize; a call that raises is not remembered"""
    KW = ("$kwd_mark",)

    def __init__(self, maxsize, typed):
        if not (maxsize is None or (isinstance(maxsize, int) and not isinstance(maxsize, bool))):
            raise MachUnknown("lru_cache(maxsize=%r)" % (maxsize,))
        self.maxsize, self.typed = (None if maxsize is None else max(maxsize, 0)), bool(typed)
        self.store = {}                 # least recently used first

    def call(self, mach, f, args, kw):
        if self.maxsize == 0:
            return mach.call_func_raw(f, args, kw)
        key = tuple(args)
        if kw:
            key += (_Memo.KW,) + tuple(x for it in kw.items() for x in it)
        for x in key:
            _memo_hash(x)
        if self.typed:
            key += tuple(type(x) for x in args) + tuple(type(x) for x in kw.values())
        if key in self.store:
            v = self.store.pop(key)
            self.store[key] = v
            return v
        v = mach.call_func_raw(f, args, kw)
        self.store[key] = v
        if self.maxsize is not None and len(self.store) > self.maxsize:
            del self.store[next(iter(self.store))]
        return v


class PBound:
    def __init__(self, func, obj):
        self.func, self.obj = func, obj

    def __repr__(self):
        return "<bound method %s of %r>" % (getattr(self.func, "name", self.func), self.obj)


class PStatic:
    def __init__(self, f):
        self.f = f


class PClassM:
    def __init__(self, f):
        self.f = f


class PProp:
    def __init__(self, fget, fset=None):
        self.fget, self.fset = fget, fset


class PSuper:
    def __init__(self, cls, obj):
        self.cls, self.obj = cls, obj

    def cls_of(self):
        o = self.obj
        if isinstance(o, PInst):
            return o.cls
        if isinstance(o, PClass):
            return o
        raise MachUnknown("super() on %r" % (o,))


class Env:
    __slots__ = ("vars", "parent", "is_class", "glob", "decl")

    def __init__(self, parent=None, is_class=False, glob=None):
        self.vars = {}
        self.parent = parent
        self.is_class = is_class
        self.glob = glob if glob is not None else (parent.glob if parent is not None else self)
        self.decl = None       # names declared global / nonlocal: name -> Env


_INTERP = (PInst, PClass, PFunc, PBound, PModule, POpaque, PSuper, PStatic, PClassM, PProp)
_HOST_VALUE_TYPES = (int, float, str, bytes, bytearray, tuple, list, dict, set, frozenset, range, slice, type(None),
                     _struct.Struct, _array.array, memoryview, BaseException, complex,
                     type({}.keys()), type({}.values()), type({}.items()))
_HOST_TYPES_OK = (int, float, str, bytes, bytearray, tuple, list, dict, set, frozenset, bool, object, range)
_BINOPS = {ast.Add: _op.add, ast.Sub: _op.sub, ast.Mult: _op.mul, ast.FloorDiv: _op.floordiv, ast.Mod: _op.mod,
           ast.Div: _op.truediv, ast.Pow: _op.pow, ast.LShift: _op.lshift, ast.RShift: _op.rshift,
           ast.BitOr: _op.or_, ast.BitAnd: _op.and_, ast.BitXor: _op.xor, ast.MatMult: _op.matmul}
_IBINOPS = {ast.Add: _op.iadd, ast.Sub: _op.isub, ast.Mult: _op.imul, ast.FloorDiv: _op.ifloordiv, ast.Mod: _op.imod,
            ast.Div: _op.itruediv, ast.Pow: _op.ipow, ast.LShift: _op.ilshift, ast.RShift: _op.irshift,
            ast.BitOr: _op.ior, ast.BitAnd: _op.iand, ast.BitXor: _op.ixor}
_EXC_NAMES = ["BaseException", "Exception", "ValueError", "TypeError", "KeyError", "IndexError", "LookupError",
              "OverflowError", "ZeroDivisionError", "ArithmeticError", "AttributeError", "NotImplementedError",
              "RuntimeError", "AssertionError", "StopIteration", "NameError", "OSError", "IOError", "EOFError",
              "UnicodeDecodeError", "UnicodeError", "MemoryError", "RecursionError", "BufferError"]
_MISSING = object()
_HOF = (sorted, min, max, map, filter, _functools.reduce, _functools.partial)


# eagerly evaluated generator expressions: still a list for the evaluator, but not a value iter() may be applied to
# (iter(generator) is the generator itself, iter(list) a fresh iterator)
_GenList = type("generator", (list,), {})
_ITER_EXACT = (list, tuple, dict, str, bytes, bytearray, memoryview, range, set, frozenset,
               int, float, bool, type(None), type(iter([])), type(iter(())))


_ABC_NAMES = ("Iterable", "Iterator", "Sequence", "MutableSequence", "Mapping", "MutableMapping", "Sized", "Container",
              "Collection", "Hashable", "Set")


def _no_iter(v):
    raise MachUnknown("iteration protocol on %r" % (v,))


class Mach:
    def __init__(self, repo, fuel=400000):
        self.repo = repo
        self.modules = {}
        self.fuel = fuel
        self.depth = 0
        self.exc_stack = []
        self.trace = None          # optional callable(event, *info) used by witnesses (call ordering)
        b = {}
        for f in (len, sum, range, tuple, list, dict, reversed, sorted, min, max, abs, enumerate, zip, bool, str, repr, bytes,
                  bytearray, hex, bin, oct, divmod, any, all, round, float, int, set, frozenset, chr, ord, format, pow,
                  memoryview, slice, object, map, filter, iter, next, id, hash):
            b[f.__name__] = f
        for n in _EXC_NAMES:
            b[n] = getattr(_builtins, n)
        b.update({"True": True, "False": False, "None": None, "NotImplemented": NotImplemented, "Ellipsis": Ellipsis,
                  "__debug__": True})
        for n in ("isinstance", "issubclass", "type", "super", "getattr", "setattr", "hasattr", "callable", "print",
                  "staticmethod", "classmethod", "property", "vars", "delattr"):
            b[n] = ("special", n)
        self.builtins = b
        self._ev = {getattr(ast, k[3:]): getattr(self, k) for k in dir(self) if k.startswith("ev_")}
        self._ex = {getattr(ast, k[3:]): getattr(self, k) for k in dir(self) if k.startswith("ex_")}

    # ------------------------------------------------------------------ modules
    def host_module(self, name):
        if name == "typing":
            return PModule("typing", {"TYPE_CHECKING": False, "cast": ("special", "cast")}, opaque=True)
        if name == "abc":
            return PModule("abc", {"ABC": object, "abstractmethod": ("special", "identity"), "ABCMeta": POpaque("abc.ABCMeta")})
        if name == "struct":
            return PModule("struct", {"pack": _struct.pack, "unpack": _struct.unpack, "unpack_from": _struct.unpack_from,
                                      "calcsize": _struct.calcsize, "Struct": _struct.Struct, "error": _struct.error,
                                      "pack_into": _struct.pack_into})
        if name == "functools":
            return PModule("functools", {"reduce": _functools.reduce, "lru_cache": ("special", "lru_cache"),
                                         "cache": ("special", "cache"), "partial": _functools.partial,
                                         "wraps": ("special", "deco_factory_id")})
        if name == "operator":
            return PModule("operator", {k: getattr(_op, k) for k in ("or_", "and_", "add", "sub", "mul", "xor", "lshift", "rshift",
                                                                    "itemgetter", "attrgetter", "eq", "ne", "lt", "le", "gt", "ge",
                                                                    "neg", "not_", "floordiv", "mod", "getitem", "index")})
        if name == "math":
            return PModule("math", {k: getattr(_math, k) for k in ("ceil", "floor", "log", "log2", "sqrt", "gcd", "inf", "pi")})
        if name == "array":
            return PModule("array", {"array": _array.array})
        if name == "enum":
            return PModule("enum", {"Enum": _EnumBase, "IntEnum": POpaque("enum.IntEnum"), "unique": ("special", "identity"),
                                    "auto": POpaque("enum.auto")})
        if name == "itertools":
            import itertools as _it
            return PModule("itertools", {k: getattr(_it, k) for k in ("chain", "repeat", "product", "accumulate", "islice", "count",
                                                                     "zip_longest", "takewhile", "dropwhile", "starmap")})
        if name == "collections":
            import collections as _c
            import collections.abc as _cabc
            return PModule("collections", {"OrderedDict": _c.OrderedDict, "namedtuple": POpaque("collections.namedtuple"),
                                           "deque": POpaque("collections.deque"), "defaultdict": POpaque("collections.defaultdict"),
                                           "abc": PModule("collections.abc", {k: getattr(_cabc, k) for k in _ABC_NAMES if hasattr(_cabc, k)})})
        return PModule(name, opaque=True)

    def module(self, name):
        if name in self.modules:
            m = self.modules[name]
            if m is None:
                raise MachUnknown("circular import of %s" % name)
            return m
        if not self.repo.has_mod(name):
            m = self.host_module(name)
            self.modules[name] = m
            return m
        self.modules[name] = None
        src = self.repo.mod(name).src
        try:
            tree = ast.parse(src)
        except SyntaxError as e:
            raise MachUnknown("cannot parse %s: %s" % (name, e))
        m = PModule(name)
        env = Env()
        env.vars = m.ns
        m.ns["__name__"] = name
        m.env = env
        self.modules[name] = m
        self.exec_lenient(tree.body, env, m.poisoned, m)
        return m

    def exec_source(self, src, name="<witness>", imports=None):
        """evaluate checker-owned source text in a fresh module (used for witness definitions)"""
        m = PModule(name)
        env = Env()
        env.vars = m.ns
        m.ns["__name__"] = name
        m.env = env
        m.ns.update(imports or {})
        sig = self.block(ast.parse(src).body, env, m)
        return m

    def exec_lenient(self, stmts, env, poisoned, mod):
        """module / class body: a statement outside the vocabulary poisons only the names it would have bound"""
        for st in stmts:
            try:
                sig = self.stmt(st, env, mod)
                if sig is not None:
                    raise MachUnknown("control flow statement at module/class level")
            except MachUnknown as e:
                for n in self.bound_names(st):
                    poisoned[n] = "%s (while evaluating the definition of `%s`)" % (e, n)
            except PyRaise as e:
                for n in self.bound_names(st):
                    poisoned[n] = "definition of `%s` raises %s" % (n, e.cls_name)

    @staticmethod
    def bound_names(st):
        out = []
        if isinstance(st, (ast.FunctionDef, ast.ClassDef)):
            out.append(st.name)
        elif isinstance(st, (ast.Import, ast.ImportFrom)):
            out += [(a.asname or a.name).split(".")[0] for a in st.names]
        else:
            for n in ast.walk(st):
                if isinstance(n, ast.Name) and isinstance(n.ctx, ast.Store):
                    out.append(n.id)
        return out

    # ---------------------------------------------------------------- plumbing
    def tick(self, n=1):
        self.fuel -= n
        if self.fuel < 0:
            raise MachTimeout("step budget exhausted")

    def native(self, f, args, kw):
        """call a modelled host primitive; host exceptions become exceptions of the evaluated program"""
        if f in _HOF or getattr(f, "__name__", "") == "sort" or type(f).__module__ == "itertools" or getattr(f, "__module__", "") in ("itertools", "operator"):
            args = [self.hostify(a) for a in args]
            if kw:
                kw = {k: self.hostify(v) for k, v in kw.items()}
        try:
            return f(*args, **kw)
        except (PyRaise, MachUnknown, MachTimeout):
            raise
        except RecursionError:
            raise MachUnknown("recursion too deep")
        except MemoryError:
            raise MachUnknown("memory")
        except Exception as e:
            raise PyRaise(e)

    def hostify(self, v):
        """an evaluated callable handed to a host primitive (sorted(key=...), reduce, map) is wrapped"""
        if isinstance(v, (PFunc, PBound)):
            return lambda *a, **k: self.call(v, list(a), k)
        return v

    def raise_(self, cls, *args):
        raise PyRaise(cls(*args))

    def truth(self, v):
        if isinstance(v, PInst):
            for nm in ("__bool__", "__len__"):
                o, f = v.cls.find(nm)
                if f is not None:
                    return bool(self.call(self.bind_attr(v, f), [], {}))
            return True
        if isinstance(v, _INTERP):
            return True
        try:
            return bool(v)
        except Exception as e:
            raise PyRaise(e)

    def iterate(self, v):
        if isinstance(v, PClass):
            if v.enum_members is None:
                self.raise_(TypeError, "'type' object is not iterable")
            return list(v.enum_members)
        if isinstance(v, PInst):
            o, f = v.cls.find("__iter__")
            if f is None:
                self.raise_(TypeError, "'%s' object is not iterable" % v.cls.name)
            raise MachUnknown("user-defined iterator %s.__iter__" % v.cls.name)
        if isinstance(v, _INTERP):
            self.raise_(TypeError, "object is not iterable")
        try:
            return iter(v)
        except TypeError as e:
            raise PyRaise(e)

    # ------------------------------------------------------------ attributes
    def bind_attr(self, obj, f, cls=None):
        if isinstance(f, PFunc):
            return PBound(f, obj)
        if isinstance(f, PStatic):
            return f.f
        if isinstance(f, PClassM):
            return PBound(f.f, cls or obj.cls)
        if isinstance(f, PProp):
            return self.call(f.fget, [obj], {})
        if isinstance(f, _HostSlot):
            return PBound(f, obj)
        return f

    def getattr_(self, obj, name, default=_MISSING):
        if isinstance(obj, PInst):
            if name in obj.attrs:
                return obj.attrs[name]
            o, f = obj.cls.find(name)
            if o is not None:
                return self.bind_attr(obj, f)
            if name == "__class__":
                return obj.cls
            if name == "__dict__":
                return obj.attrs
            o, f = obj.cls.find("__getattr__")
            if f is not None and isinstance(f, PFunc):
                return self.call(f, [obj, name], {})
        elif isinstance(obj, PClass):
            o, f = obj.find(name)
            if o is not None:
                if isinstance(f, PStatic):
                    return f.f
                if isinstance(f, PClassM):
                    return PBound(f.f, obj)
                return f
            if name == "__name__":
                return obj.name
            if name == "__qualname__":
                return obj.qual
            if name == "__mro__":
                return tuple(obj.mro)
            if name == "__dict__":
                return obj.ns
            if name == "__members__" and obj.enum_members is not None:
                return {m.attrs["_name_"]: m for m in obj.enum_members}
        elif isinstance(obj, PModule):
            if name in obj.ns:
                return obj.ns[name]
            if name in obj.poisoned:
                raise MachUnknown(obj.poisoned[name])
            if obj.opaque:
                return POpaque("%s.%s" % (obj.name, name))
        elif isinstance(obj, PSuper):
            o, f = obj.cls_of().find(name, after=obj.cls)
            if o is not None:
                if isinstance(obj.obj, PClass):
                    return self.bind_attr(None, f, cls=obj.obj) if isinstance(f, (PClassM, PStatic)) else f
                return self.bind_attr(obj.obj, f)
        elif isinstance(obj, POpaque):
            return POpaque("%s.%s" % (obj.text, name))
        elif isinstance(obj, (PFunc, PBound)):
            if name == "__name__":
                return obj.name if isinstance(obj, PFunc) else getattr(obj.func, "name", "?")
            if isinstance(obj, PBound) and name == "__self__":
                return obj.obj
            if isinstance(obj, PBound) and name == "__func__":
                return obj.func
            if isinstance(obj, PFunc) and name in getattr(obj, "fattrs", {}):
                return obj.fattrs[name]
        elif isinstance(obj, type):
            if obj in _HOST_TYPES_OK or (isinstance(obj, type) and issubclass(obj, BaseException)):
                if name in ("__name__", "__qualname__"):
                    return obj.__name__
                if name == "__init__" and issubclass(obj, BaseException):
                    return _HostSlot(obj, "__init__")
                if not name.startswith("_") and hasattr(obj, name):
                    return getattr(obj, name)
            elif obj is _EnumBase:
                pass
            elif obj is _struct.Struct or obj is _array.array:
                if not name.startswith("_") and hasattr(obj, name):
                    return getattr(obj, name)
        elif isinstance(obj, _HOST_VALUE_TYPES):
            if name == "__class__":
                return type(obj)
            if not name.startswith("_") and hasattr(obj, name):
                return getattr(obj, name)
            if name in ("__len__", "__getitem__", "__contains__", "__eq__", "__iter__", "__add__", "__mul__", "__or__", "__and__") \
                    and hasattr(obj, name):
                return getattr(obj, name)
        elif isinstance(obj, tuple) and len(obj) == 2 and obj[0] == "special":
            pass
        if default is not _MISSING:
            return default
        tn = obj.cls.name if isinstance(obj, PInst) else (obj.name if isinstance(obj, (PClass, PModule)) else type(obj).__name__)
        if not isinstance(obj, _INTERP + _HOST_VALUE_TYPES + (type,)):
            raise MachUnknown("attribute %s of an unmodelled value %r" % (name, type(obj).__name__))
        raise PyRaise(AttributeError("'%s' object has no attribute '%s'" % (tn, name)))

    def setattr_(self, obj, name, v):
        if isinstance(obj, PInst):
            o, f = obj.cls.find(name)
            if isinstance(f, PProp):
                if f.fset is None:
                    self.raise_(AttributeError, "can't set attribute '%s'" % name)
                self.call(f.fset, [obj, v], {})
                return
            o2, sa = obj.cls.find("__setattr__")
            if isinstance(sa, PFunc):
                raise MachUnknown("user-defined __setattr__")
            obj.attrs[name] = v
        elif isinstance(obj, PClass):
            obj.ns[name] = v
        elif isinstance(obj, PModule) and not obj.opaque:
            obj.ns[name] = v
        elif isinstance(obj, PFunc):
            if not hasattr(obj, "fattrs"):
                obj.fattrs = {}
            obj.fattrs[name] = v
        else:
            if isinstance(obj, _INTERP):
                raise MachUnknown("attribute store on %r" % (obj,))
            self.raise_(AttributeError, "'%s' object has no attribute '%s'" % (type(obj).__name__, name))

    # ------------------------------------------------------------------ calls
    def call(self, f, args, kw):
        self.tick()
        if isinstance(f, PBound):
            if isinstance(f.func, _HostSlot):
                return self.host_slot(f.func, f.obj, args, kw)
            return self.call(f.func, [f.obj] + list(args), kw)
        if isinstance(f, PFunc):
            return self.call_func(f, args, kw)
        if isinstance(f, PClass):
            return self.instantiate(f, args, kw)
        if isinstance(f, _HostSlot):
            if not args:
                self.raise_(TypeError, "descriptor '%s' needs an argument" % f.name)
            return self.host_slot(f, args[0], args[1:], kw)
        if isinstance(f, tuple) and len(f) == 2 and f[0] == "special":
            return self.special(f[1], args, kw)
        if isinstance(f, PInst):
            o, m = f.cls.find("__call__")
            if isinstance(m, PFunc):
                return self.call_func(m, [f] + list(args), kw)
            self.raise_(TypeError, "'%s' object is not callable" % f.cls.name)
        if isinstance(f, (POpaque,)):
            if f.text.startswith(("log.", "logging.", "typing.")) or ".log." in f.text or f.text.split(".")[0] in ("log", "logging", "typing", "warnings"):
                return POpaque(f.text + "()")
            raise MachUnknown("call of unmodelled %s" % f.text)
        if isinstance(f, _INTERP):
            self.raise_(TypeError, "object is not callable")
        if f is _EnumBase:
            raise MachUnknown("functional enum API")
        if callable(f):
            return self.host_call(f, args, kw)
        self.raise_(TypeError, "'%s' object is not callable" % type(f).__name__)

    def host_call(self, f, args, kw):
        # guards against host primitives applied to evaluated objects they cannot see through
        if f in (len,) and args and isinstance(args[0], PInst):
            o, m = args[0].cls.find("__len__")
            if isinstance(m, PFunc):
                return self.call_func(m, [args[0]], {})
            self.raise_(TypeError, "object of type '%s' has no len()" % args[0].cls.name)
        if f is bool and len(args) == 1 and isinstance(args[0], _INTERP):
            return self.truth(args[0])
        if f in (str, repr) and len(args) == 1 and isinstance(args[0], PInst):
            for nm in (("__str__", "__repr__") if f is str else ("__repr__",)):
                o, mm = args[0].cls.find(nm)
                if isinstance(mm, PFunc):
                    return self.call_func(mm, [args[0]], {})
        if f is iter and len(args) == 1 and not kw and type(args[0]) in _ITER_EXACT:
            # exact for the host's own containers / scalars / iterators: iter() creates a fresh iterator over a
            # container (nothing is consumed), returns an iterator itself, raises TypeError for a non-iterable
            try:
                return iter(args[0])
            except TypeError as e:
                raise PyRaise(e)
        if f in (iter, next):
            raise MachUnknown("explicit iterator protocol (%s)" % f.__name__)
        if f in (list, tuple, set, frozenset, sorted, sum, min, max, any, all, enumerate, reversed, dict, zip, map, filter) and args:
            args = list(args)
            for i, a in enumerate(args):
                if isinstance(a, PClass):
                    args[i] = self.iterate(a)
                elif isinstance(a, PInst) and f not in (map, filter):
                    self.iterate(a)
        if f in (map, filter) and args:
            r = self.native(f, args, kw)
            return list(r)
        if f is id:
            return id(args[0]) if args else self.raise_(TypeError, "id() takes exactly one argument")
        if f is _op.pow or f is pow:
            if len(args) >= 2 and isinstance(args[1], int) and abs(args[1]) > 8192:
                raise MachUnknown("huge exponent")
        if f in (bytes, bytearray) and len(args) == 1 and isinstance(args[0], int) and not isinstance(args[0], bool) and args[0] > (1 << 22):
            raise MachUnknown("huge buffer")
        return self.native(f, args, kw)

    def host_slot(self, slot, obj, args, kw):
        if slot.name == "__init__":
            if isinstance(slot.cls, type) and issubclass(slot.cls, BaseException):
                if isinstance(obj, PInst):
                    obj.attrs["args"] = tuple(args)
                return None
            if args or kw:
                self.raise_(TypeError, "object.__init__() takes exactly one argument (the instance to initialize)")
            return None
        if slot.name in ("__str__", "__repr__"):
            return str(obj) if slot.name == "__str__" else repr(obj)
        raise MachUnknown("host slot %s" % slot.name)

    def call_func(self, f, args, kw):
        memo = getattr(f, "memo", None)
        if memo is not None:
            return memo.call(self, f, args, kw)         # functools.lru_cache / cache: see _Memo
        return self.call_func_raw(f, args, kw)

    def memoise(self, f, maxsize, typed):
        if not isinstance(f, PFunc) or getattr(f, "memo", None) is not None:
            raise MachUnknown("memoisation of %r" % (f,))
        import copy as _copy
        g = _copy.copy(f)
        g.memo = _Memo(maxsize, typed)
        return g

    def call_func_raw(self, f, args, kw):
        node = f.node
        if getattr(node, "_is_gen", None) is None:
            body = node.body if isinstance(node.body, list) else [node.body]
            gen = False
            for b in body:
                for n in ast.walk(b):
                    if isinstance(n, ast.Await):
                        raise MachUnknown("coroutine %s" % f.name)
                    if isinstance(n, (ast.Yield, ast.YieldFrom)):
                        gen = True
            node._is_gen = gen
        env = Env(f.env)
        self.bind_params(f, args, kw, env.vars)
        if node._is_gen:
            # a generator function is run to exhaustion and its values handed out afterwards: exact for producers
            # without side effects that are consumed completely (what the evaluated modules use them for)
            if f.is_lambda:
                raise MachUnknown("generator lambda")
            out = []
            env.vars["$func"] = f
            env.vars["$gen"] = out
            self.depth += 1
            try:
                if self.depth > 60:
                    raise MachUnknown("recursion too deep in %s" % f.name)
                self.block(node.body, env, f.mod)
            finally:
                self.depth -= 1
            return iter(out)
        self.depth += 1
        if self.depth > 60:
            self.depth -= 1
            raise MachUnknown("recursion too deep in %s" % f.name)
        try:
            env.vars["$func"] = f
            if f.is_lambda:
                return self.ev(node.body, env, f.mod)
            sig = self.block(node.body, env, f.mod)
            if sig is not None and sig[0] == "r":
                return sig[1]
            return None
        finally:
            self.depth -= 1

    def bind_params(self, f, args, kw, out):
        a = f.node.args
        posonly = list(getattr(a, "posonlyargs", []))
        params = posonly + list(a.args)
        n = len(params)
        if len(args) > n and a.vararg is None:
            self.raise_(TypeError, "%s() takes %d positional arguments but %d were given" % (f.name, n, len(args)))
        for p, v in zip(params, args):
            out[p.arg] = v
        if a.vararg is not None:
            out[a.vararg.arg] = tuple(args[n:])
        extra = {}
        kwnames = {p.arg for p in a.args} | {p.arg for p in a.kwonlyargs}
        for k, v in kw.items():
            if k in kwnames:
                if k in out:
                    self.raise_(TypeError, "%s() got multiple values for argument '%s'" % (f.name, k))
                out[k] = v
            elif a.kwarg is not None:
                extra[k] = v
            else:
                self.raise_(TypeError, "%s() got an unexpected keyword argument '%s'" % (f.name, k))
        nd = len(f.defaults)
        for i, p in enumerate(params):
            if p.arg not in out:
                j = i - (n - nd)
                if j >= 0:
                    out[p.arg] = f.defaults[j]
                else:
                    self.raise_(TypeError, "%s() missing required positional argument: '%s'" % (f.name, p.arg))
        for p in a.kwonlyargs:
            if p.arg not in out:
                if p.arg in f.kwdefaults:
                    out[p.arg] = f.kwdefaults[p.arg]
                else:
                    self.raise_(TypeError, "%s() missing required keyword-only argument: '%s'" % (f.name, p.arg))
        if a.kwarg is not None:
            out[a.kwarg.arg] = extra

    def instantiate(self, cls, args, kw):
        if cls.enum_members is not None:
            if len(args) == 1 and not kw:
                for m in cls.enum_members:
                    if m.attrs["_value_"] == args[0]:
                        return m
                self.raise_(ValueError, "%r is not a valid %s" % (args[0], cls.name))
            raise MachUnknown("enum call")
        o, new = cls.find("__new__")
        if isinstance(new, (PFunc, PStatic)):
            raise MachUnknown("user-defined __new__ in %s" % cls.name)
        inst = PInst(cls)
        if any(isinstance(c, type) and issubclass(c, BaseException) for c in cls.mro):
            inst.attrs["args"] = tuple(args)
        o, init = cls.find("__init__")
        if isinstance(init, PFunc):
            self.call_func(init, [inst] + list(args), kw)
        elif isinstance(init, _HostSlot):
            self.host_slot(init, inst, args, kw)
        elif init is None:
            if args or kw:
                self.raise_(TypeError, "%s() takes no arguments" % cls.name)
        else:
            raise MachUnknown("__init__ of %s is not a function" % cls.name)
        return inst

    def special(self, name, args, kw):
        if name == "identity":
            return args[0]
        if name == "cast":
            return args[1] if len(args) == 2 else self.raise_(TypeError, "cast() takes 2 arguments")
        if name == "deco_factory":
            if len(args) == 1 and isinstance(args[0], (PFunc,)) and not kw:
                return args[0]
            return ("special", "identity")
        if name == "deco_factory_id":
            return ("special", "identity")
        if name == "lru_cache":
            if len(args) == 1 and isinstance(args[0], PFunc) and not kw:
                return self.memoise(args[0], 128, False)            # @lru_cache without parentheses
            if len(args) > 2 or set(kw) - {"maxsize", "typed"}:
                raise MachUnknown("lru_cache arguments")
            a = list(args) + [kw.get("maxsize", 128), kw.get("typed", False)][len(args):]
            return ("special", ("memo", a[0], a[1]))
        if name == "cache":
            return self.memoise(args[0], None, False) if len(args) == 1 and not kw else self.raise_(TypeError, "cache() takes one argument")
        if isinstance(name, tuple) and name[0] == "memo":
            return self.memoise(args[0], name[1], name[2]) if len(args) == 1 and not kw else self.raise_(TypeError, "decorator takes one argument")
        if name == "isinstance" or name == "issubclass":
            if len(args) != 2:
                self.raise_(TypeError, "%s expected 2 arguments" % name)
            x, cs = args
            cs = cs if isinstance(cs, tuple) else (cs,)
            for c in cs:
                if isinstance(c, PClass):
                    xc = x.cls if (name == "isinstance" and isinstance(x, PInst)) else (x if name == "issubclass" and isinstance(x, PClass) else None)
                    if xc is not None and xc.is_sub(c):
                        return True
                elif isinstance(c, type):
                    if getattr(c, "__module__", "") == "collections.abc" and (
                            isinstance(x, _INTERP) or (isinstance(x, _GenList) and c.__name__ != "Iterable")):
                        # structural ABCs: decided by the host only for the host's own values
                        raise MachUnknown("%s of an evaluated object against collections.abc.%s" % (name, c.__name__))
                    if name == "isinstance":
                        if isinstance(x, PInst):
                            if c is object or c in x.cls.mro or any(isinstance(b, type) and issubclass(b, c) for b in x.cls.mro):
                                return True
                        elif isinstance(x, _INTERP):
                            if c is object:
                                return True
                        elif isinstance(x, c):
                            return True
                    else:
                        if isinstance(x, PClass):
                            if c is object or any(isinstance(b, type) and issubclass(b, c) for b in x.mro):
                                return True
                        elif isinstance(x, type) and issubclass(x, c):
                            return True
                elif isinstance(c, POpaque):
                    raise MachUnknown("isinstance against unmodelled %s" % c.text)
                else:
                    self.raise_(TypeError, "isinstance() arg 2 must be a type")
            return False
        if name == "type":
            if len(args) != 1:
                raise MachUnknown("type() with %d arguments" % len(args))
            x = args[0]
            if isinstance(x, PInst):
                return x.cls
            if isinstance(x, PClass):
                return type
            if isinstance(x, _INTERP):
                raise MachUnknown("type() of %r" % (x,))
            return type(x)
        if name == "super":
            if not args:
                raise MachUnknown("zero-argument super() outside a method")
            return PSuper(args[0], args[1]) if len(args) == 2 else self.raise_(TypeError, "super() arguments")
        if name == "getattr":
            if len(args) == 3:
                return self.getattr_(args[0], args[1], default=args[2])
            return self.getattr_(args[0], args[1])
        if name == "hasattr":
            try:
                self.getattr_(args[0], args[1])
                return True
            except PyRaise as e:
                if isinstance(e.value, AttributeError):
                    return False
                raise
        if name == "setattr":
            self.setattr_(args[0], args[1], args[2])
            return None
        if name == "delattr":
            if isinstance(args[0], PInst) and args[1] in args[0].attrs:
                del args[0].attrs[args[1]]
                return None
            self.raise_(AttributeError, args[1])
        if name == "vars":
            if len(args) == 1 and isinstance(args[0], PInst):
                return args[0].attrs
            raise MachUnknown("vars()")
        if name == "callable":
            x = args[0]
            if isinstance(x, PInst):
                return x.cls.find("__call__")[1] is not None
            return isinstance(x, (PFunc, PBound, PClass)) or (not isinstance(x, _INTERP) and callable(x))
        if name == "print":
            return None
        if name == "staticmethod":
            return PStatic(args[0])
        if name == "classmethod":
            return PClassM(args[0])
        if name == "property":
            return PProp(args[0] if args else kw.get("fget"), args[1] if len(args) > 1 else kw.get("fset"))
        raise MachUnknown("builtin %s" % name)

    # -------------------------------------------------------------- statements
    def block(self, stmts, env, mod):
        for st in stmts:
            sig = self.stmt(st, env, mod)
            if sig is not None:
                return sig
        return None

    def stmt(self, st, env, mod):
        self.tick()
        m = self._ex.get(type(st))
        if m is None:
            raise MachUnknown("statement %s" % type(st).__name__)
        return m(st, env, mod)

    def ex_Expr(self, st, env, mod):
        if not isinstance(st.value, ast.Constant):
            self.ev(st.value, env, mod)
        return None

    def ex_Pass(self, st, env, mod):
        return None

    def ex_Return(self, st, env, mod):
        return ("r", self.ev(st.value, env, mod) if st.value is not None else None)

    def ex_Break(self, st, env, mod):
        return ("b",)

    def ex_Continue(self, st, env, mod):
        return ("c",)

    def ex_Assign(self, st, env, mod):
        v = self.ev(st.value, env, mod)
        for t in st.targets:
            self.store(t, v, env, mod)
        return None

    def ex_AnnAssign(self, st, env, mod):
        if st.value is not None:
            self.store(st.target, self.ev(st.value, env, mod), env, mod)
        return None

    def ex_AugAssign(self, st, env, mod):
        f = _IBINOPS.get(type(st.op))
        if f is None:
            raise MachUnknown("augmented operator")
        t = st.target
        if isinstance(t, ast.Name):
            cur = self.lookup(t.id, env)
            self.bind(t.id, self.binop(f, cur, self.ev(st.value, env, mod), st.op), env)
        elif isinstance(t, ast.Attribute):
            obj = self.ev(t.value, env, mod)
            cur = self.getattr_(obj, t.attr)
            self.setattr_(obj, t.attr, self.binop(f, cur, self.ev(st.value, env, mod), st.op))
        elif isinstance(t, ast.Subscript):
            obj = self.ev(t.value, env, mod)
            key = self.ev_slice(t.slice, env, mod)
            cur = self.getitem(obj, key)
            self.setitem(obj, key, self.binop(f, cur, self.ev(st.value, env, mod), st.op))
        else:
            raise MachUnknown("augmented target")
        return None

    def ex_If(self, st, env, mod):
        if self.truth(self.ev(st.test, env, mod)):
            return self.block(st.body, env, mod)
        return self.block(st.orelse, env, mod)

    def ex_While(self, st, env, mod):
        while self.truth(self.ev(st.test, env, mod)):
            self.tick()
            sig = self.block(st.body, env, mod)
            if sig is not None:
                if sig[0] == "b":
                    return None
                if sig[0] == "r":
                    return sig
        return self.block(st.orelse, env, mod)

    def ex_For(self, st, env, mod):
        it = iter(self.iterate(self.ev(st.iter, env, mod)))
        while True:
            try:
                v = next(it)
            except StopIteration:
                break
            except (PyRaise, MachUnknown, MachTimeout):
                raise
            except Exception as e:
                raise PyRaise(e)
            self.tick()
            self.store(st.target, v, env, mod)
            sig = self.block(st.body, env, mod)
            if sig is not None:
                if sig[0] == "b":
                    return None
                if sig[0] == "r":
                    return sig
        return self.block(st.orelse, env, mod)

    def ex_Raise(self, st, env, mod):
        if st.exc is None:
            if not self.exc_stack:
                self.raise_(RuntimeError, "No active exception to reraise")
            raise self.exc_stack[-1]
        v = self.ev(st.exc, env, mod)
        if isinstance(v, PClass) or (isinstance(v, type) and issubclass(v, BaseException)):
            v = self.call(v, [], {})
        if isinstance(v, PInst):
            if not any(isinstance(c, type) and issubclass(c, BaseException) for c in v.cls.mro):
                self.raise_(TypeError, "exceptions must derive from BaseException")
        elif not isinstance(v, BaseException):
            self.raise_(TypeError, "exceptions must derive from BaseException")
        cause = self.ev(st.cause, env, mod) if st.cause is not None else None
        raise PyRaise(v, cause)

    def exc_matches(self, e, t):
        ts = t if isinstance(t, tuple) else (t,)
        v = e.value
        for c in ts:
            if isinstance(c, PClass):
                if isinstance(v, PInst) and v.cls.is_sub(c):
                    return True
            elif isinstance(c, type) and issubclass(c, BaseException):
                if isinstance(v, PInst):
                    if any(isinstance(b, type) and issubclass(b, c) for b in v.cls.mro):
                        return True
                elif isinstance(v, c):
                    return True
            elif isinstance(c, POpaque):
                raise MachUnknown("except clause with unmodelled class %s" % c.text)
            else:
                self.raise_(TypeError, "catching classes that do not inherit from BaseException is not allowed")
        return False

    def ex_Try(self, st, env, mod):
        sig = None
        try:
            try:
                sig = self.block(st.body, env, mod)
            except PyRaise as e:
                for h in st.handlers:
                    if h.type is None or self.exc_matches(e, self.ev(h.type, env, mod)):
                        if h.name:
                            self.bind(h.name, e.value, env)
                        self.exc_stack.append(e)
                        try:
                            sig = self.block(h.body, env, mod)
                        finally:
                            self.exc_stack.pop()
                        break
                else:
                    raise
            else:
                if sig is None:
                    sig = self.block(st.orelse, env, mod)
        finally:
            if st.finalbody:
                # (a MachUnknown/MachTimeout in flight is not an exception of the evaluated program, but running the
                # finaliser is harmless)
                fs = self.block(st.finalbody, env, mod)
                if fs is not None:
                    return fs
        return sig

    def ex_Assert(self, st, env, mod):
        if not self.truth(self.ev(st.test, env, mod)):
            msg = self.ev(st.msg, env, mod) if st.msg is not None else None
            raise PyRaise(AssertionError(msg) if msg is not None else AssertionError())
        return None

    def ex_Delete(self, st, env, mod):
        for t in st.targets:
            if isinstance(t, ast.Name):
                e = self.find_env(t.id, env)
                if e is None:
                    self.raise_(NameError, "name '%s' is not defined" % t.id)
                del e.vars[t.id]
            elif isinstance(t, ast.Subscript):
                obj = self.ev(t.value, env, mod)
                key = self.ev_slice(t.slice, env, mod)
                if isinstance(obj, PInst):
                    o, f = obj.cls.find("__delitem__")
                    if not isinstance(f, PFunc):
                        self.raise_(TypeError, "'%s' object does not support item deletion" % obj.cls.name)
                    self.call_func(f, [obj, key], {})
                else:
                    self.native(_op.delitem, [obj, key], {})
            elif isinstance(t, ast.Attribute):
                obj = self.ev(t.value, env, mod)
                if isinstance(obj, PInst) and t.attr in obj.attrs:
                    del obj.attrs[t.attr]
                else:
                    self.raise_(AttributeError, t.attr)
            else:
                raise MachUnknown("del target")
        return None

    def ex_Global(self, st, env, mod):
        if env.decl is None:
            env.decl = {}
        for n in st.names:
            env.decl[n] = env.glob
        return None

    def ex_Nonlocal(self, st, env, mod):
        if env.decl is None:
            env.decl = {}
        for n in st.names:
            e = env.parent
            while e is not None and (e.is_class or n not in e.vars):
                e = e.parent
            if e is None:
                raise MachUnknown("nonlocal %s unresolved" % n)
            env.decl[n] = e
        return None

    def ex_Import(self, st, env, mod):
        for a in st.names:
            m = self.module(a.name.split(".")[0])
            if "." in a.name and not m.opaque:
                self.submodule(m, a.name)
            self.bind(a.asname or a.name.split(".")[0], m if not (a.asname and "." in a.name) else POpaque(a.name), env)
        return None

    def submodule(self, m, dotted):
        for part in dotted.split(".")[1:]:
            m = m.ns.get(part) if isinstance(m, PModule) and not m.opaque else None
            if not isinstance(m, PModule):
                raise MachUnknown("dotted import %s" % dotted)
        return m

    def ex_ImportFrom(self, st, env, mod):
        if st.level:
            raise MachUnknown("relative import")
        m = self.module(st.module.split(".")[0])
        if "." in st.module and not m.opaque:
            m = self.submodule(m, st.module)
        for a in st.names:
            if a.name == "*":
                if m.opaque:
                    continue
                for k, v in m.ns.items():
                    if not k.startswith("_"):
                        self.bind(k, v, env)
                if isinstance(mod, PModule):
                    for k, why in m.poisoned.items():
                        mod.poisoned.setdefault(k, why)
            else:
                self.bind(a.asname or a.name, self.getattr_(m, a.name), env)
        return None

    def ex_FunctionDef(self, st, env, mod):
        f = self.make_func(st, env, mod, st.name)
        v = f
        for d in reversed(st.decorator_list):
            if isinstance(d, ast.Attribute) and d.attr in ("setter", "getter", "deleter"):
                pv = self.ev(d.value, env, mod)
                if not isinstance(pv, PProp) or d.attr != "setter":
                    raise MachUnknown("decorator %s" % d.attr)
                v = PProp(pv.fget, v)
                continue
            v = self.call(self.ev(d, env, mod), [v], {})
        self.bind(st.name, v, env)
        return None

    def make_func(self, node, env, mod, name):
        a = node.args
        cenv = env
        while cenv is not None and cenv.is_class:
            cenv = cenv.parent
        defaults = [self.ev(d, env, mod) for d in a.defaults]
        kwd = {p.arg: self.ev(d, env, mod) for p, d in zip(a.kwonlyargs, a.kw_defaults) if d is not None}
        return PFunc(self, node, cenv, name, defaults, kwd, mod)

    def ex_ClassDef(self, st, env, mod):
        bases = []
        for b in st.bases:
            v = self.ev(b, env, mod)
            if isinstance(v, POpaque):
                if v.text.startswith("typing."):
                    continue                    # Generic[...] / Protocol: no run-time behaviour the evaluated code relies on
                raise MachUnknown("base class %s is not modelled" % v.text)
            if v is object:
                continue
            if not isinstance(v, (PClass, type)):
                raise MachUnknown("base class %r" % (v,))
            if isinstance(v, type) and not (v is _EnumBase or issubclass(v, BaseException)):
                raise MachUnknown("host base class %s" % v.__name__)
            bases.append(v)
        for k in st.keywords:
            if k.arg != "metaclass":
                raise MachUnknown("class keyword %s" % k.arg)
        cenv = Env(env, is_class=True)
        outer = env.vars.get("$classqual")
        qual = (outer + "." if outer else "") + st.name
        cenv.vars["$classqual"] = qual
        cls = PClass(self, st.name, bases, cenv.vars, qual)
        cls.modname = getattr(mod, "name", None)
        self.exec_lenient(st.body, cenv, cls.poisoned, mod)
        cenv.vars.pop("$classqual", None)
        for v in list(cls.ns.values()):
            f = v.f if isinstance(v, (PStatic, PClassM)) else v
            if isinstance(v, PProp):
                for g in (v.fget, v.fset):
                    if isinstance(g, PFunc) and g.owner is None:
                        g.owner = cls
            if isinstance(f, PFunc) and f.owner is None:
                f.owner = cls
        if _EnumBase in cls.mro:
            self.make_enum(cls)
        v = cls
        for d in reversed(st.decorator_list):
            v = self.call(self.ev(d, env, mod), [v], {})
        self.bind(st.name, v, env)
        return None

    def make_enum(self, cls):
        members = []
        o, init = cls.find("__init__")
        cls.enum_members = members
        for k, v in list(cls.ns.items()):
            if k.startswith("_") or k.startswith("$") or isinstance(v, (PFunc, PStatic, PClassM, PProp, PClass)):
                continue
            if isinstance(v, POpaque):
                raise MachUnknown("enum member value %s" % v.text)
            same = [m for m in members if m.attrs["_value_"] == v]
            if same:
                cls.ns[k] = same[0]
                continue
            m = PInst(cls)
            m.attrs.update(_value_=v, _name_=k, name=k, value=v)
            if isinstance(init, PFunc):
                self.call_func(init, [m] + (list(v) if isinstance(v, tuple) else [v]), {})
            cls.ns[k] = m
            members.append(m)

    def ex_With(self, st, env, mod):
        if len(st.items) != 1:
            return self.ex_With(ast.With(items=st.items[:1], body=[ast.With(items=st.items[1:], body=st.body)]), env, mod)
        it = st.items[0]
        cm = self.ev(it.context_expr, env, mod)
        if isinstance(cm, POpaque):
            if it.optional_vars is not None:
                self.store(it.optional_vars, cm, env, mod)
            return self.block(st.body, env, mod)
        if isinstance(cm, memoryview):
            if it.optional_vars is not None:
                self.store(it.optional_vars, cm, env, mod)
            try:
                return self.block(st.body, env, mod)
            finally:
                try:
                    cm.release()
                except BufferError:
                    pass
        if not isinstance(cm, PInst):
            raise MachUnknown("context manager %r" % (type(cm).__name__,))
        enter, exit_ = self.getattr_(cm, "__enter__"), self.getattr_(cm, "__exit__")
        v = self.call(enter, [], {})
        if it.optional_vars is not None:
            self.store(it.optional_vars, v, env, mod)
        try:
            sig = self.block(st.body, env, mod)
        except PyRaise as e:
            val = e.value
            cls = val.cls if isinstance(val, PInst) else type(val)
            if self.truth(self.call(exit_, [cls, val, None], {})):
                return None
            raise
        self.call(exit_, [None, None, None], {})
        return sig

    # ------------------------------------------------------------- name binding
    def find_env(self, name, env):
        e = env
        first = True
        while e is not None:
            if (first or not e.is_class) and name in e.vars:
                return e
            first = False
            e = e.parent
        return None

    def lookup(self, name, env):
        if env.decl and name in env.decl:
            e = env.decl[name]
            if name in e.vars:
                return e.vars[name]
        else:
            e = self.find_env(name, env)
            if e is not None:
                return e.vars[name]
        if name in self.builtins:
            return self.builtins[name]
        g = env.glob
        for m in self.modules.values():
            if m is not None and getattr(m, "env", None) is g and name in m.poisoned:
                raise MachUnknown(m.poisoned[name])
        # class-body scopes on the chain that poisoned the name
        raise PyRaise(NameError("name '%s' is not defined" % name))

    def bind(self, name, v, env):
        if env.decl and name in env.decl:
            env.decl[name].vars[name] = v
        else:
            env.vars[name] = v

    def store(self, t, v, env, mod):
        if isinstance(t, ast.Name):
            self.bind(t.id, v, env)
        elif isinstance(t, ast.Attribute):
            self.setattr_(self.ev(t.value, env, mod), t.attr, v)
        elif isinstance(t, ast.Subscript):
            self.setitem(self.ev(t.value, env, mod), self.ev_slice(t.slice, env, mod), v)
        elif isinstance(t, (ast.Tuple, ast.List)):
            try:
                vals = list(self.iterate(v))
            except (PyRaise, MachUnknown, MachTimeout):
                raise
            stars = [i for i, x in enumerate(t.elts) if isinstance(x, ast.Starred)]
            if stars:
                i = stars[0]
                after = len(t.elts) - i - 1
                if len(vals) < len(t.elts) - 1:
                    self.raise_(ValueError, "not enough values to unpack")
                parts = vals[:i] + [vals[i:len(vals) - after]] + vals[len(vals) - after:]
                for x, p in zip(t.elts, parts):
                    self.store(x.value if isinstance(x, ast.Starred) else x, p, env, mod)
                return
            if len(vals) != len(t.elts):
                self.raise_(ValueError, "too many values to unpack" if len(vals) > len(t.elts) else "not enough values to unpack")
            for x, p in zip(t.elts, vals):
                self.store(x, p, env, mod)
        else:
            raise MachUnknown("store target %s" % type(t).__name__)

    # -------------------------------------------------------------- expressions
    def ev(self, n, env, mod):
        m = self._ev.get(type(n))
        if m is None:
            raise MachUnknown("expression %s" % type(n).__name__)
        return m(n, env, mod)

    def ev_Constant(self, n, env, mod):
        return n.value

    def ev_Name(self, n, env, mod):
        if n.id == "__class__":
            f = self.cur_func(env)
            if f is not None and f.owner is not None:
                return f.owner
        return self.lookup(n.id, env)

    def cur_func(self, env):
        e = env
        while e is not None:
            if "$func" in e.vars:
                return e.vars["$func"]
            e = e.parent
        return None

    def ev_Attribute(self, n, env, mod):
        return self.getattr_(self.ev(n.value, env, mod), n.attr)

    def ev_slice(self, s, env, mod):
        if isinstance(s, ast.Slice):
            return slice(self.ev(s.lower, env, mod) if s.lower is not None else None,
                         self.ev(s.upper, env, mod) if s.upper is not None else None,
                         self.ev(s.step, env, mod) if s.step is not None else None)
        if isinstance(s, ast.Tuple):
            return tuple(self.ev_slice(x, env, mod) for x in s.elts)
        return self.ev(s, env, mod)

    def getitem(self, obj, key):
        if isinstance(obj, PInst):
            o, f = obj.cls.find("__getitem__")
            if not isinstance(f, PFunc):
                self.raise_(TypeError, "'%s' object is not subscriptable" % obj.cls.name)
            return self.call_func(f, [obj, key], {})
        if isinstance(obj, PClass):
            if obj.enum_members is not None:
                for m in obj.enum_members:
                    if m.attrs["_name_"] == key:
                        return m
                self.raise_(KeyError, key)
            raise MachUnknown("subscript of class %s" % obj.name)
        if isinstance(obj, POpaque):
            return POpaque(obj.text + "[...]")
        if isinstance(obj, _INTERP):
            self.raise_(TypeError, "object is not subscriptable")
        try:
            return obj[key]
        except Exception as e:
            raise PyRaise(e)

    def setitem(self, obj, key, v):
        if isinstance(obj, PInst):
            o, f = obj.cls.find("__setitem__")
            if not isinstance(f, PFunc):
                self.raise_(TypeError, "'%s' object does not support item assignment" % obj.cls.name)
            self.call_func(f, [obj, key, v], {})
            return
        if isinstance(obj, _INTERP):
            self.raise_(TypeError, "object does not support item assignment")
        try:
            obj[key] = v
        except Exception as e:
            raise PyRaise(e)

    def ev_Subscript(self, n, env, mod):
        return self.getitem(self.ev(n.value, env, mod), self.ev_slice(n.slice, env, mod))

    def binop(self, f, a, b, op):
        if isinstance(a, _INTERP) or isinstance(b, _INTERP):
            if isinstance(op, ast.Mod) and isinstance(a, str):
                pass          # '%s' % obj: repr/str of the evaluated object
            elif isinstance(a, (list, tuple)) or isinstance(b, (list, tuple)):
                pass
            else:
                for x, y, nm in ((a, b, "__%s__"), (b, a, "__r%s__")):
                    if isinstance(x, PInst):
                        o, m = x.cls.find(nm % _DUNDER.get(type(op), "?"))
                        if isinstance(m, PFunc):
                            return self.call_func(m, [x, y], {})
                self.raise_(TypeError, "unsupported operand type(s)")
        if isinstance(op, ast.Pow) and isinstance(b, int) and abs(b) > 8192:
            raise MachUnknown("huge exponent")
        if isinstance(op, ast.LShift) and isinstance(b, int) and b > (1 << 16):
            raise MachUnknown("huge shift")
        if isinstance(op, ast.Mult):
            for x, y in ((a, b), (b, a)):
                if isinstance(x, (list, tuple, bytes, bytearray, str)) and isinstance(y, int) and y * max(1, len(x)) > (1 << 22):
                    raise MachUnknown("huge repetition")
        try:
            return f(a, b)
        except Exception as e:
            raise PyRaise(e)

    def ev_BinOp(self, n, env, mod):
        f = _BINOPS.get(type(n.op))
        if f is None:
            raise MachUnknown("operator")
        return self.binop(f, self.ev(n.left, env, mod), self.ev(n.right, env, mod), n.op)

    def ev_UnaryOp(self, n, env, mod):
        v = self.ev(n.operand, env, mod)
        if isinstance(n.op, ast.Not):
            return not self.truth(v)
        if isinstance(v, _INTERP):
            self.raise_(TypeError, "bad operand type for unary operator")
        try:
            if isinstance(n.op, ast.USub):
                return -v
            if isinstance(n.op, ast.UAdd):
                return +v
            return ~v
        except Exception as e:
            raise PyRaise(e)

    def ev_BoolOp(self, n, env, mod):
        is_and = isinstance(n.op, ast.And)
        v = None
        for e in n.values:
            v = self.ev(e, env, mod)
            t = self.truth(v)
            if is_and and not t:
                return v
            if not is_and and t:
                return v
        return v

    def eq(self, a, b):
        for x, y in ((a, b), (b, a)):
            if isinstance(x, PInst):
                o, f = x.cls.find("__eq__")
                if isinstance(f, PFunc):
                    r = self.call_func(f, [x, y], {})
                    if r is not NotImplemented:
                        return self.truth(r)
        try:
            return bool(a == b)
        except Exception as e:
            raise PyRaise(e)

    def contains(self, c, x):
        if isinstance(c, PInst):
            o, f = c.cls.find("__contains__")
            if isinstance(f, PFunc):
                return self.truth(self.call_func(f, [c, x], {}))
            self.raise_(TypeError, "argument of type '%s' is not iterable" % c.cls.name)
        if isinstance(c, PClass):
            return any(m is x for m in self.iterate(c))
        if isinstance(c, _INTERP):
            self.raise_(TypeError, "argument is not iterable")
        try:
            return x in c
        except Exception as e:
            raise PyRaise(e)

    def ev_Compare(self, n, env, mod):
        left = self.ev(n.left, env, mod)
        for op, c in zip(n.ops, n.comparators):
            right = self.ev(c, env, mod)
            if isinstance(op, ast.Is):
                r = left is right
            elif isinstance(op, ast.IsNot):
                r = left is not right
            elif isinstance(op, ast.Eq):
                r = self.eq(left, right)
            elif isinstance(op, ast.NotEq):
                r = not self.eq(left, right)
            elif isinstance(op, ast.In):
                r = self.contains(right, left)
            elif isinstance(op, ast.NotIn):
                r = not self.contains(right, left)
            else:
                if isinstance(left, _INTERP) or isinstance(right, _INTERP):
                    done = False
                    for x, y, names in ((left, right, _CMP_DUNDER), (right, left, _CMP_RDUNDER)):
                        if isinstance(x, PInst):
                            o, f = x.cls.find(names[type(op)])
                            if isinstance(f, PFunc):
                                r = self.truth(self.call_func(f, [x, y], {}))
                                done = True
                                break
                    if not done:
                        self.raise_(TypeError, "ordering not supported between these instances")
                else:
                    try:
                        r = _CMP_HOST[type(op)](left, right)
                    except Exception as e:
                        raise PyRaise(e)
            if not r:
                return False
            left = right
        return True

    def ev_IfExp(self, n, env, mod):
        return self.ev(n.body, env, mod) if self.truth(self.ev(n.test, env, mod)) else self.ev(n.orelse, env, mod)

    def seq(self, elts, env, mod):
        out = []
        for e in elts:
            if isinstance(e, ast.Starred):
                out.extend(self.iterate(self.ev(e.value, env, mod)))
            else:
                out.append(self.ev(e, env, mod))
        return out

    def ev_Tuple(self, n, env, mod):
        return tuple(self.seq(n.elts, env, mod))

    def ev_List(self, n, env, mod):
        return self.seq(n.elts, env, mod)

    def ev_Set(self, n, env, mod):
        try:
            return set(self.seq(n.elts, env, mod))
        except TypeError as e:
            raise PyRaise(e)

    def ev_Dict(self, n, env, mod):
        d = {}
        for k, v in zip(n.keys, n.values):
            try:
                if k is None:
                    d.update(self.ev(v, env, mod))
                else:
                    d[self.ev(k, env, mod)] = self.ev(v, env, mod)
            except (PyRaise, MachUnknown, MachTimeout):
                raise
            except Exception as e:
                raise PyRaise(e)
        return d

    def comp(self, gens, env, mod, emit, outer=None):
        if not gens:
            emit(env)
            return
        g = gens[0]
        if getattr(g, "is_async", 0):
            raise MachUnknown("async comprehension")
        for v in self.iterate(self.ev(g.iter, outer if outer is not None else env, mod)):
            self.tick()
            self.store(g.target, v, env, mod)
            if all(self.truth(self.ev(c, env, mod)) for c in g.ifs):
                self.comp(gens[1:], env, mod, emit)

    def comp_env(self, env):
        # a comprehension has its own scope; like a function it does not see an enclosing class body (except for
        # the outermost iterable, which the class-level uses in this code base do not rely on beyond plain names)
        return Env(env)

    def ev_ListComp(self, n, env, mod):
        out = []
        e2 = self.comp_env(env)
        self.comp(n.generators, e2, mod, lambda e: out.append(self.ev(n.elt, e, mod)), outer=env)
        return out

    def ev_GeneratorExp(self, n, env, mod):
        return _GenList(self.ev_ListComp(n, env, mod))       # evaluated eagerly (the evaluated code is pure at these places)

    def ev_SetComp(self, n, env, mod):
        try:
            return set(self.ev_ListComp(n, env, mod))
        except TypeError as e:
            raise PyRaise(e)

    def ev_DictComp(self, n, env, mod):
        out = {}
        e2 = self.comp_env(env)

        def emit(e):
            k = self.ev(n.key, e, mod)
            try:
                out[k] = self.ev(n.value, e, mod)
            except TypeError as ex:
                raise PyRaise(ex)
        self.comp(n.generators, e2, mod, emit, outer=env)
        return out

    def ev_Lambda(self, n, env, mod):
        return self.make_func(n, env, mod, "<lambda>")

    def ev_NamedExpr(self, n, env, mod):
        v = self.ev(n.value, env, mod)
        self.store(n.target, v, env, mod)
        return v

    def ev_JoinedStr(self, n, env, mod):
        out = []
        for v in n.values:
            if isinstance(v, ast.Constant):
                out.append(str(v.value))
            elif isinstance(v, ast.FormattedValue):
                out.append(self.ev_FormattedValue(v, env, mod))
            else:
                raise MachUnknown("f-string part")
        return "".join(out)

    def ev_FormattedValue(self, n, env, mod):
        val = self.ev(n.value, env, mod)
        if n.conversion == 114:
            val = repr(val)
        elif n.conversion == 115:
            val = str(val)
        elif n.conversion == 97:
            val = ascii(val)
        spec = self.ev_JoinedStr(n.format_spec, env, mod) if n.format_spec is not None else ""
        try:
            return format(val, spec)
        except Exception as e:
            raise PyRaise(e)

    def gen_frame(self, env):
        e = env
        while e is not None:
            if "$gen" in e.vars:
                return e.vars["$gen"]
            if "$func" in e.vars:
                break
            e = e.parent
        raise MachUnknown("yield outside a generator function")

    def ev_Yield(self, n, env, mod):
        self.tick()
        self.gen_frame(env).append(self.ev(n.value, env, mod) if n.value is not None else None)
        return None

    def ev_YieldFrom(self, n, env, mod):
        out = self.gen_frame(env)
        for v in self.iterate(self.ev(n.value, env, mod)):
            self.tick()
            out.append(v)
        return None

    def ev_Starred(self, n, env, mod):
        raise MachUnknown("starred expression outside a display/call")

    def ev_Call(self, n, env, mod):
        fn = n.func
        if isinstance(fn, ast.Name) and fn.id == "super" and not n.args and not n.keywords and self.find_env("super", env) is None:
            f = self.cur_func(env)
            if f is None or f.owner is None:
                self.raise_(RuntimeError, "super(): no arguments")
            a = f.node.args
            first = (list(getattr(a, "posonlyargs", [])) + list(a.args))
            if not first:
                self.raise_(RuntimeError, "super(): no arguments")
            e = env
            while e is not None and "$func" not in e.vars:
                e = e.parent
            return PSuper(f.owner, e.vars.get(first[0].arg))
        f = self.ev(fn, env, mod)
        args = []
        for a in n.args:
            if isinstance(a, ast.Starred):
                args.extend(self.iterate(self.ev(a.value, env, mod)))
            else:
                args.append(self.ev(a, env, mod))
        kw = {}
        for k in n.keywords:
            if k.arg is None:
                d = self.ev(k.value, env, mod)
                if not isinstance(d, dict):
                    self.raise_(TypeError, "argument after ** must be a mapping")
                for kk, vv in d.items():
                    if kk in kw:
                        self.raise_(TypeError, "got multiple values for keyword argument '%s'" % kk)
                    kw[kk] = vv
            else:
                kw[k.arg] = self.ev(k.value, env, mod)
        return self.call(f, args, kw)


_DUNDER = {ast.Add: "add", ast.Sub: "sub", ast.Mult: "mul", ast.FloorDiv: "floordiv", ast.Mod: "mod", ast.Div: "truediv",
           ast.BitOr: "or", ast.BitAnd: "and", ast.BitXor: "xor", ast.LShift: "lshift", ast.RShift: "rshift", ast.Pow: "pow"}
_CMP_HOST = {ast.Lt: _op.lt, ast.LtE: _op.le, ast.Gt: _op.gt, ast.GtE: _op.ge}
_CMP_DUNDER = {ast.Lt: "__lt__", ast.LtE: "__le__", ast.Gt: "__gt__", ast.GtE: "__ge__"}
_CMP_RDUNDER = {ast.Lt: "__gt__", ast.LtE: "__ge__", ast.Gt: "__lt__", ast.GtE: "__le__"}


# ====================================================== witness evaluation (semantic rules)
#
# The laws of the property are decided by EVALUATING codec.py (with the concrete evaluator above) on witness
# definitions built through the codec's public construction protocol - the one test_codec.py and
# trxd_proto.py use: Field subclasses(name, len=, offset=, mult=, filler=), BitFieldSet(set=(BitField(name,
# bl=, val=) | BitField.Spare(bl=)), order=, len=), Envelope subclasses with STRUCT, Envelope(check_len=),
# .f(name), Sequence(item=), the get_pres / get_len / get_val callbacks, from_bytes / to_bytes, Envelope.c -
# and comparing every outcome with the checker's own reference model of the documented behaviour.  How the
# methods are written (helper methods, loops vs comprehensions, cached tuples, extra assertions, guards that
# only trigger where the original code diverges) does not enter.

LAB_SRC = '''
class Boom(codec.Field):
    """a field whose converters raise what they are told to"""
    def __init__(self, name, exc, **kw):
        codec.Field.__init__(self, name, **kw)
        self.exc = exc
    def _from_bytes(self, vals, data):
        raise self.exc
    def _to_bytes(self, vals):
        raise self.exc

class Probe(codec.Field):
    """records what the base class hands to the decoder, emits what it is told to"""
    def __init__(self, name, out=b'', **kw):
        codec.Field.__init__(self, name, **kw)
        self.out = out
        self.seen = []
        self.asked = 0
    def _from_bytes(self, vals, data):
        self.seen.append(bytes(data))
        vals[self.name] = bytes(data)
    def _to_bytes(self, vals):
        self.asked += 1
        return self.out
'''

INT_TABLE = {"Uint": (1, "big", False), "Int": (1, "big", True),
             "Uint16BE": (2, "big", False), "Uint16LE": (2, "little", False),
             "Uint32BE": (4, "big", False), "Uint32LE": (4, "little", False),
             "Int16BE": (2, "big", True), "Int16LE": (2, "little", True),
             "Int32BE": (4, "big", True), "Int32LE": (4, "little", True)}


class RefErr(Exception):
    def __init__(self, *classes):
        Exception.__init__(self, classes)
        self.classes = classes


# ---- reference model (the documented behaviour of the building blocks) ----------------------------------

class RField:
    kind = "field"

    def __init__(self, name, len=0, pres=None, getlen=None, getval=None):
        self.name, self.len, self.pres, self.getlen, self.getval = name, len, pres, getlen, getval

    def absent(self, vals):
        return self.pres is not None and self.pres(vals) is False

    def length(self, vals, data):
        if self.getlen is not None:
            return self.getlen(vals, data)
        return len(data) if self.len == 0 else self.len

    def value(self, vals):
        try:
            return self.getval(vals) if self.getval is not None else vals[self.name]
        except KeyError:
            raise RefErr("KeyError")

    def from_bytes(self, vals, data):
        if self.absent(vals):
            return 0
        n = self.length(vals, data)
        if len(data) < n:
            raise RefErr("DecodeError")
        self.dec(vals, data[:n])
        return n

    def to_bytes(self, vals):
        if self.absent(vals):
            return b""
        d = self.enc(vals)
        if self.len > 0 and len(d) != self.len:
            raise RefErr("EncodeError")
        return d

    def apply_callbacks(self, lab, obj):
        for attr, cb in (("get_pres", self.pres), ("get_len", self.getlen), ("get_val", self.getval)):
            if cb is not None:
                lab.m.setattr_(obj, attr, cb)
        return obj


class RInt(RField):
    def __init__(self, cls, name, len=None, offset=0, mult=1, **kw):
        RField.__init__(self, name, len if len is not None else INT_TABLE[cls][0], **kw)
        self.cls, self.kwlen, self.offset, self.mult = cls, len, offset, mult
        self.bo, self.sign = INT_TABLE[cls][1], INT_TABLE[cls][2]

    def build(self, lab):
        kw = {}
        if self.kwlen is not None:
            kw["len"] = self.kwlen
        if self.offset != 0:
            kw["offset"] = self.offset
        if self.mult != 1:
            kw["mult"] = self.mult
        return self.apply_callbacks(lab, lab.new(self.cls, self.name, **kw))

    def dec(self, vals, data):
        vals[self.name] = int.from_bytes(data, self.bo, signed=self.sign) * self.mult + self.offset

    def enc(self, vals):
        raw = (self.value(vals) - self.offset) // self.mult
        try:
            return raw.to_bytes(self.len, self.bo, signed=self.sign)
        except OverflowError:
            raise RefErr("OverflowError", "EncodeError")

    def __repr__(self):
        return "%s(%r%s%s%s%s)" % (self.cls, self.name, ", len=%d" % self.kwlen if self.kwlen is not None else "",
                                   ", offset=%d" % self.offset if self.offset else "", ", mult=%d" % self.mult if self.mult != 1 else "",
                                   ", get_pres=<cb>" if self.pres else "")


class RBuf(RField):
    def build(self, lab):
        kw = {"len": self.len} if self.len else {}
        return self.apply_callbacks(lab, lab.new("Buf", self.name, **kw))

    def dec(self, vals, data):
        vals[self.name] = data

    def enc(self, vals):
        return self.value(vals)

    def __repr__(self):
        return "Buf(%r%s%s%s)" % (self.name, ", len=%d" % self.len if self.len else "", ", get_len=<cb>" if self.getlen else "",
                                  ", get_pres=<cb>" if self.pres else "")


class RSpare(RField):
    def __init__(self, name, len=0, filler=None, **kw):
        RField.__init__(self, name, len, **kw)
        self.filler = filler

    def build(self, lab):
        kw = {"len": self.len} if self.len else {}
        if self.filler is not None:
            kw["filler"] = self.filler
        return self.apply_callbacks(lab, lab.new("Spare", self.name, **kw))

    def dec(self, vals, data):
        pass

    def enc(self, vals):
        return (self.filler if self.filler is not None else b"\x00") * self.length(vals, b"")

    def __repr__(self):
        return "Spare(%r%s%s%s%s)" % (self.name, ", len=%d" % self.len if self.len or self.getlen is None else "",
                                      ", filler=%r" % self.filler if self.filler is not None else "", ", get_len=<cb>" if self.getlen else "",
                                      ", get_pres=<cb>" if self.pres else "")


class RBits(RField):
    """fields: [(name | None for a spare, bit length, fixed value | None)]"""

    def __init__(self, fields, order=None, len=0):
        self.fields, self.order, self.kwlen = fields, order, len
        fs = list(fields)[::-1] if order in ("little", "lsb") else list(fields)
        total = sum(f[1] for f in fs)
        n = len or -(-total // 8)
        RField.__init__(self, "<set>", n)
        self.overflow = total > 8 * n
        rem = 8 * n
        self.lay = []
        for name, bl, val in fs:
            self.lay.append((name, rem - bl, (1 << bl) - 1, val))
            rem -= bl

    def build(self, lab):
        fs = []
        for name, bl, val in self.fields:
            if name is None:
                fs.append(lab.new("BitField.Spare", bl=bl))
            elif val is not None:
                fs.append(lab.new("BitField", name, bl=bl, val=val))
            else:
                fs.append(lab.new("BitField", name, bl=bl))
        kw = {"set": tuple(fs)}
        if self.order is not None:
            kw["order"] = self.order
        if self.kwlen:
            kw["len"] = self.kwlen
        return lab.new("BitFieldSet", **kw)

    def dec(self, vals, data):
        blob = int.from_bytes(data, "big")
        for name, off, mask, val in self.lay:
            if name is None:
                continue
            vals[name] = (blob >> off) & mask
            if val is not None and vals[name] != val:
                raise RefErr("DecodeError")

    def enc(self, vals):
        blob = 0
        for name, off, mask, val in self.lay:
            if name is None:
                continue
            if val is None and name not in vals:
                raise RefErr("KeyError")
            blob |= ((val if val is not None else vals[name]) & mask) << off
        return blob.to_bytes(self.len, "big")

    def __repr__(self):
        return "BitFieldSet(set=(%s)%s%s)" % (", ".join("Spare(%d)" % bl if n is None else "%s:%d%s" % (n, bl, "=%d" % v if v is not None else "")
                                                         for n, bl, v in self.fields),
                                              ", order=%r" % self.order if self.order is not None else "", ", len=%d" % self.kwlen if self.kwlen else "")


class REnv:
    def __init__(self, fields, check_len=True, name="W"):
        self.fields, self.check_len, self.name = fields, check_len, name

    def build(self, lab, check_len=_MISSING):
        cls = PClass(lab.m, self.name, [lab.cls("Envelope")], {"STRUCT": tuple(f.build(lab) for f in self.fields)})
        cl = self.check_len if check_len is _MISSING else check_len
        return lab.m.call(cls, [], {} if cl else {"check_len": False})

    def decode(self, vals, data, offset=0):
        try:
            for f in self.fields:
                offset += f.from_bytes(vals, data[offset:])
        except Exception:
            raise RefErr("DecodeError")
        if self.check_len and len(data) != offset:
            raise RefErr("DecodeError")
        return offset

    def encode(self, vals):
        try:
            return b"".join(f.to_bytes(vals) for f in self.fields)
        except Exception:
            raise RefErr("EncodeError")

    def __repr__(self):
        return "Envelope%s(%s)" % ("" if self.check_len else "[check_len=False]", ", ".join(repr(f) for f in self.fields))


class REnvF(RField):
    def __init__(self, env, name, len=0, **kw):
        RField.__init__(self, name, len, **kw)
        self.env = env

    def build(self, lab):
        e = self.env.build(lab)
        kw = {"len": self.len} if self.len else {}
        return self.apply_callbacks(lab, lab.m.call(lab.m.getattr_(e, "f"), [self.name], kw))

    def dec(self, vals, data):
        vals[self.name] = {}
        self.env.decode(vals[self.name], data)

    def enc(self, vals):
        return self.env.encode(self.value(vals))

    def __repr__(self):
        return "%r.f(%r%s%s%s)" % (self.env, self.name, ", len=%d" % self.len if self.len else "", ", get_len=<cb>" if self.getlen else "",
                                   ", get_pres=<cb>" if self.pres else "")


class RSeqF(RField):
    def __init__(self, item, name, len=0, **kw):
        RField.__init__(self, name, len, **kw)
        self.item = item
        self.item.check_len = False          # Sequence switches its item's tail check off

    def build_seq(self, lab):
        return lab.new("Sequence", item=self.item.build(lab, check_len=True))

    def build(self, lab):
        s = self.build_seq(lab)
        kw = {"len": self.len} if self.len else {}
        return self.apply_callbacks(lab, lab.m.call(lab.m.getattr_(s, "f"), [self.name], kw))

    def dec_list(self, data):
        out, off = [], 0
        while off < len(data):
            out.append({})
            n = self.item.decode(out[-1], data[off:])
            if n == 0:
                raise RefErr("<diverges>")
            off += n
        return out

    def dec(self, vals, data):
        vals[self.name] = self.dec_list(data)

    def enc(self, vals):
        return b"".join(self.item.encode(v) for v in self.value(vals))

    def __repr__(self):
        return "Sequence(item=%r).f(%r)" % (self.item, self.name)


# ---- the laboratory ------------------------------------------------------------------------------------

class Lab:
    FUEL = 120000            # per evaluated call
    BUILD_FUEL = 2000000      # for building witness definitions between evaluations

    def __init__(self, repo):
        self.repo = repo
        self.m = Mach(repo, fuel=self.BUILD_FUEL)
        self.codec = self.m.module("codec")
        self.aux = self.m.exec_source(LAB_SRC, "<c16 witnesses>", {"codec": self.codec})
        self.evals = 0

    def cls(self, path):
        v = self.codec
        for p in path.split("."):
            v = self.m.getattr_(v, p)
        if not isinstance(v, PClass):
            raise MachUnknown("codec.%s is not a class" % path)
        return v

    def new(self, path, *args, **kw):
        c = self.aux.ns[path] if path in self.aux.ns else self.cls(path)
        return self.m.call(c, list(args), kw)

    def run(self, thunk):
        """outcome of one evaluation: ('ok', value) | ('raise', class name) | ('timeout',)"""
        if Family.current is not None and Family.current.bad is not None:
            return ("skipped",)
        self.m.fuel = self.FUEL
        self.m.depth = 0
        self.m.exc_stack = []
        self.evals += 1
        try:
            return ("ok", thunk())
        except PyRaise as e:
            return ("raise", e.cls_name)
        except MachTimeout:
            return ("timeout",)
        except RecursionError:
            raise MachUnknown("recursion too deep")
        finally:
            self.m.fuel = self.BUILD_FUEL
            self.m.depth = 0

    def meth(self, obj, name, *args, **kw):
        return self.m.call(self.m.getattr_(obj, name), list(args), kw)

    # field level
    def f_dec(self, f, data, vals=None):
        def go():
            v = dict(vals or {})
            n = self.meth(f, "from_bytes", v, data)
            return (norm(v), n)
        return self.run(go)

    def f_enc(self, f, vals):
        return self.run(lambda: norm(self.meth(f, "to_bytes", dict(vals))))

    # envelope level (public API: from_bytes(data) fills .c and returns the consumed length; to_bytes() encodes .c)
    def e_dec(self, e, data):
        def go():
            n = self.meth(e, "from_bytes", data)
            return (norm(self.m.getattr_(e, "c")), n)
        return self.run(go)

    def e_enc(self, e, vals):
        def go():
            self.m.setattr_(e, "c", clone_vals(vals))
            return norm(self.meth(e, "to_bytes"))
        return self.run(go)


def norm(v, _stack=()):
    """comparable copy of a decoded value (a structure that contains itself is cut at the cycle)"""
    if isinstance(v, (bytearray, memoryview)):
        return bytes(v)
    if isinstance(v, (dict, list, tuple)):
        if id(v) in _stack or len(_stack) > 40:
            return "<cycle>"
        st = _stack + (id(v),)
        if isinstance(v, dict):
            return {k: norm(x, st) for k, x in v.items()}
        if isinstance(v, list):
            return [norm(x, st) for x in v]
        return tuple(norm(x, st) for x in v)
    return v


def clone_vals(v):
    if isinstance(v, dict):
        return {k: clone_vals(x) for k, x in v.items()}
    if isinstance(v, list):
        return [clone_vals(x) for x in v]
    return v


def ref_fdec(r, data, vals=None):
    v = dict(vals or {})
    out = ref_out(lambda: r.from_bytes(v, data))
    return ("ok", (v, out[1])) if out[0] == "ok" else out


def ref_out(thunk):
    try:
        return ("ok", thunk())
    except RefErr as e:
        return ("raise",) + tuple(e.classes)


def agree(got, want):
    """does the evaluated outcome agree with the reference outcome (a reference rejection may allow several classes)"""
    if want[0] == "ok":
        return got == want
    return got[0] == "raise" and got[1] in want[1:]


def fmt_out(o):
    if o[0] == "ok":
        s = repr(o[1])
        return "-> " + (s if len(s) <= 120 else s[:117] + "...")
    if o[0] == "raise":
        return "raises " + " | ".join(o[1:])
    return "does not terminate (step budget exhausted)"


class _Refused:
    """which witness definitions the code refused at definition time, per building block"""

    def __init__(self):
        self.left, self.gone = {}, {}

    def build(self, r, lab):
        """the codec object of witness definition r, or None when the code refuses the definition at DEFINITION time
        with its own ProtocolError: a definition the code refuses to build takes part in no encoding or decoding, so it
        is no counterexample to an encode / decode law (witness not applicable)"""
        k = type(r).__name__
        try:
            obj = r.build(lab)
        except PyRaise as ex:
            if ex.cls_name != "ProtocolError":
                raise
            self.gone[k] = self.gone.get(k, 0) + 1
            self.left.setdefault(k, 0)
            return None
        self.left[k] = self.left.get(k, 0) + 1
        return obj

    def close(self, fam):
        """a building block none of whose witnesses is left has not been decided"""
        none = sorted(k[1:] for k, n in self.left.items() if n == 0)
        if none and fam.unknown is None:
            fam.unknown = "every %s witness definition is refused at definition time (ProtocolError)" % " / ".join(none)


class Family:
    """one obligation: a law evaluated over a family of witnesses; found = first counterexample"""

    current = None      # the family under evaluation: once it has a counterexample its remaining witnesses are not evaluated

    def __init__(self, rule, func, key):
        Family.current = self
        self.rule, self.func, self.key = rule, func, key
        self.n = 0
        self.bad = None
        self.unknown = None
        self.optional = False      # an optional family that cannot be evaluated does not withhold the verdict

    def check(self, what, got, want):
        self.n += 1
        if self.bad is None and not agree(got, want):
            self.bad = "%s: codec %s, documented behaviour %s" % (what, fmt_out(got), fmt_out(want))

    def fail(self, text):
        self.n += 1
        if self.bad is None:
            self.bad = text

    def ok(self):
        self.n += 1


def bit_vectors(fields):
    """value assignments for a bit-field set: boundary patterns, one field saturated at a time, over-wide values"""
    named = [(n, bl) for n, bl, v in fields if n is not None]
    out = [{n: 0 for n, bl in named}, {n: (1 << bl) - 1 for n, bl in named},
           {n: (0xAAAAAAAAAAAAAAAA >> 3) & ((1 << bl) - 1) for n, bl in named},
           {n: 0x5555555555555555 & ((1 << bl) - 1) for n, bl in named}]
    for i, (n, bl) in enumerate(named):
        v = {m: 0 for m, _ in named}
        v[n] = (1 << bl) - 1
        out.append(v)
        v = {m: (1 << b) - 1 for m, b in named}
        v[n] = 0
        out.append(v)
        v = {m: 0 for m, _ in named}
        v[n] = 1
        out.append(v)
    wide = [{n: ((1 << bl) - 1) + (1 << bl) * 5 for n, bl in named},          # all bits set below and above the width
            {n: (1 << bl) for n, bl in named}]                                 # only the first bit above the width
    for i, (n, bl) in enumerate(named):
        v = {m: 0 for m, _ in named}
        v[n] = (1 << (bl + 3)) | 1
        wide.append(v)
    return out, wide


BIT_LAYOUTS = [
    ([("a", 8, None)], 0), ([("a", 4, None), ("b", 4, None)], 0), ([("a", 1, None), ("b", 7, None)], 0),
    ([("f4", 4, None), ("f1", 1, None), ("f3", 3, None)], 0),
    ([("f4a", 4, None), ("f8", 8, None), ("f4b", 4, None)], 0),
    ([("a", 3, None), ("b", 5, None), ("c", 8, None)], 0),
    ([("f1", 1, None), ("f2", 2, None)], 0),
    ([("f12", 12, None), ("f4", 4, None), ("f2", 2, None)], 0),
    ([("a", 7, None)], 0), ([("a", 9, None)], 0), ([("a", 32, None)], 0),
    ([("b%d" % i, 1, None) for i in range(8)], 0),
    ([(None, 4, None), ("f4", 4, None)], 0),
    ([("f4", 4, None), (None, 1, None), ("f3", 3, None)], 0),
    ([("v", 4, 2), ("z", 1, 0), ("f3", 3, None)], 0),
    ([("ver", 4, 0), (None, 1, None), ("tn", 3, None)], 0),
    ([("ver", 4, 2), (None, 1, None), ("tn", 3, None), ("batch", 1, None), (None, 1, None), ("trxn", 6, None)], 0),
    ([("ver", 4, None), ("flag", 1, None)], 2),
    ([("a", 4, None), ("b", 4, None)], 3),
    ([("a", 5, None), ("b", 12, None), (None, 3, None), ("c", 6, None), ("d", 6, None)], 0),
    ([("x", 13, None), ("y", 11, None)], 0),
    ([("p", 2, None), (None, 3, None), ("q", 10, 0x2AA), ("r", 2, None)], 0),
]
BIT_ORDERS = [None, "big", "msb", "little", "lsb"]


def w_bits(lab, fams):
    for fields, ln in BIT_LAYOUTS:
        for order in BIT_ORDERS:
            r = RBits(fields, order, ln)
            fam = Family("C16.R1", "BitFieldSet", "bit-field set %r: offsets/masks follow the declared order from the most significant end, "
                         "to_bytes = OR of (value & mask) << offset emitted big-endian in ceil(bits/8) octets (or the given length), fixed values are "
                         "encoded and checked (DecodeError), spares encode 0 and are ignored, from_bytes(to_bytes(v)) == v, over-wide values are "
                         "truncated without touching neighbours" % (r,))
            fams.append(fam)
            try:
                built = lab.run(lambda: r.build(lab))
                if built[0] != "ok":
                    fam.fail("the definition is rejected: %s" % fmt_out(built))
                    continue
                s = built[1]
                normal, wide = bit_vectors(fields)
                pad = b"\xee\xee\xee"
                seen = set()
                for vals in normal + wide:
                    want = ref_out(lambda: r.to_bytes(vals))
                    fam.check("to_bytes(%r)" % (vals,), lab.f_enc(s, vals), want)
                    if want[0] == "ok" and want[1] not in seen:
                        seen.add(want[1])
                        fam.check("from_bytes(%r + 3 further octets)" % (want[1],), lab.f_dec(s, want[1] + pad), ref_fdec(r, want[1] + pad))
                for pat in (b"\x00", b"\xff", b"\xa5", b"\x5a", b"\x01\x23\x45\x67", b"\x80\x00\x00\x01", b"\xfe\xdc\xba\x98"):
                    data = (pat * 4)[:r.len]
                    if data in seen:
                        continue
                    seen.add(data)
                    wd = ref_fdec(r, data)
                    fam.check("from_bytes(%r)" % (data,), lab.f_dec(s, data), wd)
                    if wd[0] == "ok":
                        fam.check("to_bytes(from_bytes(%r)) reproduces the canonical octets" % (data,), lab.f_enc(s, wd[1][0]), ("ok", r.to_bytes(wd[1][0])))
                fam.check("from_bytes(%d octets: short input)" % (r.len - 1), lab.f_dec(s, b"\x00" * (r.len - 1)), ("raise", "DecodeError"))
            except MachUnknown as e:
                fam.unknown = str(e)
            except PyRaise as e:
                fam.fail("a witness definition or its evaluation raises %s outside any modelled outcome" % e.cls_name)
            except MachTimeout:
                fam.fail("a witness definition or its evaluation does not terminate (step budget exhausted)")
    # definition-time rejections
    fam = Family("C16.R1", "BitFieldSet.__init__", "a bit-field set whose fields do not fit the given length is rejected when it is defined")
    fams.append(fam)
    try:
        for fields, ln in (([("f6", 6, None), ("f4", 4, None)], 1), ([("a", 9, None)], 1), ([("a", 8, None), ("b", 8, None), ("c", 1, None)], 2)):
            for order in (None, "lsb"):
                r = RBits(fields, order, ln)
                got = lab.run(lambda: r.build(lab))
                if got[0] == "ok":
                    fam.fail("%r is accepted" % (r,))
                elif got[0] == "timeout":
                    fam.fail("%r: definition does not terminate" % (r,))
                else:
                    fam.ok()
    except MachUnknown as e:
        fam.unknown = str(e)
    except PyRaise as e:
        fam.fail("a witness definition or its evaluation raises %s outside any modelled outcome" % e.cls_name)
    except MachTimeout:
        fam.fail("a witness definition or its evaluation does not terminate (step budget exhausted)")


def int_raws(n, signed):
    lo, hi = (-(1 << (8 * n - 1)), (1 << (8 * n - 1)) - 1) if signed else (0, (1 << (8 * n)) - 1)
    pat = int.from_bytes(bytes(range(1, n + 1)), "big")
    cand = {lo, lo + 1, 0, 1, 2, 0x7f, 0x80, 0xff, 0x100, hi - 1, hi, hi // 2, hi // 2 + 1, pat, (1 << 53) + 1, (1 << 63) - 1, (1 << 62) + 3}
    if signed:
        cand |= {-1, -2, -0x80, -0x81, -pat, lo // 2, -((1 << 53) + 1)}
    return sorted(x for x in cand if lo <= x <= hi), [lo - 1, hi + 1, hi + 2 + (1 << 8 * n)] + ([-1] if not signed else [])


INT_WIDTHS = [(c, None) for c in sorted(INT_TABLE)] + [(c, n) for c in ("Uint", "Int") for n in (2, 3, 4, 5, 6, 7, 8)] + \
    [("Uint16LE", 3), ("Int32LE", 8), ("Uint32BE", 2)]
INT_TRANSFORMS = [(0, 1), (0, -1), (5, 1), (-3, 4), (100, -2)]


def w_ints(lab, fams):
    for cls, kwlen in INT_WIDTHS:
        n0, bo, sg = INT_TABLE[cls]
        n = kwlen or n0
        fam = Family("C16.R2", cls, "integer field %s%s (%d octet(s), %s-endian, %s): for offset/mult in %s and boundary raw values, "
                     "to_bytes(raw*mult+offset) is the raw integer in that width/order/sign, from_bytes of those octets returns the value "
                     "consuming exactly %d octet(s), and an unencodable value is rejected with EncodeError by the envelope" % (
                         cls, "(len=%d)" % kwlen if kwlen else "", n, bo, "signed" if sg else "unsigned", INT_TRANSFORMS, n))
        fams.append(fam)
        try:
            for off, mult in INT_TRANSFORMS:
                r = RInt(cls, "x", kwlen, off, mult)
                built = lab.run(lambda: r.build(lab))
                if built[0] != "ok":
                    fam.fail("%r: the definition is rejected: %s" % (r, fmt_out(built)))
                    continue
                f = built[1]
                good, bad = int_raws(n, sg)
                for raw in good:
                    v = raw * mult + off
                    octets = raw.to_bytes(n, bo, signed=sg)
                    fam.check("%r.to_bytes({x: %d})" % (r, v), lab.f_enc(f, {"x": v}), ("ok", octets))
                    fam.check("%r.from_bytes(%r + 2 further octets)" % (r, octets), lab.f_dec(f, octets + b"\xee\xee"), ("ok", ({"x": v}, n)))
                env = REnv([r])
                e = env.build(lab)
                for raw in bad:
                    v = raw * mult + off
                    fam.check("Envelope(%r).to_bytes() with x = %d (raw %d does not fit)" % (r, v, raw), lab.e_enc(e, {"x": v}), ("raise", "EncodeError"))
                fam.check("%r.from_bytes(%d octets: short input)" % (r, n - 1), lab.f_dec(f, b"\x01" * (n - 1)), ("raise", "DecodeError"))
        except MachUnknown as e:
            fam.unknown = str(e)
        except PyRaise as e:
            fam.fail("a witness definition or its evaluation raises %s outside any modelled outcome" % e.cls_name)
        except MachTimeout:
            fam.fail("a witness definition or its evaluation does not terminate (step budget exhausted)")


def dec_pair(ref_env, data):
    vals = {}
    out = ref_out(lambda: ref_env.decode(vals, data))
    return ("ok", (vals, out[1])) if out[0] == "ok" else out


def w_length(lab, fams):
    m = lab.m
    # --- Field.from_bytes / to_bytes ------------------------------------------------------------------
    fam = Family("C16.R3", "Field.from_bytes", "a field decodes exactly the octets its length rule declares: data[:length] goes to the decoder, "
                 "length is returned, fewer octets than declared are rejected with DecodeError (exactly `length` octets are enough)")
    fams.append(fam)
    try:
        for ln in (1, 2, 5):
            for avail in (0, ln - 1, ln, ln + 1, ln + 7):
                data = bytes(range(0x30, 0x30 + avail))
                for mk in ("Buf", "Probe"):
                    f = lab.new(mk, "b", len=ln)
                    want = ("ok", ({"b": data[:ln]}, ln)) if avail >= ln else ("raise", "DecodeError")
                    fam.check("%s('b', len=%d).from_bytes(%d octets)" % (mk, ln, avail), lab.f_dec(f, data), want)
        for avail in (0, 1, 9):
            data = bytes(range(0x41, 0x41 + avail))
            f = lab.new("Buf", "b")
            fam.check("Buf('b').from_bytes(%d octets) [flexible length: all of them]" % avail, lab.f_dec(f, data), ("ok", ({"b": data}, avail)))
        for want_len in (0, 1, 3, 4):
            for avail in (3, 4, 10):
                data = bytes(range(0x61, 0x61 + avail))
                f = lab.new("Probe", "b")
                m.setattr_(f, "get_len", lambda vals, d, n=want_len: n)
                want = ("ok", ({"b": data[:want_len]}, want_len)) if avail >= want_len else ("raise", "DecodeError")
                fam.check("Probe('b') with get_len -> %d, from_bytes(%d octets)" % (want_len, avail), lab.f_dec(f, data), want)
    except MachUnknown as e:
        fam.unknown = str(e)
    except PyRaise as e:
        fam.fail("a witness definition or its evaluation raises %s outside any modelled outcome" % e.cls_name)
    except MachTimeout:
        fam.fail("a witness definition or its evaluation does not terminate (step budget exhausted)")
    fam = Family("C16.R3", "Field.to_bytes", "a field of fixed length whose encoder yields another number of octets is rejected with EncodeError; "
                 "otherwise the encoder's octets are returned unchanged")
    fams.append(fam)
    try:
        for ln in (0, 1, 2, 4):
            for out in (b"", b"A", b"AB", b"ABC", b"ABCD", b"ABCDE"):
                f = lab.new("Probe", "b", out, **({"len": ln} if ln else {}))
                want = ("ok", out) if ln == 0 or len(out) == ln else ("raise", "EncodeError")
                fam.check("Probe('b'%s) encoding to %d octet(s): to_bytes()" % (", len=%d" % ln if ln else "", len(out)), lab.f_enc(f, {}), want)
                g = lab.new("Buf", "b", **({"len": ln} if ln else {}))
                fam.check("Buf('b'%s).to_bytes({b: %r})" % (", len=%d" % ln if ln else "", out), lab.f_enc(g, {"b": out}), want)
    except MachUnknown as e:
        fam.unknown = str(e)
    except PyRaise as e:
        fam.fail("a witness definition or its evaluation raises %s outside any modelled outcome" % e.cls_name)
    except MachTimeout:
        fam.fail("a witness definition or its evaluation does not terminate (step budget exhausted)")
    # --- envelopes ---------------------------------------------------------------------------------------
    tlv = lambda: [RInt("Uint", "t"), RInt("Uint16BE", "len"), RBuf("v", getlen=lambda v, d: v["len"])]
    compositions = [
        REnv([RInt("Uint", "a"), RInt("Uint16LE", "b"), RBuf("c", 3), RSpare("pad", 2), RInt("Int32BE", "d", mult=-1)]),
        REnv([RBits([("ver", 4, 1), (None, 1, None), ("tn", 3, None)]), RInt("Uint32BE", "fn"), RInt("Uint", "rssi", mult=-1), RInt("Int16BE", "toa"), RBuf("bits")]),
        REnv(tlv()),
        REnv(tlv() + [RBuf("tail", 2)]),
        REnv([RInt("Uint", "n"), REnvF(REnv([RInt("Uint16BE", "x"), RBuf("y", 2)]), "inner", 4), RBuf("rest")]),
        REnv([RInt("Uint", "n"), REnvF(REnv(tlv()), "inner", getlen=lambda v, d: v["n"]), RInt("Uint", "z")]),
        REnv([REnvF(REnv([REnvF(REnv([RInt("Int16LE", "deep"), RBits([("p", 3, None), ("q", 5, None)], "lsb")]), "l3", 3), RInt("Uint", "m")]), "l2", 4), RBuf("t", 1)]),
        REnv([RInt("Uint", "hdr"), RSeqF(REnv(tlv()), "items")]),
        REnv([RInt("Uint", "cnt"), RSeqF(REnv([RInt("Uint16BE", "k"), RInt("Int", "s")]), "items", getlen=lambda v, d: 3 * v["cnt"]), RBuf("trail")]),
        REnv([RSeqF(REnv([RBits([("more", 1, None), ("id", 7, None)]), RSeqF(REnv([RInt("Uint", "e")]), "sub", 2)]), "outer")]),
    ]
    values = [
        [{"a": 7, "b": 0x1234, "c": b"xyz", "d": -5}, {"a": 255, "b": 0, "c": b"\x00\x01\x02", "d": 0x7fffffff}],
        [{"tn": 5, "fn": 0x01020304, "rssi": -110, "toa": -3, "bits": bytes(range(20))}, {"tn": 0, "fn": 0, "rssi": 0, "toa": 32767, "bits": b""}],
        [{"t": 1, "len": 4, "v": b"abcd"}, {"t": 2, "len": 0, "v": b""}],
        [{"t": 1, "len": 3, "v": b"abc", "tail": b"TT"}],
        [{"n": 9, "inner": {"x": 513, "y": b"hi"}, "rest": b"more"}, {"n": 0, "inner": {"x": 0, "y": b"\xff\xff"}, "rest": b""}],
        [{"n": 6, "inner": {"t": 3, "len": 3, "v": b"abc"}, "z": 1}, {"n": 3, "inner": {"t": 0, "len": 0, "v": b""}, "z": 255}],
        [{"l2": {"l3": {"deep": -2, "p": 5, "q": 17}, "m": 200}, "t": b"!"}],
        [{"hdr": 1, "items": [{"t": 1, "len": 2, "v": b"ab"}, {"t": 2, "len": 0, "v": b""}, {"t": 3, "len": 5, "v": b"hello"}]}, {"hdr": 0, "items": []},
         {"hdr": 2, "items": [{"t": 9, "len": 1, "v": b"z"}]}],
        [{"cnt": 2, "items": [{"k": 1, "s": -1}, {"k": 65535, "s": 127}], "trail": b"tr"}, {"cnt": 0, "items": [], "trail": b""}],
        [{"outer": [{"more": 1, "id": 3, "sub": [{"e": 1}, {"e": 2}]}, {"more": 0, "id": 127, "sub": [{"e": 0}, {"e": 255}]}]}],
    ]
    for ref, vs in zip(compositions, values):
        fam = Family("C16.R3", "Envelope", "composition %r: to_bytes() is the concatenation of the fields' octets, from_bytes(to_bytes(v)) returns v and "
                     "consumes exactly len(octets), to_bytes(from_bytes(octets)) reproduces the octets, a truncated datagram and trailing octets "
                     "(tail check on) are rejected with DecodeError, with the tail check off exactly the declared octets are consumed" % (ref,))
        fams.append(fam)
        try:
            built = lab.run(lambda: ref.build(lab))
            if built[0] != "ok":
                fam.fail("the definition is rejected: %s" % fmt_out(built))
                continue
            e = built[1]
            loose = lab.run(lambda: ref.build(lab, check_len=False))[1]
            flexible_tail = isinstance(ref.fields[-1], (RBuf, RSeqF, REnvF)) and ref.fields[-1].len == 0 and ref.fields[-1].getlen is None
            for v in vs:
                want = ref_out(lambda: ref.encode(v))
                fam.check("to_bytes() of %r" % (v,), lab.e_enc(e, v), want)
                if want[0] != "ok":
                    continue
                octets = want[1]
                back = dec_pair(ref, octets)
                if back[0] != "ok" or back[1][1] != len(octets) or any(back[1][0].get(k) != x for k, x in v.items()):
                    raise AnalysisError("internal: reference model is not an inverse pair on %r" % (ref,))
                fam.check("from_bytes(%r)" % (octets,), lab.e_dec(e, octets), back)
                got = lab.e_dec(e, octets)
                if got[0] == "ok":
                    fam.check("to_bytes() of what from_bytes(%r) returned" % (octets,), lab.run(lambda: norm(lab.meth(e, "to_bytes"))), ("ok", octets))
                for cut in sorted({len(octets) - 1, len(octets) // 2, 1, 0}):
                    if 0 <= cut < len(octets):
                        fam.check("from_bytes(first %d of %d octets)" % (cut, len(octets)), lab.e_dec(e, octets[:cut]), dec_pair(ref, octets[:cut]))
                if not flexible_tail:
                    ref.check_len = True
                    fam.check("from_bytes(octets + 2 trailing octets), tail check on", lab.e_dec(e, octets + b"\xee\xee"), dec_pair(ref, octets + b"\xee\xee"))
                    ref.check_len = False
                    fam.check("from_bytes(octets + 2 trailing octets), tail check off", lab.e_dec(loose, octets + b"\xee\xee"), dec_pair(ref, octets + b"\xee\xee"))
                    ref.check_len = True
        except MachUnknown as ex:
            fam.unknown = str(ex)
        except PyRaise as ex:
            fam.fail("a witness definition or its evaluation raises %s outside any modelled outcome" % ex.cls_name)
        except MachTimeout:
            fam.fail("a witness definition or its evaluation does not terminate (step budget exhausted)")


def w_nesting(lab, fams):
    """lengths chain through nested envelopes: the wrapper field declares how many octets the nested envelope gets, the
    nested envelope (tail check on) must use all of them, the enclosing envelope advances by the wrapper's length"""
    inner3 = lambda chk=True: REnv([RInt("Uint16BE", "id"), RInt("Uint", "flags")], check_len=chk, name="Inner")
    cases = [
        (REnv([RInt("Uint", "a"), REnvF(inner3(), "V", 5), RInt("Uint", "z")]), [bytes(range(1, 8)), bytes(range(1, 6))]),
        (REnv([RInt("Uint", "a"), REnvF(inner3(), "V", 3), RInt("Uint", "z")]), [bytes(range(1, 6)), bytes(range(1, 7))]),
        (REnv([RInt("Uint", "a"), REnvF(inner3(False), "V", 5), RInt("Uint16BE", "y")]), [bytes(range(1, 9)), bytes(range(1, 8)), bytes(range(1, 10))]),
        (REnv([RInt("Uint", "T"), RInt("Uint", "L"), REnvF(inner3(), "V", getlen=lambda v, d: v["L"])]),
         [b"\x40\x03\xaa\xbb\xcc", b"\x40\x05\xaa\xbb\xcc\xdd\xee", b"\x40\x04\xaa\xbb\xcc\xdd", b"\x40\x03\xaa\xbb\xcc\xdd"]),
        (REnv([RInt("Uint", "T"), RInt("Uint", "L"), REnvF(inner3(False), "V", getlen=lambda v, d: v["L"]), RBuf("rest")]),
         [b"\x40\x05\xaa\xbb\xcc\xdd\xee\x11\x22", b"\x40\x03\xaa\xbb\xcc", b"\x40\x02\xaa\xbb\xcc"]),
        (REnv([RInt("Uint", "ver"), REnvF(inner3(), "tail")]), [b"\x01\xaa\xbb\xcc", b"\x01\xaa\xbb\xcc\xdd\xee", b"\x01\xaa\xbb"]),
        (REnv([RInt("Uint", "ver"), REnvF(inner3(False), "tail")]), [b"\x01\xaa\xbb\xcc", b"\x01\xaa\xbb\xcc\xdd\xee"]),
        (REnv([RInt("Uint", "ver"), REnvF(REnv([RInt("Uint", "T"), REnvF(inner3(), "V", 4)], name="Mid"), "tlv", 5), RInt("Uint", "end")]),
         [b"\x01\x40\xaa\xbb\xcc\xdd\x99", b"\x01\x40\xaa\xbb\xcc\xdd"]),
        (REnv([RInt("Uint", "ver"), REnvF(REnv([RInt("Uint", "T"), REnvF(inner3(), "V", 3)], name="Mid"), "tlv", 5), RInt("Uint", "end")]),
         [b"\x01\x40\xaa\xbb\xcc\xdd\x99", b"\x01\x40\xaa\xbb\xcc\xdd"]),
        (REnv([RInt("Uint", "n"), RSeqF(REnv([RInt("Uint", "k"), REnvF(inner3(False), "in", 4)], name="Item"), "items")]),
         [b"\x02" + bytes(range(1, 6)) + bytes(range(0x11, 0x16)), b"\x01" + bytes(range(1, 6)) + b"\x77", b"\x00"]),
        (REnv([RInt("Uint", "n"), RSeqF(REnv([RInt("Uint", "k"), REnvF(inner3(), "in", 4)], name="Item"), "items")]),
         [b"\x02" + bytes(range(1, 6)) + bytes(range(0x11, 0x16))]),
    ]
    for ref, datagrams in cases:
        fam = Family("C16.R3", "Envelope.F", "nested composition %r: the nested envelope gets exactly the octets its wrapper field declares, "
                     "must use all of them when its tail check is on (DecodeError otherwise), and the enclosing envelope advances by the "
                     "wrapper's declared length" % (ref,))
        fams.append(fam)
        try:
            e = ref.build(lab)
            for data in datagrams:
                fam.check("from_bytes(%r)" % (data,), lab.e_dec(e, data), dec_pair(ref, data))
        except MachUnknown as ex:
            fam.unknown = str(ex)
        except PyRaise as ex:
            fam.fail("a witness definition or its evaluation raises %s outside any modelled outcome" % ex.cls_name)
        except MachTimeout:
            fam.fail("a witness definition or its evaluation does not terminate (step budget exhausted)")


FIELD_EXC_HOST = [ValueError, TypeError, KeyError, IndexError, OverflowError, ZeroDivisionError, AttributeError,
                  _struct.error, NotImplementedError]


def w_errors(lab, fams):
    m = lab.m
    fam = Family("C16.R4", "Envelope", "whatever a field raises while a message is decoded / encoded leaves the envelope as the codec's own "
                 "DecodeError / EncodeError (including a nested envelope's and a sequence item's field)")
    fams.append(fam)
    try:
        excs = [(c.__name__, c("boom")) for c in FIELD_EXC_HOST] + [
            ("DecodeError", lab.new("DecodeError", "inner")), ("EncodeError", lab.new("EncodeError", "inner"))]
        for name, exc in excs:
            mk = lambda: [lab.new("Uint", "a"), lab.new("Boom", "x", exc, len=1), lab.new("Uint", "b")]
            cls = PClass(m, "W", [lab.cls("Envelope")], {"STRUCT": tuple(mk())})
            e = m.call(cls, [], {})
            fam.check("from_bytes() over a field raising %s" % name, lab.e_dec(e, b"\x01\x02\x03"), ("raise", "DecodeError"))
            fam.check("to_bytes() over a field raising %s" % name, lab.e_enc(e, {"a": 1, "x": 2, "b": 3}), ("raise", "EncodeError"))
        for name, exc in excs[:4]:
            inner = PClass(m, "Inner", [lab.cls("Envelope")], {"STRUCT": (lab.new("Boom", "x", exc, len=1),)})
            outer = PClass(m, "Outer", [lab.cls("Envelope")], {"STRUCT": (lab.new("Uint", "a"), lab.meth(m.call(inner, [], {}), "f", "in", len=1))})
            e = m.call(outer, [], {})
            fam.check("from_bytes() over a nested envelope whose field raises %s" % name, lab.e_dec(e, b"\x01\x02"), ("raise", "DecodeError"))
            fam.check("to_bytes() over a nested envelope whose field raises %s" % name, lab.e_enc(e, {"a": 1, "in": {"x": 1}}), ("raise", "EncodeError"))
            seq = lab.new("Sequence", item=m.call(inner, [], {}))
            outer = PClass(m, "Outer", [lab.cls("Envelope")], {"STRUCT": (lab.new("Uint", "a"), lab.meth(seq, "f", "s"))})
            e = m.call(outer, [], {})
            fam.check("from_bytes() over a sequence whose item field raises %s" % name, lab.e_dec(e, b"\x01\x02"), ("raise", "DecodeError"))
            fam.check("to_bytes() over a sequence whose item field raises %s" % name, lab.e_enc(e, {"a": 1, "s": [{"x": 1}]}), ("raise", "EncodeError"))
        # rejections that do not come from a stub: missing value, wrong type, callback failure
        ref = REnv([RInt("Uint", "a"), RBuf("b", 2)])
        e = ref.build(lab)
        fam.check("to_bytes() with the value of `b` missing", lab.e_enc(e, {"a": 1}), ("raise", "EncodeError"))
        fam.check("to_bytes() with a = 'text' (not an integer)", lab.e_enc(e, {"a": "text", "b": b"xy"}), ("raise", "EncodeError"))
        fam.check("to_bytes() with a = 256 (does not fit one octet)", lab.e_enc(e, {"a": 256, "b": b"xy"}), ("raise", "EncodeError"))
        fam.check("to_bytes() with a = -1 (unsigned field)", lab.e_enc(e, {"a": -1, "b": b"xy"}), ("raise", "EncodeError"))
        fam.check("to_bytes() with b of 3 octets (fixed length 2)", lab.e_enc(e, {"a": 1, "b": b"xyz"}), ("raise", "EncodeError"))
        ref = REnv([RInt("Uint", "a"), RBuf("b", getlen=lambda v, d: v["missing"])])
        e = ref.build(lab)
        fam.check("from_bytes() where a length callback raises KeyError", lab.e_dec(e, b"\x01\x02\x03"), ("raise", "DecodeError"))
    except MachUnknown as ex:
        fam.unknown = str(ex)
    except PyRaise as ex:
        fam.fail("a witness definition or its evaluation raises %s outside any modelled outcome" % ex.cls_name)
    except MachTimeout:
        fam.fail("a witness definition or its evaluation does not terminate (step budget exhausted)")
    fam = Family("C16.R4", "Field", "the codec's explicit rejections use its own error classes at field level too: short input -> DecodeError, "
                 "length mismatch of a fixed-length field -> EncodeError, fixed bit-field value mismatch -> DecodeError")
    fams.append(fam)
    try:
        fam.check("Buf('b', len=4).from_bytes(3 octets)", lab.f_dec(lab.new("Buf", "b", len=4), b"abc"), ("raise", "DecodeError"))
        fam.check("Uint32BE('x').from_bytes(1 octet)", lab.f_dec(lab.new("Uint32BE", "x"), b"a"), ("raise", "DecodeError"))
        fam.check("Buf('b', len=4).to_bytes({b: 2 octets})", lab.f_enc(lab.new("Buf", "b", len=4), {"b": b"ab"}), ("raise", "EncodeError"))
        r = RBits([("v", 4, 0), ("w", 4, None)])
        fam.check("BitFieldSet(v:4=0, w:4).from_bytes(b'\\x10') [fixed value 0, found 1]", lab.f_dec(r.build(lab), b"\x10"), ("raise", "DecodeError"))
        r = RBits([("v", 4, 9), ("w", 4, None)])
        fam.check("BitFieldSet(v:4=9, w:4).from_bytes(b'\\x0f') [fixed value 9, found 0]", lab.f_dec(r.build(lab), b"\x0f"), ("raise", "DecodeError"))
        for nm in ("DecodeError", "EncodeError"):
            c = lab.cls(nm)
            if not any(b is Exception for b in c.mro):
                fam.fail("codec.%s does not derive from Exception" % nm)
            else:
                fam.ok()
    except MachUnknown as ex:
        fam.unknown = str(ex)
    except PyRaise as ex:
        fam.fail("a witness definition or its evaluation raises %s outside any modelled outcome" % ex.cls_name)
    except MachTimeout:
        fam.fail("a witness definition or its evaluation does not terminate (step budget exhausted)")
    fam = Family("C16.R4", "Spare/Buf", "a spare field ignores its octets on decode (stores nothing, rejects nothing) and encodes as filler * length; "
                 "a buffer stores and returns its octets unchanged")
    fams.append(fam)
    try:
        for ln, fill in ((1, None), (2, None), (4, b"\xaa"), (3, b"\xff")):
            r = RSpare("pad", ln, fill)
            f = r.build(lab)
            fam.check("%r.to_bytes({})" % (r,), lab.f_enc(f, {}), ("ok", (fill or b"\x00") * ln))
            for data in (b"\x00" * ln, b"\xff" * ln, bytes(range(1, ln + 1)) + b"zz"):
                fam.check("%r.from_bytes(%r)" % (r, data), lab.f_dec(f, data), ("ok", ({}, ln)))
        for data in (b"", b"\x00", b"\x01\x02\x03", bytes(range(256))):
            fam.check("Buf('b').from_bytes(%d octets)" % len(data), lab.f_dec(lab.new("Buf", "b"), data), ("ok", ({"b": data}, len(data))))
            fam.check("Buf('b').to_bytes({b: %d octets})" % len(data), lab.f_enc(lab.new("Buf", "b"), {"b": data}), ("ok", data))
    except MachUnknown as ex:
        fam.unknown = str(ex)
    except PyRaise as ex:
        fam.fail("a witness definition or its evaluation raises %s outside any modelled outcome" % ex.cls_name)
    except MachTimeout:
        fam.fail("a witness definition or its evaluation does not terminate (step budget exhausted)")


def _buf_defs():
    """(label, reference definition, value template, path of the buffer value in the template, declared length | 0)"""
    top = REnv([RInt("Uint", "a"), RBuf("key", 4), RBuf("rest")])
    nested = REnv([RInt("Uint", "a"), REnvF(REnv([RBuf("addr", 6), RInt("Uint", "t")], name="Inner"), "in", 7)], name="Outer")
    one = REnv([RBuf("flag", 1), RBuf("rest")])
    seq = REnv([RInt("Uint", "a"), RSeqF(REnv([RBuf("id", 2)], check_len=False, name="Item"), "s")], name="Outer")
    return [("key", top, {"a": 7, "key": None, "rest": b"\xaa\xbb"}, ("key",), 4),
            ("rest", top, {"a": 7, "key": b"\xde\xad\xbe\xef", "rest": None}, ("rest",), 0),
            ("addr", nested, {"a": 1, "in": {"addr": None, "t": 9}}, ("in", "addr"), 6),
            ("flag", one, {"flag": None, "rest": b"xyz"}, ("flag",), 1),
            ("id", seq, {"a": 2, "s": [{"id": b"\x01\x02"}, {"id": None}]}, ("s", 1, "id"), 2)]


def _put(tmpl, path, val):
    v = clone_vals(tmpl)
    cur = v
    for k in path[:-1]:
        cur = cur[k]
    cur[path[-1]] = val
    return v


def w_bufvals(lab, fams):
    """C16.R10 decides the clause `unencodable ... buffer values are rejected with the codec's own EncodeError` together with
    the buffer half of `decoding the encoding of in-range values returns those values`: the value domain of a Buf is octet
    strings.  Every witness is the public Envelope.to_bytes() folded over a definition with the buffer at top level, inside a
    nested envelope, and inside a sequence item; the buffer value ranges over type witnesses.  An octet string (bytes,
    bytearray) of the declared length is emitted unchanged; a value that is not an octet string (an integer equal to the
    declared length, 0, 1, other small integers, True, a float, str, None) is rejected by an exception - no octets
    leave the envelope (were an integer n emitted as n zero octets, decode(encode(v)) != v).  The class of the rejection is
    EncodeError where the field's own length check sees the value; TypeError is accepted where the pinned code lets the
    concatenation reject it.  A memoryview is either emitted as its octets or rejected."""
    fam = Family("C16.R10", "Buf", "the value domain of a buffer is octet strings: bytes / bytearray of the declared length are emitted "
                 "unchanged, a value that is not an octet string (integer, bool, float, str, None) is rejected and never turned into octets")
    fams.append(fam)
    rej = ("raise", "EncodeError", "TypeError")
    try:
        for nm, ref, tmpl, path, ln in _buf_defs():
            e = ref.build(lab)
            n = ln or 3
            good = bytes(range(0x41, 0x41 + n))
            want = ref_out(lambda: ref.encode(_put(tmpl, path, good)))
            if want[0] != "ok":
                raise MachUnknown("reference model rejects an octet string for %r" % (ref,))
            for label, val in (("bytes", good), ("bytearray", bytearray(good))):
                fam.check("%r.to_bytes() with %s = %s of %d octets" % (ref, nm, label, n), lab.e_enc(e, _put(tmpl, path, val)), want)
            got = lab.e_enc(e, _put(tmpl, path, memoryview(good)))
            if got == want or (got[0] == "raise" and got[1] in rej[1:]):
                fam.ok()
            else:
                fam.fail("%r.to_bytes() with %s = memoryview of %d octets: codec %s, documented behaviour %s or a rejection" % (
                    ref, nm, n, fmt_out(got), fmt_out(want)))
            ints = [ln, 0, 1, 2, 255] if ln else [0, 1, 3, 16, 255]
            bad = [("the integer %d%s" % (i, " (equal to the declared length)" if ln and i == ln else ""), i) for i in dict.fromkeys(ints)]
            bad += [("True", True), ("the float %r" % float(n), float(n)), ("the str %r" % ("s" * n), "s" * n), ("None", None)]
            for label, val in bad:
                fam.check("%r.to_bytes() with %s = %s, not an octet string" % (ref, nm, label), lab.e_enc(e, _put(tmpl, path, val)), rej)
    except MachUnknown as ex:
        fam.unknown = str(ex)
    except PyRaise as ex:
        fam.fail("a witness definition or its evaluation raises %s outside any modelled outcome" % ex.cls_name)
    except MachTimeout:
        fam.fail("a witness definition or its evaluation does not terminate (step budget exhausted)")


# ---- decoded buffer values are octet strings of their own; length callbacks see an octet string (C16.R11) ---------

def _octet_leaves(got, want, path=""):
    """(path, decoded value) for every position where the reference value is an octet string"""
    if isinstance(want, (bytes, bytearray)):
        yield path, got
    elif isinstance(want, dict) and isinstance(got, dict):
        for k, x in want.items():
            if k in got:
                for r in _octet_leaves(got[k], x, "%s[%r]" % (path, k)):
                    yield r
    elif isinstance(want, list) and isinstance(got, list):
        for i, (g, x) in enumerate(zip(got, want)):
            for r in _octet_leaves(g, x, "%s[%d]" % (path, i)):
                yield r


def _own_defs():
    """(label, reference: REnv | stand-alone RSeqF, two value assignments whose encodings have the same length)"""
    tlv = lambda: REnv([RInt("Uint", "T"), RInt("Uint", "L"), RBuf("V", getlen=lambda v, d: v["L"])], name="TLV")
    named = lambda: REnv([RInt("Uint", "tag"), RBuf("name", 2)], name="Named")
    return [
        ("stand-alone sequence of TLV items", RSeqF(tlv(), "items"),
         [{"T": 1, "L": 2, "V": b"\xaa\xbb"}, {"T": 2, "L": 3, "V": b"\x01\x02\x03"}],
         [{"T": 7, "L": 3, "V": b"xyz"}, {"T": 8, "L": 2, "V": b"\xfe\xff"}]),
        ("sequence as the flexible last field", REnv([RInt("Uint", "id"), RSeqF(named(), "names")], name="Msg"),
         {"id": 7, "names": [{"tag": 1, "name": b"ab"}, {"tag": 2, "name": b"cd"}]},
         {"id": 9, "names": [{"tag": 5, "name": b"\x00\x01"}, {"tag": 6, "name": b"\xf0\xf1"}]}),
        ("sequence field with a length callback", REnv([RInt("Uint", "n"), RSeqF(named(), "names", getlen=lambda v, d: 3 * v["n"]), RBuf("tail", 2)], name="Cnt"),
         {"n": 2, "names": [{"tag": 1, "name": b"ab"}, {"tag": 2, "name": b"cd"}], "tail": b"TT"},
         {"n": 2, "names": [{"tag": 3, "name": b"\x10\x11"}, {"tag": 4, "name": b"\x12\x13"}], "tail": b"uu"}),
        ("sequence of items holding a sequence", RSeqF(REnv([RInt("Uint", "k"), RSeqF(named(), "in", 6)], name="Outer"), "items"),
         [{"k": 1, "in": [{"tag": 1, "name": b"ab"}, {"tag": 2, "name": b"cd"}]}],
         [{"k": 2, "in": [{"tag": 8, "name": b"\x80\x81"}, {"tag": 9, "name": b"\x82\x83"}]}]),
        ("buffers at top level", REnv([RInt("Uint", "a"), RBuf("key", 4), RBuf("rest")], name="Top"),
         {"a": 1, "key": b"\xde\xad\xbe\xef", "rest": b"rs"}, {"a": 2, "key": b"KEY2", "rest": b"\x00\x01"}),
        ("buffer in a nested envelope", REnv([RInt("Uint", "a"), REnvF(REnv([RBuf("addr", 3), RInt("Uint", "t")], name="Inner"), "in", 4)], name="Outer"),
         {"a": 1, "in": {"addr": b"\x01\x02\x03", "t": 9}}, {"a": 2, "in": {"addr": b"abc", "t": 8}}),
    ]


def _own_codec(lab, ref):
    """(decode thunk factory returning the RAW decoded structure, reference encoder, reference decoder)"""
    if isinstance(ref, RSeqF):
        s = ref.build_seq(lab)
        return (lambda buf: lab.meth(s, "from_bytes", buf)), (lambda v: ref.enc({ref.name: v})), ref.dec_list

    def rdec(data):
        vals = {}
        ref.decode(vals, data)
        return vals
    e = ref.build(lab)

    def dec(buf):
        lab.meth(e, "from_bytes", buf)
        return lab.m.getattr_(e, "c")
    return dec, ref.encode, rdec


def _guarded(fam, body):
    try:
        body()
    except MachUnknown as ex:
        fam.unknown = str(ex)
    except PyRaise as ex:
        fam.fail("a witness definition or its evaluation raises %s outside any modelled outcome" % ex.cls_name)
    except MachTimeout:
        fam.fail("a witness definition or its evaluation does not terminate (step budget exhausted)")


def w_decoded_own(lab, fams):
    """C16.R11 decides the buffer half of the clause `decoding the encoding of in-range values returns those values`
    at value level: the value of a buffer is an octet string, so what decoding returns for it must BE an octet string
    (bytes / bytearray: concatenation, .decode(), hashing of bytes work) that belongs to the result - a decoded message
    is a value, it does not change when the caller's receive buffer is overwritten by the next datagram.  Every
    definition is decoded from a bytes and from a bytearray witness; the bytearray is then overwritten with the
    encoding of a second message of the same length and decoded again: both results must equal the reference.  How
    the decoder walks its input (slices, offsets, views that are converted before they are stored) is not examined."""
    fam = Family("C16.R11", "Buf", "a decoded buffer value is an octet string (bytes / bytearray) of its own: it equals the encoded octets, "
                 "is not a view of the input, and stays what it was when the caller's bytearray is overwritten by the next datagram")
    fams.append(fam)

    def body():
        for label, ref, v1, v2 in _own_defs():
            dec, renc, rdec = _own_codec(lab, ref)
            d1, d2 = renc(v1), renc(v2)
            if len(d1) != len(d2) or rdec(d1) != v1 or rdec(d2) != v2:
                raise AnalysisError("internal: reference model is not an inverse pair on %s" % label)
            for kind in (bytes, bytearray):
                buf = kind(d1)
                what = "%s: %r decoded from %s(%r)" % (label, ref, kind.__name__, d1)
                r1 = lab.run(lambda: dec(buf))
                fam.check(what, ("ok", norm(r1[1])) if r1[0] == "ok" else r1, ("ok", v1))
                if r1[0] != "ok":
                    continue
                odd = [(p, type(x).__name__) for p, x in _octet_leaves(r1[1], v1) if not isinstance(x, (bytes, bytearray))]
                if odd:
                    fam.fail("%s: the buffer value at %s is a %s, not an octet string" % (what, odd[0][0], odd[0][1]))
                else:
                    fam.ok()
                if kind is bytearray:
                    for i, x in enumerate(d2):
                        buf[i] = x
                    if norm(r1[1]) != v1:        # looked at before anything else is decoded through the definition
                        fam.fail("%s: after the caller's bytearray was overwritten with %r the result reads %s (decoded values alias "
                                 "the input buffer)" % (what, d2, _short_txt(norm(r1[1]), 200)))
                    else:
                        fam.ok()
                    r2 = lab.run(lambda: dec(buf))
                    fam.check("%s, then the same bytearray overwritten with %r and decoded" % (what, d2),
                              ("ok", norm(r2[1])) if r2[0] == "ok" else r2, ("ok", v2))
    _guarded(fam, body)
    # length callbacks: get_len(vals, data) is documented as Callable[[dict, bytes], int] - `data` is the octet string
    # that remains, and a variable-length field may find its end in it (terminator search)
    fam2 = Family("C16.R11", "Field.get_len", "a length callback receives the remaining octets as an octet string: a variable-length buffer whose "
                  "get_len searches its terminator with the methods of bytes (index / find / partition) decodes what was encoded - at top "
                  "level, in a nested envelope, in sequence items and in a sequence field")
    fams.append(fam2)
    cbs = [("data.index(NUL) + 1", lambda v, d: d.index(b"\x00") + 1), ("data.find(NUL) + 1", lambda v, d: d.find(b"\x00") + 1),
           ("len(data.partition(NUL)[0]) + 1", lambda v, d: len(d.partition(b"\x00")[0]) + 1)]

    def body2():
        for cbn, cb in cbs:
            cstr = lambda: REnv([RInt("Uint", "tag"), RBuf("name", getlen=cb), RInt("Uint", "e")], name="CStr")
            i1, i2 = {"tag": 1, "name": b"ab\x00", "e": 0x21}, {"tag": 2, "name": b"\x00", "e": 0x22}
            for label, ref, v in (
                    ("top level", cstr(), i1),
                    ("nested envelope", REnv([RInt("Uint", "a"), REnvF(cstr(), "in"), ], name="Outer"), {"a": 5, "in": i2}),
                    ("stand-alone sequence", RSeqF(cstr(), "items"), [i1, i2, dict(i1, name=b"wxyz\x00")]),
                    ("sequence field", REnv([RInt("Uint", "id"), RSeqF(cstr(), "names")], name="Msg"), {"id": 7, "names": [i2, i1]})):
                dec, renc, rdec = _own_codec(lab, ref)
                d = renc(v)
                if rdec(d) != v:
                    raise AnalysisError("internal: reference model is not an inverse pair on %s" % label)
                for kind in (bytes, bytearray):
                    buf = kind(d)
                    fam2.check("%s, get_len = %s: %r decoded from %s(%r)" % (label, cbn, ref, kind.__name__, d),
                               lab.run(lambda: norm(dec(buf))), ("ok", v))
    _guarded(fam2, body2)


def w_presence(lab, fams):
    m = lab.m
    fam = Family("C16.R5", "Field", "presence protocol: a field is absent exactly when get_pres(vals) is the bool False (any other result, also a falsy "
                 "one, means present); an absent field consumes / emits nothing and neither its length callback nor its converters are consulted")
    fams.append(fam)
    try:
        def boom(*a):
            raise KeyError("length/value callback consulted for an absent field")
        for res, present in ((False, False), (True, True), (0, True), (1, True), (None, True), ("", True), (2, True)):
            f = lab.new("Probe", "b", b"OUT", len=3)
            m.setattr_(f, "get_pres", lambda vals, r=res: r)
            if not present:
                m.setattr_(f, "get_len", boom)
                m.setattr_(f, "get_val", boom)
            want = ("ok", ({"b": b"abc"}, 3)) if present else ("ok", ({}, 0))
            fam.check("Probe('b', len=3) with get_pres -> %r: from_bytes(5 octets)" % (res,), lab.f_dec(f, b"abcde"), want)
            fam.check("Probe('b', len=3) with get_pres -> %r: to_bytes()" % (res,), lab.f_enc(f, {}), ("ok", b"OUT" if present else b""))
            seen = m.getattr_(f, "seen")
            asked = m.getattr_(f, "asked")
            if not present and (seen or asked):
                fam.fail("get_pres -> False, yet the converters were called (decoder %d time(s), encoder %d time(s))" % (len(seen), asked))
            else:
                fam.ok()
        # presence driven by an earlier field of the same envelope, both directions, through the envelope
        ref = REnv([RBits([("flag", 1, None), ("n", 7, None)]), RBuf("opt", 2, pres=lambda v: bool(v["flag"])), RInt("Uint", "z")])
        e = ref.build(lab)
        for v in ({"flag": 1, "n": 5, "opt": b"OK", "z": 9}, {"flag": 0, "n": 100, "z": 1}):
            octets = ref.encode(v)
            fam.check("%r.to_bytes() of %r" % (ref, v), lab.e_enc(e, v), ("ok", octets))
            fam.check("%r.from_bytes(%r)" % (ref, octets), lab.e_dec(e, octets), ("ok", (v, len(octets))))
        ref = REnv([RInt("Uint", "nope"), RBuf("bits", pres=lambda v: not v["nope"], getlen=lambda v, d: {0: 4}[v["nope"]]), RBuf("tail", 1)])
        e = ref.build(lab)
        for v in ({"nope": 0, "bits": b"1234", "tail": b"t"}, {"nope": 1, "tail": b"t"}):
            octets = ref.encode(v)
            fam.check("%r.to_bytes() of %r" % (ref, v), lab.e_enc(e, v), ("ok", octets))
            fam.check("%r.from_bytes(%r)" % (ref, octets), lab.e_dec(e, octets), ("ok", (v, len(octets))))
    except MachUnknown as ex:
        fam.unknown = str(ex)
    except PyRaise as ex:
        fam.fail("a witness definition or its evaluation raises %s outside any modelled outcome" % ex.cls_name)
    except MachTimeout:
        fam.fail("a witness definition or its evaluation does not terminate (step budget exhausted)")
    fam = Family("C16.R5", "Field.__init__", "default callbacks: a field is present, takes its value from vals[name], and its length is the given / "
                 "class default length - or, for length 0, all remaining octets; derived-class parameters default to DEF_PARAMS")
    fams.append(fam)
    try:
        for mk, args, kw, ln in (("Buf", ["b"], {}, 0), ("Buf", ["b"], {"len": 3}, 3), ("Uint", ["b"], {}, 1), ("Uint32LE", ["b"], {}, 4),
                                 ("Spare", ["b"], {"len": 2}, 2), ("Probe", ["b"], {}, 0), ("Probe", ["b"], {"len": 5}, 5)):
            f = lab.new(mk, *args, **kw)
            what = "%s(%s)" % (mk, ", ".join([repr(a) for a in args] + ["%s=%r" % kv for kv in kw.items()]))
            fam.check("%s.get_pres({})" % what, lab.run(lambda: lab.meth(f, "get_pres", {}) is not False), ("ok", True))
            for data in (b"", b"abcdefg"):
                fam.check("%s.get_len({}, %d octets)" % (what, len(data)), lab.run(lambda: lab.meth(f, "get_len", {}, data)), ("ok", ln or len(data)))
                fam.check("%s.get_len({'x': 1, 'y': 2, 'z': 3}, %d octets)" % (what, len(data)),
                          lab.run(lambda: lab.meth(f, "get_len", {"x": 1, "y": 2, "z": 3}, data)), ("ok", ln or len(data)))
            fam.check("%s.get_val({b: 'V', other: 'W'})" % what, lab.run(lambda: lab.meth(f, "get_val", {"b": "V", "other": "W"})), ("ok", "V"))
        fam.check("Uint('x') [no offset/mult given] decodes b'\\x07' as 7", lab.f_dec(lab.new("Uint", "x"), b"\x07"), ("ok", ({"x": 7}, 1)))
        fam.check("Spare('p', len=2) [no filler given] encodes as zero octets", lab.f_enc(lab.new("Spare", "p", len=2), {}), ("ok", b"\x00\x00"))
        # get_val override
        f = lab.new("Uint16BE", "len")
        m.setattr_(f, "get_val", lambda v: len(v["data"]))
        fam.check("Uint16BE('len') with get_val -> len(vals['data'])", lab.f_enc(f, {"data": b"12345"}), ("ok", b"\x00\x05"))
    except MachUnknown as ex:
        fam.unknown = str(ex)
    except PyRaise as ex:
        fam.fail("a witness definition or its evaluation raises %s outside any modelled outcome" % ex.cls_name)
    except MachTimeout:
        fam.fail("a witness definition or its evaluation does not terminate (step budget exhausted)")


def w_ownership(lab, fams):
    m = lab.m
    fam = Family("C16.R6", "Sequence.from_bytes", "every decode of a sequence returns a list made by that decode, one fresh dict per item: decoding "
                 "again (same Sequence object, same envelope, a second Sequence object) returns only the items of that datagram and leaves earlier "
                 "results untouched")
    fams.append(fam)
    try:
        item = REnv([RInt("Uint", "k"), RInt("Uint16BE", "v")])
        sf = RSeqF(item, "items")
        s = sf.build_seq(lab)
        d1, d2 = b"\x01\x00\x10\x02\x00\x20", b"\x09\x01\x00"
        w1, w2 = sf.dec_list(d1), sf.dec_list(d2)
        r1 = lab.run(lambda: lab.meth(s, "from_bytes", d1))
        fam.check("first from_bytes(%r)" % d1, ("ok", norm(r1[1])) if r1[0] == "ok" else r1, ("ok", w1))
        r2 = lab.run(lambda: lab.meth(s, "from_bytes", d2))
        fam.check("second from_bytes(%r) on the same Sequence" % d2, ("ok", norm(r2[1])) if r2[0] == "ok" else r2, ("ok", w2))
        if r1[0] == "ok" and r2[0] == "ok":
            fam.check("the first result after the second decode", ("ok", norm(r1[1])), ("ok", w1))
            if r1[1] is r2[1]:
                fam.fail("both decodes return the very same list object")
            elif isinstance(r2[1], list) and len(r2[1]) > 1 and any(a is b for i, a in enumerate(r2[1]) for b in r2[1][i + 1:]):
                fam.fail("the items of one result are one shared dict")
            else:
                fam.ok()
        r3 = lab.run(lambda: lab.meth(s, "from_bytes", b""))
        fam.check("from_bytes(b'') after two decodes", ("ok", norm(r3[1])) if r3[0] == "ok" else r3, ("ok", []))
        s2 = sf.build_seq(lab)
        r4 = lab.run(lambda: lab.meth(s2, "from_bytes", d2))
        fam.check("from_bytes(%r) on a second Sequence object" % d2, ("ok", norm(r4[1])) if r4[0] == "ok" else r4, ("ok", w2))
        # through an envelope, decoded twice
        ref = REnv([RInt("Uint", "hdr"), RSeqF(REnv([RInt("Uint", "k"), RInt("Uint16BE", "v")]), "items")])
        e = ref.build(lab)
        for data in (b"\x07" + d1, b"\x08" + d2, b"\x09"):
            fam.check("Envelope(hdr, items).from_bytes(%r) [decoded one after the other on the same envelope]" % data, lab.e_dec(e, data), dec_pair(ref, data))
        fam.check("Sequence.to_bytes(items)", lab.run(lambda: norm(lab.meth(s, "to_bytes", clone_vals(w1)))), ("ok", d1))
    except MachUnknown as ex:
        fam.unknown = str(ex)
    except PyRaise as ex:
        fam.fail("a witness definition or its evaluation raises %s outside any modelled outcome" % ex.cls_name)
    except MachTimeout:
        fam.fail("a witness definition or its evaluation does not terminate (step budget exhausted)")
    fam = Family("C16.R3", "Sequence", "a sequence needs an item envelope (keyword `item` or class attribute ITEM) and switches that item's tail check "
                 "off, so that an item followed by further items decodes; the item given by the class attribute is treated the same way")
    fams.append(fam)
    try:
        icls = PClass(m, "Item", [lab.cls("Envelope")], {"STRUCT": (lab.new("Uint", "k"),)})
        data = b"\x01\x02\x03"
        want = ("ok", [{"k": 1}, {"k": 2}, {"k": 3}])
        s = lab.new("Sequence", item=m.call(icls, [], {}))
        r = lab.run(lambda: norm(lab.meth(s, "from_bytes", data)))
        fam.check("Sequence(item=Item()).from_bytes(%r)" % data, r, want)
        scls = PClass(m, "Seq", [lab.cls("Sequence")], {"ITEM": m.call(icls, [], {})})
        r = lab.run(lambda: norm(lab.meth(m.call(scls, [], {}), "from_bytes", data)))
        fam.check("class Seq(Sequence): ITEM = Item(); Seq().from_bytes(%r)" % data, r, want)
        scls = PClass(m, "Seq", [lab.cls("Sequence")], {"ITEM": m.call(icls, [], {})})
        r = lab.run(lambda: norm(lab.meth(m.call(scls, [], {"item": m.call(icls, [], {})}), "from_bytes", data)))
        fam.check("Seq(item=Item()) [both given].from_bytes(%r)" % data, r, want)
        r = lab.run(lambda: lab.new("Sequence"))
        if r[0] == "ok":
            fam.fail("Sequence() without any item is accepted")
        else:
            fam.ok()
    except MachUnknown as ex:
        fam.unknown = str(ex)
    except PyRaise as ex:
        fam.fail("a witness definition or its evaluation raises %s outside any modelled outcome" % ex.cls_name)
    except MachTimeout:
        fam.fail("a witness definition or its evaluation does not terminate (step budget exhausted)")


# ---- sequences whose items differ in length (C16.R8) -----------------------------------------------------------

def _seq_item_defs():
    """(item definition, flags per item, value of item number k under flag p): every definition has at least one
    mandatory octet (an item that consumes nothing is outside the domain) and an optional / variable part whose
    presence or length is driven by an earlier field of the same item"""
    return [
        (REnv([RBits([("ext", 1, None), ("id", 7, None)]), RInt("Uint16BE", "val"),
               RInt("Uint32LE", "stamp", pres=lambda v: bool(v["ext"]))], name="Item"), 2,
         lambda k, p: dict({"ext": p, "id": 0x10 + k, "val": 0x0100 * k + 0xff}, **({"stamp": 0xdeadbe00 + k} if p else {}))),
        (REnv([RInt("Uint", "k"), RBuf("opt", 3, pres=lambda v: bool(v["k"] & 1)), RInt("Int16LE", "z")], name="Item"), 2,
         lambda k, p: dict({"k": 2 * k + p, "z": -k - 1}, **({"opt": bytes([0x41 + k]) * 3} if p else {}))),
        (REnv([RBits([("a", 1, None), ("b", 1, None), ("id", 6, None)]), RInt("Uint16BE", "p", pres=lambda v: v["a"] == 1),
               RBuf("q", 4, pres=lambda v: v["b"] == 1)], name="Item"), 4,
         lambda k, p: dict({"a": p & 1, "b": p >> 1, "id": 5 + k}, **dict(([("p", 0x0102 + k)] if p & 1 else []) +
                                                                        ([("q", bytes([0x61 + k]) * 4)] if p >> 1 else [])))),
        (REnv([RInt("Uint", "n"), RBuf("v", getlen=lambda v, d: v["n"])], name="Item"), 2,
         lambda k, p: {"n": 3 * p, "v": bytes([0x30 + k]) * (3 * p)}),
        (REnv([RInt("Uint", "k"), REnvF(REnv([RInt("Uint16BE", "x")], name="Inner"), "in", 2, pres=lambda v: v["k"] >= 128)], name="Item"), 2,
         lambda k, p: dict({"k": 128 * p + k}, **({"in": {"x": 0x0a00 + k}} if p else {}))),
    ]


def w_seq_closure(lab, fams):
    """C16.R8 - decides the round-trip clause of the property ("decoding the encoding of in-range values returns those
    values, re-encoding a decoded message reproduces the canonical octets") for the building block `sequence` combined
    with `optional and variable-length fields`: the items of one sequence may differ in length, so Sequence.from_bytes
    must accept every octet string Sequence.to_bytes produces - in particular one whose LAST item is shorter than the
    sum of the fixed field lengths of its definition because an optional field is absent - stand-alone, as the
    flexible last field of an envelope and as a field whose length comes from a callback (followed by a further
    field).  Truncated encodings are compared with the reference as well (a cut at an item boundary is a shorter
    sequence, any other cut is rejected with DecodeError).  The in-range values of a sequence field are the iterables
    of item dicts: besides lists (what decoding returns) the same items given as a tuple must encode to the same octets;
    refusing other kinds of value (a single dict, str, bytes-like, a number) is outside this clause."""
    for item, nflag, mk in _seq_item_defs():
        fam = Family("C16.R8", "Sequence", "sequence of %r, items of different lengths in one sequence (every presence pattern of 1..%d items, "
                     "the optional part absent in the last item included): Sequence.to_bytes is the concatenation of the items' octets, "
                     "Sequence.from_bytes(to_bytes(items)) returns the items - stand-alone, as the flexible last field of an envelope and as "
                     "a field whose length a callback gives - re-encoding reproduces the octets, a truncated encoding is a shorter sequence "
                     "or a DecodeError" % (item, 4 if nflag == 2 else 2))
        fams.append(fam)
        try:
            sf = RSeqF(item, "items")
            s = sf.build_seq(lab)
            tail = REnv([RInt("Uint", "hdr"), RSeqF(item, "items")], name="Tail")
            msg = REnv([RInt("Uint", "tag"), RInt("Uint", "len", getval=lambda v, it=item: sum(len(it.encode(i)) for i in v["items"])),
                        RSeqF(item, "items", getlen=lambda v, d: v["len"]), RInt("Uint16BE", "crc")], name="Msg")
            e_tail, e_msg = tail.build(lab), msg.build(lab)
            for n in range(1, (4 if nflag == 2 else 2) + 1):
                for pat in itertools.product(range(nflag), repeat=n):
                    items = [mk(k, p) for k, p in enumerate(pat)]
                    what = "presence pattern %s" % (pat,)
                    enc = ref_out(lambda: sf.enc({"items": items}))
                    if enc[0] != "ok" or ref_out(lambda: sf.dec_list(enc[1])) != ("ok", items):
                        raise AnalysisError("internal: reference model is not an inverse pair on a sequence of %r" % (item,))
                    octets = enc[1]
                    fam.check("%s: Sequence.to_bytes(%s)" % (what, _short_txt(items, 200)),
                              lab.run(lambda: norm(lab.meth(s, "to_bytes", clone_vals(items)))), enc)
                    fam.check("%s: Sequence.from_bytes(%r) [= to_bytes(%s)]" % (what, octets, _short_txt(items, 200)),
                              lab.run(lambda: norm(lab.meth(s, "from_bytes", octets))), ("ok", items))
                    if n == 2:
                        for cut in range(1, min(4, len(octets)) + 1):
                            data = octets[:-cut]
                            fam.check("%s: Sequence.from_bytes(%r) [encoding truncated by %d]" % (what, data, cut),
                                      lab.run(lambda: norm(lab.meth(s, "from_bytes", data))), ref_out(lambda: sf.dec_list(data)))
                    if n > 3:
                        continue
                    for ref, e, v in ((tail, e_tail, {"hdr": 0x7e, "items": items}), (msg, e_msg, {"tag": 1, "items": items, "crc": 0xbeef})):
                        want = ref_out(lambda: ref.encode(v))
                        back = dec_pair(ref, want[1]) if want[0] == "ok" else None
                        if back is None or back[0] != "ok" or back[1][1] != len(want[1]) or any(back[1][0].get(k) != x for k, x in v.items()):
                            raise AnalysisError("internal: reference model is not an inverse pair on %r" % (ref,))
                        fam.check("%s: %s.to_bytes() of %s" % (what, ref.name, _short_txt(v, 200)), lab.e_enc(e, v), want)
                        if n <= 2:
                            # the value of a sequence field is an iterable of item dicts: a tuple encodes like the list
                            vt = dict(v, items=tuple(clone_vals(items)))
                            fam.check("%s: %s.to_bytes() of %s [items given as a tuple]" % (what, ref.name, _short_txt(vt, 200)),
                                      lab.e_enc(e, vt), want)
                        got = lab.e_dec(e, want[1])
                        fam.check("%s: %s.from_bytes(%r) [= to_bytes() of %s]" % (what, ref.name, want[1], _short_txt(v, 200)), got, back)
                        if got[0] == "ok":
                            fam.check("%s: %s.to_bytes() of what from_bytes(%r) returned" % (what, ref.name, want[1]),
                                      lab.run(lambda: norm(lab.meth(e, "to_bytes"))), want)
        except MachUnknown as ex:
            fam.unknown = str(ex)
        except PyRaise as ex:
            fam.fail("a witness definition or its evaluation raises %s outside any modelled outcome" % ex.cls_name)
        except MachTimeout:
            fam.fail("a witness definition or its evaluation does not terminate (step budget exhausted)")


# ---- message sequences through ONE definition object (C16.R9) ---------------------------------------------------

def _reuse_defs():
    """(definition, messages): every definition has a part whose length / presence the values decide, and the messages
    of one list differ in exactly that part - first a message, then the same lengths again, then shorter, empty and
    longer ones"""
    plen = lambda v, d: v["plen"]
    inner = lambda: REnv([RInt("Uint", "plen"), RSpare("pad", filler=b"\x2b", getlen=plen), RInt("Uint16LE", "crc")], name="Inner")
    item = lambda: REnv([RInt("Uint", "n"), RSpare("fill", filler=b"\xa5", getlen=lambda v, d: v["n"]), RInt("Uint", "e")], name="Item")
    tlv = lambda: [RInt("Uint", "t"), RInt("Uint16BE", "len"), RBuf("v", getlen=lambda v, d: v["len"])]
    return [
        (inner(), [{"plen": n, "crc": 0x1000 + n} for n in (4, 4, 0, 7, 1, 4, 2)]),
        (REnv([RBits([("ver", 4, 1), ("al", 1, None), (None, 3, None)]), RSpare("align", 3, pres=lambda v: bool(v["al"])),
               RInt("Uint", "ilen", getval=lambda v: 3 + v["inner"]["plen"]), REnvF(inner(), "inner", getlen=lambda v, d: v["ilen"]), RBuf("tail")], name="PDU"),
         [{"ver": 1, "al": al, "ilen": 3 + n, "inner": {"plen": n, "crc": crc}, "tail": tail}
          for al, n, crc, tail in ((1, 4, 0xbeef, b"\x01\x02"), (0, 4, 0x0102, b""), (1, 0, 0xffff, b"\xaa"), (0, 7, 0, b"\x55" * 5),
                                   (1, 4, 0x1234, b"\x00"), (0, 1, 0x8001, b""))]),
        (REnv([RInt("Uint", "a"), RInt("Uint", "b"), RSpare("p1", filler=b"\xaa", getlen=lambda v, d: v["a"]),
               RSpare("p2", getlen=lambda v, d: v["b"]), RInt("Uint", "z")], name="TwoSpares"),
         [{"a": a, "b": b, "z": 0x7f} for a, b in ((2, 3), (3, 2), (0, 5), (5, 0), (2, 3), (1, 1))]),
        (REnv(tlv() + [RBuf("tail", 2)], name="TLV"),
         [{"t": i, "len": len(v), "v": v, "tail": b"TT"} for i, v in enumerate((b"abcd", b"", b"xy", b"abcd", b"0123456789", b"q"))]),
        (REnv([RBits([("flag", 1, None), ("n", 7, None)]), RBuf("opt", 2, pres=lambda v: bool(v["flag"])),
               RSpare("sp", 2, filler=b"\x11", pres=lambda v: bool(v["n"] & 1)), RInt("Uint16BE", "w", pres=lambda v: v["n"] >= 64), RInt("Uint", "z")], name="Optional"),
         [dict({"flag": fl, "n": n, "z": 9 + n}, **dict(([("opt", b"OK")] if fl else []) + ([("w", 0x0102 + n)] if n >= 64 else [])))
          for fl, n in ((1, 65), (0, 2), (1, 2), (0, 65), (0, 64), (1, 65), (1, 3))]),
        (REnv([RInt("Uint", "cnt"), RSeqF(REnv([RInt("Uint16BE", "k"), RInt("Int", "s")]), "items", getlen=lambda v, d: 3 * v["cnt"]), RBuf("trail")], name="Counted"),
         [{"cnt": len(it), "items": it, "trail": tr} for it, tr in (([{"k": 1, "s": -1}, {"k": 65535, "s": 127}], b"tr"), ([], b""), ([{"k": 7, "s": 0}], b"x"),
                                                                    ([{"k": 3, "s": 3}, {"k": 2, "s": 2}, {"k": 1, "s": 1}], b""), ([], b"only"))]),
        (REnv([RInt("Uint", "hdr"), RSeqF(item(), "items")], name="SpareItems"),
         [{"hdr": h, "items": [{"n": n, "e": 0x30 + k} for k, n in enumerate(ns)]} for h, ns in ((1, (3, 1, 0, 4)), (2, (0,)), (3, (2, 2)), (4, ()), (5, (1, 5, 1)))]),
        (REnv([RInt("Int16BE", "x", mult=-1), RInt("Uint32LE", "y", offset=5), RBits([("a", 3, None), ("b", 5, None), ("c", 8, None)], "lsb"), RBuf("rest")], name="Plain"),
         [{"x": x, "y": y, "a": a, "b": b, "c": c, "rest": r} for x, y, a, b, c, r in
          ((5, 5, 7, 31, 255, b"rest"), (-7, 0x01020308, 0, 0, 0, b""), (32767, 6, 5, 10, 0x5a, b"\x00" * 7), (0, 5, 2, 21, 0xa5, b"r"))]),
    ]


def w_reuse(lab, fams):
    """C16.R9 - decides the round-trip and length-exactness clauses of the property ("decoding the encoding of in-range
    values returns those values, re-encoding a decoded message reproduces the canonical octets, and decoding consumes
    exactly the octets the definition declares") for EVERY message that goes through a definition, not only the first
    one: a protocol definition is built once (class-level STRUCT tuples) and all messages of a process are encoded and
    decoded through the same field objects, and the items of one sequence through the same item definition.  The
    law evaluated: what a definition object does with a message is what a newly built definition does with it -
    whatever messages the object has processed before.  Message sequences whose variable parts (callback lengths
    of spares / buffers / nested envelopes / sequences, optional fields) differ from message to message are encoded,
    decoded and re-encoded through one object, in order, in reverse order and interleaved, and each outcome is
    compared with the reference model, which has no state."""
    m = lab.m
    for ref, msgs in _reuse_defs():
        fam = Family("C16.R9", "Envelope", "definition %r used for a sequence of %d messages whose variable parts differ: every message encodes to the "
                     "octets its own values declare, decodes to its own values consuming exactly the datagram and re-encodes to the same octets, "
                     "whatever messages the same definition object processed before (in order, in reverse order, encode and decode interleaved)"
                     % (ref, len(msgs)))
        fams.append(fam)
        try:
            pairs = []
            for v in msgs:
                enc = ref_out(lambda: ref.encode(v))
                back = dec_pair(ref, enc[1]) if enc[0] == "ok" else None
                if back is None or back[0] != "ok" or back[1][1] != len(enc[1]) or any(back[1][0].get(k) != x for k, x in v.items()):
                    raise AnalysisError("internal: reference model is not an inverse pair on %r" % (ref,))
                pairs.append((v, enc[1], back))
            rf = _Refused()
            e, e2 = rf.build(ref, lab), rf.build(ref, lab)
            if e is None or e2 is None:
                fam.unknown = "witness definition %r is refused at definition time (ProtocolError)" % (ref,)
                continue
            for i, (v, octets, back) in enumerate(pairs):
                fam.check("message #%d: to_bytes() of %s" % (i, _short_txt(v, 200)), lab.e_enc(e, v), ("ok", octets))
            for i, (v, octets, back) in enumerate(pairs):
                got = lab.e_dec(e, octets)
                fam.check("message #%d: from_bytes(%r)" % (i, octets), got, back)
                if got[0] == "ok":
                    fam.check("message #%d: to_bytes() of what from_bytes(%r) returned" % (i, octets), lab.run(lambda: norm(lab.meth(e, "to_bytes"))), ("ok", octets))
            for i, (v, octets, back) in reversed(list(enumerate(pairs))):
                j = (i + 1) % len(pairs)
                fam.check("second object, message #%d decoded after message #%d: from_bytes(%r)" % (i, j, octets), lab.e_dec(e2, octets), back)
                fam.check("second object, message #%d encoded after decoding message #%d: to_bytes() of %s" % (j, i, _short_txt(pairs[j][0], 200)),
                          lab.e_enc(e2, pairs[j][0]), ("ok", pairs[j][1]))
        except MachUnknown as ex:
            fam.unknown = str(ex)
        except PyRaise as ex:
            fam.fail("a witness definition or its evaluation raises %s outside any modelled outcome" % ex.cls_name)
        except MachTimeout:
            fam.fail("a witness definition or its evaluation does not terminate (step budget exhausted)")
    # --- one field object, used again and again ---------------------------------------------------------------
    fam = Family("C16.R9", "Field", "one field object used for several messages: each to_bytes / from_bytes depends on that message's values and "
                 "octets only (callback length, presence, value), not on what the object encoded or decoded before")
    fams.append(fam)
    try:
        bylen = lambda v, d: v["n"]
        cases = [
            (RSpare("p", filler=b"\xab", getlen=bylen), [{"n": n} for n in (3, 1, 0, 5, 3, 2)]),
            (RSpare("p", getlen=bylen, pres=lambda v: v["n"] != 2), [{"n": n} for n in (2, 4, 2, 1, 4)]),
            (RBuf("b", getlen=bylen), [{"n": n, "b": bytes(range(0x41, 0x41 + n))} for n in (2, 5, 0, 3, 5)]),
            (RBuf("b"), [{"b": b} for b in (b"abcd", b"", b"xy", b"abcdefgh")]),
            (RInt("Uint16BE", "w", pres=lambda v: bool(v["on"])), [dict({"on": on}, **({"w": w} if on else {})) for on, w in ((1, 0x0102), (0, 0), (1, 0xffff), (0, 0), (1, 0))]),
            (RInt("Int32LE", "i", offset=-3, mult=4), [{"i": -3 + 4 * r} for r in (0, -1, 0x7fffffff, 1, -0x80000000, 0)]),
            (RBits([("a", 3, None), ("b", 5, None), ("c", 8, None)]), [{"a": a, "b": b, "c": c} for a, b, c in ((7, 31, 255), (0, 0, 0), (5, 10, 0xa5), (0, 0, 0), (2, 21, 0x5a))]),
            (RBits([("f12", 12, None), (None, 2, None), ("f2", 2, None)], "lsb"), [{"f12": a, "f2": b} for a, b in ((0xfff, 3), (0, 0), (0xabc, 1), (0x001, 2))]),
        ]
        rf = _Refused()
        for r, seq in cases:
            f = rf.build(r, lab)
            if f is None:
                continue
            steps = []
            for v in seq:
                enc = ref_out(lambda: r.to_bytes(dict(v)))
                if enc[0] != "ok":
                    raise AnalysisError("internal: reference model rejects a reuse witness of %r" % (r,))
                steps.append((v, enc[1]))
            for i, (v, octets) in enumerate(steps):
                fam.check("%r, use #%d: to_bytes(%r)" % (r, i, v), lab.f_enc(f, v), ("ok", octets))
            for i, (v, octets) in enumerate(steps):
                data = octets + b"\xee\xee\xee"[:i % 3] if not (isinstance(r, RBuf) and r.getlen is None) else octets
                ctx = {k: x for k, x in v.items() if k != r.name and not isinstance(r, RBits)}
                fam.check("%r, use #%d: from_bytes(%r, %r)" % (r, i, ctx, data), lab.f_dec(f, data, ctx), ref_fdec(r, data, ctx))
            for i, (v, octets) in reversed(list(enumerate(steps))):
                fam.check("%r, use #%d again after the others: to_bytes(%r)" % (r, i, v), lab.f_enc(f, v), ("ok", octets))
        rf.close(fam)
    except MachUnknown as ex:
        fam.unknown = str(ex)
    except PyRaise as ex:
        fam.fail("a witness definition or its evaluation raises %s outside any modelled outcome" % ex.cls_name)
    except MachTimeout:
        fam.fail("a witness definition or its evaluation does not terminate (step budget exhausted)")
    # --- the objects of one class do not share what they keep -----------------------------------------------------
    fam = Family("C16.R9", "Field", "two field objects of one class used alternately (different fillers / lengths / parameters): neither sees what the "
                 "other encoded or decoded")
    fams.append(fam)
    try:
        bylen = lambda v, d: v["n"]
        pairs = [(RSpare("p", filler=b"\x01", getlen=bylen), RSpare("q", filler=b"\x02", getlen=bylen), [{"n": n} for n in (2, 2, 0, 3, 1)]),
                 (RSpare("p", 2), RSpare("q", 2, filler=b"\xff"), [{}, {}, {}]),
                 (RBuf("p", getlen=bylen), RBuf("q", getlen=lambda v, d: 2 * v["n"]), [{"n": n, "p": b"P" * n, "q": b"Q" * (2 * n)} for n in (1, 3, 0, 2)]),
                 (RInt("Uint16BE", "p", offset=1), RInt("Uint16BE", "q", mult=-1), [{"p": 1 + r, "q": -r} for r in (0, 0xffff, 0x1234, 1)])]
        rf = _Refused()
        for ra, rb, seq in pairs:
            fa, fb = rf.build(ra, lab), rf.build(rb, lab)
            if fa is None or fb is None:
                continue
            for i, v in enumerate(seq):
                for r, f in ((ra, fa), (rb, fb)):
                    enc = ref_out(lambda: r.to_bytes(dict(v)))
                    fam.check("%r next to %r, use #%d: to_bytes(%r)" % ((ra, rb)[r is rb], (rb, ra)[r is rb], i, v), lab.f_enc(f, v), enc)
                    if enc[0] == "ok":
                        ctx = {k: x for k, x in v.items() if k != r.name}
                        fam.check("%r next to %r, use #%d: from_bytes(%r, %r)" % ((ra, rb)[r is rb], (rb, ra)[r is rb], i, ctx, enc[1] + b"\xee"),
                                  lab.f_dec(f, enc[1] + b"\xee", ctx), ref_fdec(r, enc[1] + b"\xee", ctx))
        rf.close(fam)
    except MachUnknown as ex:
        fam.unknown = str(ex)
    except PyRaise as ex:
        fam.fail("a witness definition or its evaluation raises %s outside any modelled outcome" % ex.cls_name)
    except MachTimeout:
        fam.fail("a witness definition or its evaluation does not terminate (step budget exhausted)")


# ---- definitions found in the toolkit (evaluated value-level against the block semantics) ------------------

class RIntSpec(RInt):
    """integer field given by its resolved attributes (used for definitions described by C17's layout descriptors)"""

    def __init__(self, name, size, bo, sign, offset=0, mult=1, **kw):
        RField.__init__(self, name, size, **kw)
        self.cls, self.kwlen, self.offset, self.mult, self.bo, self.sign = "int", size, offset, mult, bo, sign

    def __repr__(self):
        return "%s%d%s(%r%s%s)" % ("Int" if self.sign else "Uint", 8 * self.len, "LE" if self.bo == "little" else "BE", self.name,
                                   ", offset=%d" % self.offset if self.offset else "", ", mult=%d" % self.mult if self.mult != 1 else "")


def _pat(k, i, bits):
    """deterministic value pattern number k for the i-th field, `bits` wide"""
    x = ((k + 1) * 2654435761 + (i + 1) * 40503 * (k + 3)) & 0xFFFFFFFFFFFFFFFF
    x ^= x >> 13
    if k == 0:
        return 0
    if k == 1:
        return (1 << bits) - 1
    return x & ((1 << bits) - 1)


def gen_vals(env, k, depth=0):
    """a value assignment (variant k) for a definition given by its reference description; None if the variant
    cannot be built (a callback rejects the values chosen so far)"""
    vals = {}
    i = 0
    for f in env.fields:
        i += 1
        try:
            if isinstance(f, RBits):
                for j, (name, bl, val) in enumerate(f.fields):
                    if name is not None:
                        vals[name] = val if val is not None else _pat(k + depth, i * 8 + j, bl)
                continue
            if f.absent(vals):
                continue
            if isinstance(f, RInt):
                raw = _pat(k, i, 8 * f.len)
                if f.sign:
                    raw -= 1 << (8 * f.len - 1)
                vals[f.name] = raw * f.mult + f.offset
            elif isinstance(f, RSpare):
                pass
            elif isinstance(f, RSeqF):
                n = (0, 1, 3, 2, 8, 4, 5)[k % 7]
                items = [gen_vals(f.item, k * 5 + 2 + j, depth + 1) for j in range(n)]
                if any(x is None for x in items):
                    return None
                vals[f.name] = items
            elif isinstance(f, REnvF):
                inner = gen_vals(f.env, k + 1, depth + 1)
                if inner is None:
                    return None
                vals[f.name] = inner
            elif isinstance(f, RBuf):
                if f.getlen is not None:
                    n = f.getlen(vals, bytes(1000) if k % 2 else b"")
                elif f.len:
                    n = f.len
                else:
                    n = (0, 2, 7, 0, 1)[k % 5]
                if not isinstance(n, int) or n < 0 or n > 4096:
                    return None
                vals[f.name] = bytes((k * 31 + i * 7 + x) & 0xff for x in range(n))
            else:
                return None
        except RefErr:
            return None
    return vals


def eval_definition(lab, fam, ref, make, variants=10):
    """one toolkit definition: the evaluated envelope agrees with the block semantics applied to its own layout"""
    e = make()
    n_ok = 0
    for k in range(variants):
        v = gen_vals(ref, k)
        if v is None:
            continue
        enc = ref_out(lambda: ref.encode(v))
        if enc[0] != "ok":
            continue
        back = dec_pair(ref, enc[1])
        if back[0] != "ok" or back[1][1] != len(enc[1]) or any(back[1][0].get(x) != y for x, y in v.items()):
            continue            # outside the domain of the definition (e.g. an ambiguous padding length)
        n_ok += 1
        octets = enc[1]
        fam.check("to_bytes() of %s" % _short_txt(v, 200), lab.e_enc(e, v), enc)
        fam.check("from_bytes(%d octets %s...)" % (len(octets), octets[:12].hex()), lab.e_dec(e, octets), back)
        got = lab.e_dec(e, octets)
        if got[0] == "ok":
            fam.check("to_bytes() of what from_bytes(%d octets %s...) returned" % (len(octets), octets[:12].hex()),
                      lab.run(lambda: norm(lab.meth(e, "to_bytes"))), ("ok", octets))
    return n_ok


def w_toolkit_defs(lab, fams):
    """the protocol definitions the toolkit itself composes from the blocks (trxd_proto): value-level round trip"""
    if not lab.repo.has_mod("trxd_proto"):
        return
    fam0 = Family("C16.R3", "trxd_proto", "the toolkit's own definitions are evaluated")
    fam0.optional = True
    try:
        from rules import c17
        defs = c17.definition_refs(lab)
    except AnalysisError as e:
        fam0.unknown = "toolkit definitions not evaluable: %s" % e
        fams.append(fam0)
        return
    except (MachUnknown, PyRaise) as e:
        fam0.unknown = "toolkit definitions not evaluable: %s" % e
        fams.append(fam0)
        return
    for cname, ref, make in defs:
        fam = Family("C16.R3", cname, "definition trxd_proto.%s composed from the blocks: to_bytes() equals the block semantics applied to its layout, "
                     "from_bytes(to_bytes(v)) returns v (every item of a sequence included) consuming exactly the datagram, and re-encoding "
                     "reproduces the octets" % cname)
        fam.optional = True
        fams.append(fam)
        try:
            n = eval_definition(lab, fam, ref, make)
            if n == 0:
                fam.unknown = "no value assignment in the domain of the definition could be generated"
        except (MachUnknown, AnalysisError) as ex:
            fam.unknown = str(ex)
        except PyRaise as ex:
            fam.fail("evaluating the definition raises %s outside any modelled outcome" % ex.cls_name)
        except MachTimeout:
            fam.fail("evaluating the definition does not terminate (step budget exhausted)")


WITNESS_GROUPS = (w_bits, w_ints, w_length, w_nesting, w_errors, w_bufvals, w_decoded_own, w_presence, w_ownership, w_seq_closure, w_reuse, w_toolkit_defs)


def run_witnesses(L, repo):
    """evaluate every witness family; returns the list of families (obligations are committed by the caller)"""
    try:
        lab = Lab(repo)
    except MachUnknown as e:
        raise AnalysisError("codec.py cannot be evaluated: %s" % e)
    except PyRaise as e:
        raise AnalysisError("evaluating codec.py raises %s" % e.cls_name)
    fams = []
    for g in WITNESS_GROUPS:
        try:
            g(lab, fams)
        except PyRaise as e:
            f = Family("C16.R0", g.__name__, "witness construction")
            f.unknown = "witness construction raises %s" % e.cls_name
            fams.append(f)
        except MachUnknown as e:
            f = Family("C16.R0", g.__name__, "witness construction")
            f.unknown = str(e)
            fams.append(f)
        except MachTimeout:
            f = Family("C16.R0", g.__name__, "witness construction")
            f.unknown = "witness construction exceeds the step budget"
            fams.append(f)
        except AnalysisError:
            raise
        except Exception as e:       # a defect of the evaluator must not masquerade as a verdict
            f = Family("C16.R0", g.__name__, "witness construction")
            f.unknown = "internal: %s: %s" % (type(e).__name__, e)
            fams.append(f)
    Family.current = None
    L.extra["witness_evaluations"] = lab.evals
    return fams


class SubLedger:
    """records what a symbolic rule group registers without committing it to the run's ledger"""

    def __init__(self, L):
        self.L = L
        self.repo, self.tier, self.extra = L.repo, L.tier, L.extra
        self.obs, self.floors, self.fns, self.deficits = [], [], [], []

    def unit(self, relpath):
        return self.L.unit(relpath)

    def fn(self, relpath, qualname):
        self.fns.append((relpath, qualname))

    def assume(self, text):
        self.L.assume(text)

    def ob(self, rule, file, func, key, required, found, ok, line=None, note=None):
        self.obs.append((rule, file, func, key, required, found, bool(ok), line, note))

    def require(self, rule, file, func, key, required, found, line=None, note=None):
        self.ob(rule, file, func, key, required, found, found == required, line, note)

    def floor(self, rule, what, found, floor):
        self.floors.append((rule, what, found, floor))

    def open_items(self):
        out = ["[%s] %s: %s (expected %s, found %s)" % (o[0], o[2], o[3], _short_txt(o[4]), _short_txt(o[5])) for o in self.obs if not o[6]]
        out += ["[%s] %s: found %d, floor %d" % f for f in self.floors if f[2] < f[3]]
        return out

    def commit(self, only_ok=False):
        for f in self.fns:
            self.L.fn(*f)
        for o in self.obs:
            if o[6] or not only_ok:
                self.L.ob(*o)
        for f in self.floors:
            if f[2] >= f[3] or not only_ok:
                self.L.floor(*f)


def _short_txt(x, n=160):
    s = x if isinstance(x, str) else repr(x)
    return s if len(s) <= n else s[:n - 3] + "..."


class Verdict:
    """outcome of the witness evaluation as a whole"""

    def __init__(self, fams, error=None):
        self.fams = fams or []
        self.error = error
        self.failed = [f for f in self.fams if f.bad is not None]
        self.unknown = [f for f in self.fams if f.unknown is not None and f.bad is None and not f.optional]
        self.skipped = [f for f in self.fams if f.unknown is not None and f.bad is None and f.optional]

    def unknown_text(self):
        if self.error:
            return self.error
        return "; ".join(sorted({f.unknown for f in self.unknown}))[:300]


def symbolic(L, V, fn, *args):
    """Run one symbolic rule group (a proof attempt for all inputs on the recognised shape of the code).  A closed
    proof is committed as it is.  A proof that does not close - an unrecognised or differing shape - is NOT a
    verdict: the law is then decided by the witness evaluation (semantic rule).  Only when the evaluation exhibits
    a counterexample are the symbolic findings reported along with it; when it cannot be carried out either, the run
    ends without a verdict."""
    from report import STAGE_FAILED
    if any(a is STAGE_FAILED for a in args):
        return STAGE_FAILED
    sub = SubLedger(L)
    err = None
    try:
        res = fn(sub, *args)
    except AnalysisError as e:
        err, res = str(e), STAGE_FAILED
    open_ = sub.open_items() + ([err] if err else [])
    if not open_:
        sub.commit()
        return res
    name = fn.__name__
    if V.failed:
        sub.commit()
        if err:
            L.deficits.append(err)
        return res
    sub.commit(only_ok=True)
    if V.unknown or V.error:
        L.deficits.append("%s: the symbolic proof does not close (%s) and the witness evaluation could not be carried out (%s)" % (
            name, "; ".join(open_)[:400], V.unknown_text()))
        return res
    L.extra.setdefault("notes", []).append(
        "%s: the symbolic proof for the recognised shape does not close (%s); the laws are decided by witness evaluation" % (
            name, "; ".join(open_)[:600]))
    L.extra.setdefault("undecided_symbolically", []).append(name)
    return res


def r7_witnesses(L, repo):
    """semantic rules: every law evaluated on witness definitions (see `Lab`)"""
    fams = run_witnesses(L, repo)
    return fams


def commit_witnesses(L, V):
    n = 0
    for f in V.fams:
        if f.unknown is not None and f.bad is None:
            continue
        n += 1
        want = "no counterexample among the evaluated witnesses"
        L.ob(f.rule, F, f.func, f.key, want, f.bad if f.bad is not None else want, f.bad is None)
    L.extra["witness_families"] = {"evaluated": n, "not_evaluable": len(V.unknown), "optional_skipped": len(V.skipped)}
    for f in V.skipped:
        L.extra.setdefault("notes", []).append("%s: %s" % (f.func, f.unknown))
    if V.unknown or V.error:
        L.extra.setdefault("notes", []).append("witness evaluation incomplete: %s" % V.unknown_text())
    else:
        L.floor("C16.R7", "witness families evaluated", n, 150)
    # C16.R8 has no symbolic counterpart: a family of it that cannot be evaluated withholds the verdict
    r8 = [f for f in V.fams if f.rule == "C16.R8"]
    r8_open = [f for f in r8 if f.unknown is not None and f.bad is None]
    for f in r8_open:
        L.deficits.append("w_seq_closure: a sequence witness family could not be evaluated (%s)" % _short_txt(f.unknown, 200))
    if not V.error and not r8_open:
        L.floor("C16.R8", "item definitions with an optional / variable part evaluated in sequences", len(r8), 5)
        L.floor("C16.R8", "sequence round trips and truncations evaluated (items of different lengths)", sum(f.n for f in r8), 850)
    # C16.R10 has no symbolic counterpart either
    r10 = [f for f in V.fams if f.rule == "C16.R10"]
    r10_open = [f for f in r10 if f.unknown is not None and f.bad is None]
    for f in r10_open:
        L.deficits.append("w_bufvals: the buffer value-domain witnesses could not be evaluated (%s)" % _short_txt(f.unknown, 200))
    if not V.error and not r10_open and not any(f.bad for f in r10):
        L.floor("C16.R10", "buffer positions (top level, flexible, nested envelope, one octet, sequence item) evaluated", len(_buf_defs()), 5)
        L.floor("C16.R10", "buffer value witnesses encoded through the public Envelope.to_bytes()", sum(f.n for f in r10), 55)
    # C16.R11 (decoded buffers are octet strings of their own, length callbacks see octet strings): witnesses only
    r11 = [f for f in V.fams if f.rule == "C16.R11"]
    r11_open = [f for f in r11 if f.unknown is not None and f.bad is None]
    for f in r11_open:
        L.deficits.append("w_decoded_own: %s witnesses could not be evaluated (%s)" % (f.func, _short_txt(f.unknown, 200)))
    if not V.error and not r11_open and not any(f.bad for f in r11):
        L.floor("C16.R11", "witness families (decoded buffer values, length callbacks that search the remaining octets)", len(r11), 2)
        L.floor("C16.R11", "decodings from bytes / bytearray witnesses compared with the reference", sum(f.n for f in r11), 60)
    # C16.R9: the code analysis (r9_state) decides where nothing is kept between messages; what it leaves open needs these
    r9 = [f for f in V.fams if f.rule == "C16.R9"]
    if not V.error and r9 and not any(f.unknown is not None and f.bad is None for f in r9):
        L.floor("C16.R9", "definitions / field objects used for a sequence of different messages", len(r9), 10)
        L.floor("C16.R9", "encodings / decodings through an object that processed other messages before", sum(f.n for f in r9), 400)


def witness_verdict(L, repo):
    """semantic rule group: the witness evaluation as a whole (an evaluation that cannot be carried out is recorded in
    the verdict, the symbolic groups then decide whether a verdict is possible without it)"""
    try:
        return Verdict(r7_witnesses(L, repo))
    except AnalysisError as e:
        return Verdict(None, error=str(e))


def run(L, tier):
    repo = Repo(L.repo)
    L.unit(F)
    V = L.stage(witness_verdict, L, repo)
    # every group below is independent: an AnalysisError in one of them is deferred (Ledger.stage / symbolic) and a
    # counterexample or violation recognised by another one is still reported
    for fn in (r1_set_init, r1_field_pair, r1_set_pack, r2_pair, r2_class_table):
        L.stage(symbolic, L, V, fn, repo)
    presence = L.stage(symbolic, L, V, r3_field, repo)
    for fn in (r3_envelope, r3_sequence, r3_nested, r4_errors, r4_classes, r4_spare_buf):
        L.stage(symbolic, L, V, fn, repo)
    L.stage(symbolic, L, V, r5_presence, repo, presence)
    L.stage(symbolic, L, V, r5_defaults, repo)
    L.stage(symbolic, L, V, r6_ownership, repo)
    L.stage(r9_state, L, repo, [V])
    L.stage(commit_witnesses, L, V)
