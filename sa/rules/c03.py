# C03 -- every queued burst is transmitted exactly once, in its own frame.
# Decided: premises of the invariant "every accepted message is in exactly one
# of {queue, emitted at tick FN, logged stale, cleared}".

import ast

from report import AnalysisError
from pyfront import (Repo, CFG, canon, guard_literals, attr_accesses,
                     qualname, calls_in, with_locks_held, enclosing_func, TK)
from pyutil import (params, deep_subst, find_calls, returns, lit_fmt, rel,
                    name_of)
from consteval import fold, Unknown

EXPLANATION = (
    "Lockset, who-may-write and guard analysis of the Tx queue plus a finite "
    "trichotomy case split of the tick classifier: every access to _tx_queue "
    "is under _tx_queue_lock; only append/clear/clck_tick write it; arrivals "
    "are enqueued exactly once iff parsed, version-matched and running; the "
    "tick partitions the queue by the ordering of (message FN, tick FN) into "
    "exactly emit / stale / wait (evaluated under all orderings of the "
    "comparison key), emits each due burst once, logs each stale burst, keeps "
    "the rest; frame numbers are compared modulo the hyperframe; power-off "
    "clears the queue.")
ASSUMPTIONS = [
    "exactly-once over all histories follows from these premises by induction (argued in DESIGN.md, not machine-checked)",
    "threading.Lock semantics; `with lock:` releases on every exit",
]

LOCK = "self._tx_queue_lock"
Q = "_tx_queue"


def r1_r2(L, repo, tier):
    accesses = []
    for m in repo.tk_modules():
        L.unit(m.rel)
        for n, kind in attr_accesses(m.tree, Q):
            accesses.append((m, n, kind))
    L.floor("C03.R1", "_tx_queue accesses in the toolkit", len(accesses), 5)
    writers = {}
    for m, n, kind in accesses:
        f = enclosing_func(n)
        q = qualname(n)
        held = with_locks_held(n, f)
        base = canon(n.value)
        lock_ok = ("%s._tx_queue_lock" % base) in held
        if q.endswith(".__init__") and kind == "store":
            L.ob("C03.R1", m.rel, q, "constructor initialises the queue (object not yet shared)",
                 "store in __init__", kind, True, n.lineno)
        else:
            L.ob("C03.R1", m.rel, q, "%s of %s.%s under the queue lock" % (kind, base, Q),
                 "inside `with %s._tx_queue_lock`" % base, held, lock_ok, n.lineno)
        if kind != "load":
            writers.setdefault(q, []).append(kind)
    allowed = {
        "Transceiver.__init__": ["store"],
        "Transceiver.tx_queue_append": ["mutcall:append"],
        "Transceiver.tx_queue_clear": ["mutcall:clear"],
        "Transceiver.clck_tick": ["store"],
    }
    for q, kinds in sorted(writers.items()):
        L.ob("C03.R2", rel("transceiver"), q, "writer of the Tx queue: %s" % kinds,
             "one of %s" % sorted(allowed), kinds, allowed.get(q) == kinds)
    for q in allowed:
        L.ob("C03.R2", rel("transceiver"), q, "expected queue writer present", allowed[q],
             writers.get(q), writers.get(q) == allowed[q])
    # callers of tx_queue_append / tx_queue_clear
    for m in repo.tk_modules():
        for c in calls_in(m.tree):
            if isinstance(c.func, ast.Attribute) and c.func.attr == "tx_queue_append":
                q = qualname(c)
                L.ob("C03.R2", m.rel, q, "caller of tx_queue_append", "Transceiver.recv_data_msg", q,
                     q == "Transceiver.recv_data_msg", c.lineno)


def r2_arrival(L, repo):
    F = rel("transceiver")
    ci, fd = repo.need_method("transceiver", "Transceiver", "recv_data_msg")
    fn = "Transceiver.recv_data_msg"
    L.fn(F, fn)
    cfg = CFG(fd)
    apps = find_calls(fd, attr="tx_queue_append")
    L.floor("C03.R2", "enqueue call in recv_data_msg", len(apps), 1)
    L.require("C03.R2", F, fn, "number of enqueue calls", 1, len(apps))
    subst = {}
    for c in apps:
        node = cfg.node_of(c)
        lits = guard_literals(cfg, node)
        arg = canon(c.args[0]) if c.args else None
        want = {(arg, True), ("self.running", True)}
        L.require("C03.R2", F, fn, "arrival is enqueued iff it parsed/matched and the transceiver is running",
                  lit_fmt(want), lit_fmt(lits), line=c.lineno)
        # the message comes from the data interface parser
        defs = [n for n in ast.walk(fd) if isinstance(n, ast.Assign) and
                name_of(n.targets[0]) == arg]
        L.require("C03.R2", F, fn, "enqueued object is what recv_tx_msg() returned",
                  ["self.data_if.recv_tx_msg()"], [canon(d.value) for d in defs], line=c.lineno)
        L.ob("C03.R2", F, fn, "enqueue call is not inside a loop (at most once per arrival)",
             None, canon(cfg.in_loop(node)) if cfg.in_loop(node) is not None else None,
             cfg.in_loop(node) is None, c.lineno)
    # ... and every path that has the message and a running transceiver reaches the enqueue: all other exits are
    # guarded by "no message" or "not running" (edge dominance misses an exit hidden under a condition both of whose
    # outcomes can still reach the enqueue, so the exits themselves are examined)
    app_ids = {cfg.node_of(c).id for c in apps}
    for c in apps:
        arg = canon(c.args[0]) if c.args else None
        for n_ in cfg.nodes:
            if n_.kind != "stmt" or not isinstance(n_.ast, (ast.Return, ast.Raise)):
                continue
            if any(cfg.reachable(cfg.node_of(c), n_) for c in apps) and not isinstance(n_.ast, ast.Raise):
                continue           # the return after the enqueue
            lits_ = guard_literals(cfg, n_)
            rejected = (arg, False) in lits_ or ("self.running", False) in lits_ or ("None is %s" % arg, True) in lits_
            L.ob("C03.R2", F, fn, "an exit without enqueueing is taken only for a missing message or an idle transceiver",
                 "guarded by `not %s` or `not self.running`" % arg, lit_fmt(lits_), rejected, n_.line)
    # recv_tx_msg returns the message only after the version matched
    F2 = rel("data_if")
    L.unit(F2)
    ci, rt = repo.need_method("data_if", "DATAInterface", "recv_tx_msg")
    fn2 = "DATAInterface.recv_tx_msg"
    L.fn(F2, fn2)
    cfg2 = CFG(rt)
    rets, implicit = returns(cfg2)
    nmsg = 0
    for node, val in rets:
        if val is None or (isinstance(val, ast.Constant) and val.value is None):
            continue
        nmsg += 1
        lits = guard_literals(cfg2, node)
        want = ("self.match_hdr_ver(%s)" % canon(val), True)
        L.ob("C03.R2", F2, fn2, "a parsed message is handed on only if its header version matches",
             lit_fmt({want}), lit_fmt(lits), want in lits, node.line)
    L.floor("C03.R2", "message-returning paths of recv_tx_msg", nmsg, 1)
    ci, mh = repo.need_method("data_if", "DATAInterface", "match_hdr_ver")
    # match_hdr_ver folded over the whole 4-bit x 4-bit domain (message version, negotiated version)
    from consteval import Ev, Unknown, Raised
    P = params(mh)[1]
    bad, folded = [], True
    for cur in range(16):
        for mv in range(16):
            e = Ev(repo, ci.mod, env={"self._hdr_ver": cur, "%s.ver" % P: mv}, self_cls=ci)
            try:
                r = e.run_block(mh.body)
            except (Unknown, Raised):
                folded = False
                break
            got = bool(r[1]) if isinstance(r, tuple) else False
            if got != (mv == cur):
                bad.append({"message version": mv, "negotiated": cur, "match_hdr_ver": got})
        if not folded:
            break
    if folded:
        L.ob("C03.R2", F2, "DATAInterface.match_hdr_ver", "True exactly when msg.ver equals the negotiated version (folded over all 256 pairs)",
             [], bad[:3], not bad, mh.lineno)
    cfg3 = CFG(mh)
    rets3, _ = returns(cfg3)
    for node, val in ([] if folded else rets3):
        if isinstance(val, ast.Constant) and val.value is True:
            lits = guard_literals(cfg3, node)
            P = params(mh)[1]
            a, b = sorted(["%s.ver" % P, "self._hdr_ver"])
            L.require("C03.R2", F2, "DATAInterface.match_hdr_ver", "True only when msg.ver equals the negotiated version",
                      lit_fmt({("%s == %s" % (a, b), True)}), lit_fmt(lits), line=node.line)


def r2_queue_fold(L, repo):
    """tx_queue_append(m) / tx_queue_clear() folded on witness queues (empty; bursts of other frames; a burst of the same
    frame and another timeslot; a burst of the SAME frame and timeslot - L1 is free to send two): afterwards the queue holds
    everything it held, untouched, plus m itself; clear leaves nothing.  'A burst accepted from L1 ... no burst ever
    vanishes': an accepted burst that is merged into / dropped in favour of another queued one has vanished."""
    from consteval import Ev, Unknown, Raised, Opaque
    F_ = rel("transceiver")
    ci, ap = repo.need_method("transceiver", "Transceiver", "tx_queue_append")
    ci2, cl = repo.need_method("transceiver", "Transceiver", "tx_queue_clear")
    P = params(ap)[1]

    def mk(i, fn_, tn_):
        return {"ident": i, "fn": fn_, "tn": tn_, "pwr": 10 + i, "burst": bytearray([i % 2] * 148), "ver": 0}
    cases = [("an empty queue", []),
             ("bursts of other frames", [mk(1, 99, 3), mk(2, 101, 3)]),
             ("a burst of the same frame, another timeslot", [mk(1, 100, 2)]),
             ("a burst of the same frame and timeslot", [mk(1, 100, 3)]),
             ("two bursts of the same frame and timeslot", [mk(1, 100, 3), mk(2, 100, 3)])]
    rows = []
    try:
        for title, q in cases:
            new = mk(9, 100, 3)
            before = [dict(m, burst=bytes(m["burst"])) for m in q]
            e = Ev(repo, ci.mod, env={"self._tx_queue": list(q), "self._tx_queue_lock": Opaque("lock"), "self.running": True, P: new}, self_cls=ci)
            e.ignore_calls = ("log.", "logging.")
            e.run_block(ap.body)
            after = e.env.get("self._tx_queue")
            if not isinstance(after, list):
                return False
            got = sorted((m.get("ident"), m.get("fn"), m.get("tn"), m.get("pwr"), bytes(m.get("burst") or b"")) if isinstance(m, dict) else repr(m) for m in after)
            want = sorted((m["ident"], m["fn"], m["tn"], m["pwr"], m["burst"]) for m in before + [dict(new, burst=bytes(new["burst"]))])
            same_obj = any(m is new for m in after)
            rows.append((title, want, got, same_obj))
        e = Ev(repo, ci.mod, env={"self._tx_queue": [mk(1, 5, 0), mk(2, 6, 1)], "self._tx_queue_lock": Opaque("lock")}, self_cls=ci)
        e.ignore_calls = ("log.", "logging.")
        e.run_block(cl.body)
        left = e.env.get("self._tx_queue")
    except (Unknown, Raised):
        return False
    L.fn(F_, "Transceiver.tx_queue_append")
    digest = lambda rows_: [(i, f, t, p, len(b), sum(b)) for (i, f, t, p, b) in rows_] if all(isinstance(x, tuple) for x in rows_) else rows_
    for title, want, got, same_obj in rows:
        L.require("C03.R2", F_, "Transceiver.tx_queue_append", "appending a burst for frame 100 / timeslot 3 to %s: everything queued stays as it was and the new burst is queued as well" % title,
                  digest(want), digest(got), line=ap.lineno)
    L.ob("C03.R5", F_, "Transceiver.tx_queue_clear", "tx_queue_clear() leaves the queue empty", [], left if isinstance(left, list) else repr(left),
         isinstance(left, list) and not left, cl.lineno)
    return True


# -- trichotomy ---------------------------------------------------------------

class _Cls:
    """Abstract case of the comparison key."""

    def __init__(self, name, raw=None, d=None):
        self.name, self.raw, self.d = name, raw, d


def eval_test(t, atom):
    if isinstance(t, ast.UnaryOp) and isinstance(t.op, ast.Not):
        v = eval_test(t.operand, atom)
        return None if v is None else (not v)
    if isinstance(t, ast.BoolOp):
        vals = [eval_test(v, atom) for v in t.values]
        if isinstance(t.op, ast.And):
            if any(v is False for v in vals):
                return False
            return None if any(v is None for v in vals) else True
        if any(v is True for v in vals):
            return True
        return None if any(v is None for v in vals) else False
    return atom(t)


def _r3_tick_fold(L, repo):
    """clck_tick() folded on witness queues (messages as objects with a frame number; the forwarder as recording oracle):
    for the tick of frame F - F in the middle of the hyperframe, F = 0 right after the wrap, F = the last frame - exactly
    the messages queued for F are put on the air, with the frame number they were queued for; messages whose frame has
    passed (by 1, 2, half a hyperframe minus one) leave the queue without being sent; messages for later frames (by 1,
    by half a hyperframe) stay queued, in order.  -> False when the method does not fold"""
    from consteval import Ev, Unknown, Raised, Opaque
    ci, fd = repo.need_method("transceiver", "Transceiver", "clck_tick")
    F_ = rel("transceiver")
    fn_ = "Transceiver.clck_tick"
    ps = params(fd)
    HYPER = fold_const(repo)
    rows = []
    for F0 in (1000, 0, HYPER - 1):
        fns = [(F0 - 2) % HYPER, F0, (F0 + 1) % HYPER, (F0 - 1) % HYPER, F0, (F0 + HYPER // 2) % HYPER,
               (F0 - (HYPER // 2 - 1)) % HYPER, (F0 + 5) % HYPER]
        # two of the bursts due in this tick (indices 1 and 4) share the timeslot number as well: nothing in the property makes
        # (FN, TN) a key, each accepted burst goes on the air
        queue = [{"fn": f, "tn": i % 3, "ident": i, "desc_hdr": (lambda a: "fn=.. tn=..")} for i, f in enumerate(fns)]
        sent = []
        warned = []

        def fwd_hook(a, sent=sent):
            m = a[1] if len(a) > 1 else None
            sent.append((m.get("ident"), m.get("fn")) if isinstance(m, dict) else m)
        e = Ev(repo, ci.mod, env={"self.running": True, "self._tx_queue": list(queue), "self._tx_queue_lock": Opaque("lock"),
                                  ps[1]: Opaque("fwd"), ps[2]: F0}, self_cls=ci)
        e.ignore_calls = ("log.debug", "log.info", "logging.")
        e.hooks = {"fwd.forward_msg": fwd_hook, "log.warning": lambda a, warned=warned: warned.append(1),
                   "log.error": lambda a, warned=warned: warned.append(1)}
        try:
            e.run_block(fd.body)
        except (Unknown, Raised):
            return False
        left = e.env.get("self._tx_queue")
        if not isinstance(left, list):
            return False
        want_sent = [(i, f) for i, f in enumerate(fns) if f == F0]
        want_left = [i for i, f in enumerate(fns) if f != F0 and (F0 - f) % HYPER >= HYPER // 2]
        n_stale = len(fns) - len(want_sent) - len(want_left)
        rows.append((F0, want_sent, sent, want_left, [m.get("ident") if isinstance(m, dict) else m for m in left], n_stale, len(warned)))
    L.fn(F_, fn_)
    for F0, ws, gs_, wl, gl, n_stale, n_warn in rows:
        L.ob("C03.R3", F_, fn_, "tick of frame %d: each of the %d bursts whose frame has passed is reported (warning / error log line)" % (F0, n_stale),
             "at least %d log lines" % n_stale, "%d log lines" % n_warn, n_warn >= n_stale, fd.lineno)
        L.require("C03.R3", F_, fn_, "tick of frame %d: exactly the bursts queued for this frame go on the air, each once, with their own frame number" % F0,
                  sorted(ws), sorted(gs_, key=repr), line=fd.lineno)
        L.require("C03.R3", F_, fn_, "tick of frame %d: bursts for later frames stay queued, everything else has left the queue" % F0,
                  sorted(wl), sorted(gl, key=repr), line=fd.lineno)
    return True


def fold_const(repo):
    from consteval import fold as _fold
    return _fold(repo, repo.mod("gsm_shared"), ast.parse("GSM_HYPERFRAME", mode="eval").body)


def r3_partition(L, repo, force_shape=False):
    if not force_shape and _r3_tick_fold(L, repo):
        L.extra["c03_r3_fold"] = True
        # the fold observes what is sent and what stays queued; it does not observe the critical section or the
        # stale report: those clauses of the walk stay real obligations
        L.structural("C03.R3 decision table of the partition loop in clck_tick", r3_partition, L, repo, True,
                     hard=lambda rule, key: rule == "C03.R1" or "stale message is reported" in key or "critical section" in key)
        return
    F = rel("transceiver")
    ci, fd = repo.need_method("transceiver", "Transceiver", "clck_tick")
    fn = "Transceiver.clck_tick"
    L.fn(F, fn)
    mod = repo.mod("transceiver")
    ps = params(fd)
    if len(ps) != 3:
        raise AnalysisError("clck_tick signature changed")
    FWD, FN = ps[1], ps[2]
    cfg = CFG(fd)
    # the loop over the queue
    loops = [n for n in ast.walk(fd) if isinstance(n, ast.For) and canon(n.iter) == "self._tx_queue"]
    L.floor("C03.R3", "loop over the queue in clck_tick", len(loops), 1)
    if len(loops) != 1:
        L.require("C03.R3", F, fn, "number of loops over the queue", 1, len(loops))
        return
    loop = loops[0]
    M = name_of(loop.target)
    brk = [n for n in ast.walk(loop) if isinstance(n, (ast.Break, ast.Return))]
    L.require("C03.R3", F, fn, "break/return inside the partition loop", 0, len(brk), line=loop.lineno)
    try:
        H = fold(repo, repo.mod("gsm_shared"), ast.parse("GSM_HYPERFRAME", mode="eval").body)
    except Unknown:
        raise AnalysisError("GSM_HYPERFRAME does not fold")
    subst = deep_subst(fd, exclude=(M,))
    msgfn = "%s.fn" % M
    half = H // 2
    # Finite case split of the comparison key.  The classifier is
    # comparison-only code over (message FN, tick FN); each abstract case
    # (due / future / past, near and far, with and without the hyperframe
    # wrap between the two numbers) is represented by boundary witnesses and
    # the conditions are folded by the checker's own constant evaluator.
    cases = [
        ("due@0", 0, 0), ("due@mid", 1000, 1000), ("due@H-1", H - 1, H - 1),
        ("future@+1", 11, 10), ("future@+1,wrap", 0, H - 1), ("future@+2,wrap", 1, H - 1),
        ("future@+25", 35, 10), ("future@+25,wrap", 12, H - 13),
        ("future@half-1", 10 + half - 1, 10), ("future@half-1,wrap", half - 11, H - 10),
        ("past@-1", 9, 10), ("past@-1,wrap", H - 1, 0), ("past@-2,wrap", H - 2, 0),
        ("past@-25", 10, 35), ("past@-25,wrap", H - 13, 12),
        ("past@half-1", 10, 10 + half - 1), ("past@half-1,wrap", H - 10, half - 11),
    ]

    def make_atom(mv, cv):
        def atom(t):
            env = dict(loc)
            env[msgfn] = mv
            env[FN] = cv
            try:
                v = fold(repo, mod, t, env=env)
            except Exception:
                return None
            return bool(v)
        return atom

    loc = {}

    def walk(stmts, mv, cv, out):
        atom = make_atom(mv, cv)
        for st in stmts:
            if isinstance(st, ast.If):
                v = eval_test(st.test, atom)
                if v is None:
                    raise AnalysisError("clck_tick: partition condition unclassifiable: %s" % canon(st.test))
                r = walk(st.body if v else st.orelse, mv, cv, out)
                if r == "continue":
                    return r
            elif isinstance(st, ast.Continue):
                return "continue"
            elif isinstance(st, ast.Expr) and isinstance(st.value, ast.Call) and \
                    isinstance(st.value.func, ast.Attribute) and st.value.func.attr == "append" \
                    and len(st.value.args) == 1 and canon(st.value.args[0]) == M:
                out.append(canon(st.value.func.value))
            elif isinstance(st, ast.Assign) and len(st.targets) == 1 and isinstance(st.targets[0], ast.Name):
                # loop-local temporary (e.g. the modular distance)
                env = dict(loc)
                env[msgfn] = mv
                env[FN] = cv
                try:
                    loc[st.targets[0].id] = fold(repo, mod, st.value, env=env)
                except Exception:
                    raise AnalysisError("clck_tick: loop-local `%s` does not fold" % canon(st)[:60])
            elif isinstance(st, ast.Expr) and isinstance(st.value, ast.Call) and \
                    canon(st.value.func).startswith("log."):
                pass
            elif isinstance(st, ast.Pass):
                pass
            else:
                raise AnalysisError("clck_tick: statement in partition loop unclassifiable: %s" % canon(st)[:60])
        return None

    # roles of the three lists
    wait_store = [n for n in ast.walk(fd) if isinstance(n, ast.Assign) and
                  canon(n.targets[0]) == "self._tx_queue"]
    L.require("C03.R3", F, fn, "number of stores replacing the queue", 1, len(wait_store))
    if len(wait_store) != 1:
        return
    WAIT = canon(wait_store[0].value)
    # same critical section as the read
    def with_of(n):
        cur = getattr(n, "_parent", None)
        while cur is not None and not isinstance(cur, ast.With):
            cur = getattr(cur, "_parent", None)
        return cur
    L.ob("C03.R1", F, fn, "queue is read and replaced inside one critical section (no arrival can be lost between)",
         "same `with` statement", "different" if with_of(loop) is not with_of(wait_store[0]) else "same",
         with_of(loop) is not None and with_of(loop) is with_of(wait_store[0]), wait_store[0].lineno)
    L.ob("C03.R3", F, fn, "queue replacement follows the partition loop",
         "after loop", "line %d vs loop end %d" % (wait_store[0].lineno, loop.end_lineno),
         wait_store[0].lineno > loop.end_lineno, wait_store[0].lineno)
    fwd_calls = find_calls(fd, attr="forward_msg")
    L.require("C03.R3", F, fn, "number of forward_msg calls", 1, len(fwd_calls))
    EMIT = DROP = None
    emit_loop = None
    for c in fwd_calls:
        node = cfg.node_of(c)
        lp = cfg.in_loop(node)
        if lp is None or not isinstance(lp, ast.For):
            L.ob("C03.R3", F, fn, "forward_msg is called per due message", "in a loop over the due list", "not in a loop", False, c.lineno)
            continue
        emit_loop = lp
        EMIT = canon(lp.iter)
        mv = name_of(lp.target)
        lits = guard_literals(cfg, node)
        # a test that the queue is not empty withholds nothing: with an empty queue there is no due message
        benign = {("self._tx_queue", True), ("0 < len(self._tx_queue)", True), ("0 == len(self._tx_queue)", False)}
        lits = set(lits) - benign
        want = {("for %s in %s" % (mv, EMIT), True), ("self.running", True)}
        L.require("C03.R3", F, fn, "each due message is forwarded unconditionally, once",
                  lit_fmt(want), lit_fmt(lits), line=c.lineno)
        L.require("C03.R3", F, fn, "forward_msg(sender=self, message=loop element)", ["self", mv],
                  [canon(a) for a in c.args], line=c.lineno)
        L.require("C03.R3", F, fn, "forwarder used is the one given to the tick", FWD, canon(c.func.value), line=c.lineno)
        brk2 = [n for n in ast.walk(lp) if isinstance(n, (ast.Break, ast.Return, ast.Continue))]
        L.require("C03.R3", F, fn, "break/return/continue inside the emit loop", 0, len(brk2), line=lp.lineno)
    # stale list: a loop (other than partition & emit) whose body logs
    for n in ast.walk(fd):
        if isinstance(n, ast.For) and n is not loop and n is not emit_loop:
            logs = [c for c in calls_in(n) if canon(c.func).startswith("log.")]
            if logs:
                DROP = canon(n.iter)
                node = cfg.node_of(logs[0])
                lits = set(guard_literals(cfg, node)) - {("self._tx_queue", True), ("0 < len(self._tx_queue)", True),
                                                         ("0 == len(self._tx_queue)", False)}
                want = {("for %s in %s" % (canon(n.target), DROP), True), ("self.running", True)}
                L.require("C03.R3", F, fn, "every stale message is reported", lit_fmt(want), lit_fmt(lits),
                          line=logs[0].lineno)
    direct_log = False
    if DROP is None:
        # accepted alternative: stale messages are logged directly inside the partition loop
        direct_log = True
    if EMIT is None:
        raise AnalysisError("clck_tick: emit list not identified")
    # lists must be fresh locals ([]), distinct
    for nm in {EMIT, WAIT} | ({DROP} if DROP else set()):
        defs = [n for n in ast.walk(fd) if isinstance(n, ast.Assign) and canon(n.targets[0]) == nm]
        ok = len(defs) == 1 and canon(defs[0].value) == "[]" and defs[0].lineno < loop.lineno
        L.ob("C03.R3", F, fn, "partition list `%s` starts empty before the loop" % nm, "[] (one definition)",
             [canon(d.value) for d in defs], ok, defs[0].lineno if defs else None)
    L.ob("C03.R3", F, fn, "emit / wait / stale lists are distinct", "3 distinct",
         [EMIT, WAIT, DROP], len({EMIT, WAIT, DROP}) == 3 or (direct_log and EMIT != WAIT))
    expect = {"due": EMIT, "future": WAIT, "past": DROP}
    # evaluate the classifier under every abstract case
    results = {}
    for (cname, mv, cv) in cases:
        out = []
        loc.clear()
        walk(loop.body, mv, cv, out)
        results[cname] = out
        cls = cname.split("@")[0]
        want = [expect[cls]] if expect[cls] else []
        if cls == "past" and direct_log:
            want = []
        L.require("C03.R3", F, fn, "classifier case %s (msg FN %d, tick FN %d): message goes to exactly one list" % (cname, mv, cv),
                  want, out, line=loop.lineno)
    L.extra["c03_partition_cases"] = results
    return loop, M, FN


def r4_modular(L, repo, tier):
    """A message FN and a clock FN are values modulo the hyperframe: ordering
    them with a raw relational operator is wrong at the wrap."""
    F = rel("transceiver")
    n_sites = 0
    mods = ["transceiver"] if tier == "quick" else [m.name for m in repo.tk_modules()]
    for mn in mods:
        m = repo.mod(mn)
        for fdef in ast.walk(m.tree):
            if not isinstance(fdef, ast.FunctionDef):
                continue
            ps = params(fdef)
            clock_names = set()
            if fdef.name in ("clck_tick", "clck_handler") and "fn" in ps:
                clock_names.add("fn")
            if not clock_names:
                continue
            subst = deep_subst(fdef)
            for c in ast.walk(fdef):
                if not isinstance(c, ast.Compare) or len(c.ops) != 1:
                    continue
                a, b = c.left, c.comparators[0]

                def kind(e):
                    t = canon(e)
                    if t in clock_names:
                        return "clk"
                    if isinstance(e, ast.Attribute) and e.attr == "fn" and not (
                            isinstance(e.value, ast.Name) and e.value.id == "self"):
                        return "msg"
                    return None
                ks = {kind(a), kind(b)}
                st_ = c
                while st_ is not None and not isinstance(st_, ast.stmt):
                    st_ = getattr(st_, "_parent", None)
                if isinstance(st_, ast.Expr) and isinstance(st_.value, ast.Call) and canon(st_.value.func).startswith(("log.", "logging.")):
                    continue        # wording of a log line: decides nothing
                if ks == {"clk", "msg"}:
                    n_sites += 1
                    ordering = isinstance(c.ops[0], (ast.Lt, ast.LtE, ast.Gt, ast.GtE))
                    L.ob("C03.R4", m.rel, qualname(c),
                         "message FN compared with clock FN: `%s`" % canon(c),
                         "equality, or ordering of the modular distance (a - b) % GSM_HYPERFRAME",
                         "raw ordering comparison" if ordering else "equality", not ordering, c.lineno)
    return n_sites


def who_may_clear(L, repo, rule):
    # who may discard queued bursts: only the power-off path. A burst accepted into the queue is transmitted in its
    # frame (or reported stale); any other caller of tx_queue_clear() loses bursts that arrived in time
    # (e.g. RFMUTE must turn them into NOPE indications, not drop them: C18).
    n_call = 0
    for m in repo.tk_modules():
        for c in calls_in(m.tree):
            f = c.func
            if isinstance(f, ast.Attribute) and f.attr == "tx_queue_clear":
                n_call += 1
                qn = qualname(c)
                from pyutil import owners
                own = owners(m, c)
                L.unit(m.rel)
                L.ob(rule, m.rel, qn, "queued bursts are discarded only by the power-off handler: `%s`" % canon(c)[:50],
                     "Transceiver.power_event_handler", sorted(own), own <= {"Transceiver.power_event_handler"}, c.lineno)
    L.floor(rule, "tx_queue_clear call sites in the toolkit", n_call, 1)



def r5_poweroff(L, repo):
    F = rel("transceiver")
    ci, fd = repo.need_method("transceiver", "Transceiver", "power_event_handler")
    fn = "Transceiver.power_event_handler"
    L.fn(F, fn)
    P = params(fd)[1]
    cfg = CFG(fd)
    calls = find_calls(fd, attr="tx_queue_clear")
    L.floor("C03.R5", "tx_queue_clear call in power_event_handler", len(calls), 1)
    for c in calls:
        node = cfg.node_of(c)
        lp = cfg.in_loop(node)
        lits = guard_literals(cfg, node)
        V = canon(c.func.value)
        want = {(P, False)}
        if lp is not None:
            want.add(("for %s in %s" % (canon(lp.target), canon(lp.iter)), True))
        L.require("C03.R5", F, fn, "power-off clears the queue of every selected transceiver",
                  lit_fmt(want), lit_fmt(lits), line=c.lineno)
        L.ob("C03.R5", F, fn, "queue cleared is the loop transceiver's", "loop variable",
             V, lp is not None and V == canon(lp.target), c.lineno)
    who_may_clear(L, repo, "C03.R5")


def r6_queued_identity(L, repo):
    """R6 (each accepted burst is its own queue entry): the message object an arrival puts into the transmit queue is
    created for that datagram.  DATAInterface.recv_tx_msg() must return a message constructed during the call (or
    None); an object kept in an attribute and handed out again would make several queue entries one object, which the
    next datagram overwrites - earlier bursts vanish and the last one is sent several times."""
    from pyutil import return_origins
    ci, fd = repo.need_method("data_if", "DATAInterface", "recv_tx_msg")
    F2 = rel("data_if")
    fn = "DATAInterface.recv_tx_msg"
    L.unit(F2)
    L.fn(F2, fn)
    kinds = list(return_origins(repo, ci, fd))
    bad = sorted({t for k, _n, t, _r in kinds if k in ("shared", "param")})
    unk = sorted({t for k, _n, t, _r in kinds if k == "unknown"})
    if unk and not bad:
        raise AnalysisError("%s: origin of the returned message is not classifiable (%s)" % (fn, unk[0]))
    L.ob("C03.R6", F2, fn, "the message returned for a datagram is an object created during this call", "a new TxMsg (or None)",
         bad[:3] or "fresh", not bad, fd.lineno)
    L.floor("C03.R6", "returns of recv_tx_msg classified", len(kinds), 2)
    # the arrival path appends exactly what it received (no stored object)
    c2, rd = repo.need_method("transceiver", "Transceiver", "recv_data_msg")
    fnr = "Transceiver.recv_data_msg"
    apps = [c for c in calls_in(rd) if canon(c.func).endswith("tx_queue_append")]
    for c in apps:
        a0 = c.args[0] if c.args else None
        kinds2 = list(return_origins(repo, c2, rd, exprs=[a0])) if a0 is not None else []
        # what is appended must come from recv_tx_msg() of this call
        ok = bool(kinds2) and all(k in ("fresh", "unknown") for k, _n, _t, _e in kinds2) and any(
            "recv_tx_msg" in t for k, _n, t, _e in kinds2) or (isinstance(a0, ast.Name) and any(
                isinstance(x, ast.Assign) and any(isinstance(t, ast.Name) and t.id == a0.id for t in x.targets) and "recv_tx_msg" in canon(x.value)
                for x in ast.walk(rd)))
        L.ob("C03.R6", rel("transceiver"), fnr, "what is queued is the message just received", "msg = self.data_if.recv_tx_msg()",
             canon(a0) if a0 is not None else None, ok, c.lineno)


def run(L, tier):
    repo = Repo(L.repo)
    L.unit(rel("transceiver"))
    L.stage(r1_r2, L, repo, tier)
    L.stage(r2_arrival, L, repo)
    L.stage(r2_queue_fold, L, repo)
    L.stage(r3_partition, L, repo)
    n = L.stage(r4_modular, L, repo, tier)
    L.stage(r5_poweroff, L, repo)
    L.stage(r6_queued_identity, L, repo)
