# C13 -- validation accepts exactly the protocol value ranges; nothing
# invalid is sent.  validate() is comparison-only code, so the accepted set
# is computed (abstract interpretation, interval/enum domains) and compared
# with the reference range table, for all field values at once.

import ast
import json
import os

from report import AnalysisError, VERIF
from pyfront import Repo, CFG, canon, guard_literals, calls_in, qualname, TK
from pyutil import params, find_calls, rel, lit_fmt, name_of
from absdom import IntSet, Dom, INF, boxes_minus, box_meet, box_empty, box_fmt
from accept import Extractor, OTHER
from consteval import fold, Unknown

EXPLANATION = (
    "Accepted-set extraction: Msg/TxMsg/RxMsg.validate and the burst "
    "validators are interpreted abstractly with every field symbolic "
    "(integer-interval | None | enum-symbol domains, raise prunes the path). "
    "The union of accepting states is compared, per field and as a whole "
    "(exact box algebra), with /verif/spec/ranges.json. Every reachable raise "
    "must be ValueError, no ordering comparison or %d formatting may touch a "
    "possibly-None field, validate() must dominate every buffer write in "
    "gen_msg, and send() must be unreachable from send_msg's rejection "
    "handler. This covers all field assignments, not boundary samples.")
ASSUMPTIONS = [
    "fields hold ints or None (the property's quantifier: values inside/on/outside ranges and None); other types are out of scope",
    "spec/ranges.json transcribes the ranges of the property statement",
    "a validation condition that calls a repository function on one integer field (e.g. Modulation.pick_by_bl(len(burst))) is folded on "
    "critical points: the callee is checked to use its argument only inside comparisons, and the points are c-1, c, c+1 for every integer "
    "the involved modules' literals, module constants and class attributes (enum member tuples) fold to; between two neighbouring points "
    "the result is required to agree at both ends and taken as constant",
]

F = rel("data_msg")


def field_table(repo, ci):
    """message fields of class ci: attributes assigned in __init__ plus
    lower-case class-level defaults, with their kind."""
    fields = {}
    for c in reversed(repo.mro(ci)):
        init = c.methods.get("__init__")
        if init is not None:
            for n in ast.walk(init):
                if isinstance(n, ast.Attribute) and isinstance(n.ctx, ast.Store) and \
                        isinstance(n.value, ast.Name) and n.value.id == "self":
                    fields[n.attr] = "int"
        for name, val in c.attrs.items():
            if name.startswith("_") or name.upper() == name:
                continue
            if isinstance(val, ast.Constant) and isinstance(val.value, bool):
                fields[name] = "bool"
            elif isinstance(val, ast.Attribute):
                fields[name] = "enum"
            elif isinstance(val, ast.Constant) and val.value is None:
                fields[name] = "int"
    if "burst" in fields:
        fields["burst"] = "obj"
    return fields


def dom_of(spec):
    if spec == "present":
        return Dom(IntSet([(1, 1)]), False)
    if spec == "absent":
        return Dom(IntSet(), True)
    if isinstance(spec, dict) and "set" in spec:
        return Dom(IntSet.of(spec["set"]), False)
    if isinstance(spec, list) and len(spec) == 2:
        return Dom(IntSet([(spec[0], spec[1])]), False)
    raise AnalysisError("ranges.json: bad entry %r" % (spec,))


def spec_boxes(spec, clsname, ex):
    out = []
    for sc in spec[clsname]:
        base = {}
        for k, v in sc.items():
            if k in ("name", "per_modulation"):
                continue
            if k not in ex.fields:
                raise AnalysisError("ranges.json names field %s unknown to %s" % (k, clsname))
            base[k] = dom_of(v)
        if "per_modulation" in sc:
            pm = sc["per_modulation"]
            for m in ex.members:
                b = dict(base)
                b["mod_type"] = Dom(IntSet(), False, frozenset([m.name]))
                kind = "GMSK" if m.name == "ModGMSK" else "other"
                b["tsc_set"] = dom_of(pm["tsc_set"][kind])
                bl = spec["modulation_burst_len"].get(m.name)
                if bl is None:
                    raise AnalysisError("ranges.json: no burst length for modulation %s" % m.name)
                b["len(burst)"] = Dom(IntSet([(bl, bl)]), False)
                out.append((sc["name"] + "/" + m.name, b))
        else:
            out.append((sc["name"], base))
    return out


DISCRETE = ("ver", "nope_ind", "mod_type", "burst")


def r1_r2(L, repo, spec):
    mod = repo.mod("data_msg")
    L.unit(F)
    enum_ci = repo.need_class("data_msg", "Modulation")
    n_raise = 0
    for clsname in ("TxMsg", "RxMsg"):
        ci = repo.need_class("data_msg", clsname)
        fields = field_table(repo, ci)
        ex = Extractor(repo, ci, enum_ci, fields)
        acc = ex.run("validate")
        top = ex.tops()
        L.fn(F, clsname + ".validate")
        sboxes = spec_boxes(spec, clsname, ex)
        L.extra.setdefault("accepted_boxes", {})[clsname] = [box_fmt(a, top) for a in acc][:40]
        # per-field projections
        for sname, sb in sboxes:
            sel = {k: sb[k] for k in DISCRETE if k in sb}
            hits = [a for a in acc if not box_empty(box_meet(a, sel))]
            for f in sorted(sb):
                if f in DISCRETE:
                    continue
                proj = Dom()
                for a in hits:
                    proj = proj.join(box_meet(a, sel)[f])
                L.ob("C13.R1", F, clsname + ".validate",
                     "accepted set of field `%s` in scenario `%s`" % (f, sname),
                     repr(sb[f]), repr(proj), proj == sb[f])
            L.ob("C13.R1", F, clsname + ".validate", "scenario `%s` is accepted at all" % sname,
                 "some accepting path", "%d accepting paths" % len(hits), len(hits) > 0)
        # whole-set equality (catches coupling between fields and unknown scenarios)
        S = [b for _, b in sboxes]
        try:
            extra = boxes_minus(acc, S, top)
            missing = boxes_minus(S, acc, top)
        except OverflowError:
            raise AnalysisError("box algebra blow-up for %s" % clsname)
        L.ob("C13.R1", F, clsname + ".validate", "nothing outside the protocol ranges validates (%s)" % clsname,
             "accepted \\ spec = {}", [box_fmt(b, top) for b in extra[:3]], not extra)
        L.ob("C13.R1", F, clsname + ".validate", "everything inside the protocol ranges validates (%s)" % clsname,
             "spec \\ accepted = {}", [box_fmt(b, top) for b in missing[:3]], not missing)
        # R2: only ValueError; None first; message building is total
        seen = set()
        for node, cls, st, qn in ex.raises:
            if id(node) in seen:
                continue
            seen.add(id(node))
            n_raise += 1
            L.ob("C13.R2", F, qn, "rejection `%s` raises ValueError" % canon(node)[:70], "ValueError", cls,
                 cls == "ValueError", node.lineno)
        for node, var in {(id(n), v): (n, v) for n, v in ex.none_cmp}.values():
            L.ob("C13.R2", F, clsname + ".validate",
                 "ordering comparison `%s` on a field that may still be None (TypeError instead of ValueError)" % canon(node),
                 "`%s is None` rejected before" % var, "not rejected", False, node.lineno)
        for node, var, cv in {(id(n), v): (n, v, c) for n, v, c in ex.fmt_none}.values():
            L.ob("C13.R2", F, qualname(node),
                 "rejection message `%s` formats possibly-None field `%s` with %%%s (TypeError escapes instead of ValueError)" % (
                     canon(node)[:60], var, cv),
                 "operand proven non-None or %s conversion", "%%%s of maybe-None" % cv, False, node.lineno)
        L.ob("C13.R2", F, clsname + ".validate", "validation is comparison-only (%d abstract steps, %d accepting boxes)" % (
            ex.steps, len(acc)), "classified", "classified", True)
    L.floor("C13.R2", "raise sites reachable from validate()", n_raise, 20)


def r3_validate_first(L, repo):
    n = 0
    for m in repo.tk_modules():
        for ci in m.classes.values():
            if "gen_msg" not in ci.methods:
                continue
            names = [c.name for c in repo.mro(ci)]
            if "Msg" not in names and ci.name != "Msg":
                continue
            n += 1
            fd = ci.methods["gen_msg"]
            fn = ci.name + ".gen_msg"
            L.unit(m.rel)
            L.fn(m.rel, fn)
            cfg = CFG(fd)
            vcalls = [c for c in find_calls(fd, attr="validate") if canon(c.func.value) == "self"]
            L.ob("C13.R3", m.rel, fn, "encoder calls self.validate()", ">=1", len(vcalls), len(vcalls) >= 1, fd.lineno)
            if not vcalls:
                continue
            vnode = cfg.node_of(vcalls[0])
            L.ob("C13.R3", m.rel, fn, "validate() is not conditional", [], lit_fmt(guard_literals(cfg, vnode)),
                 not guard_literals(cfg, vnode), vnode.line)
            cnt = 0
            for node in cfg.stmts():
                if node is vnode or node.kind not in ("stmt",):
                    continue
                a = node.ast
                emits = isinstance(a, ast.Return) or any(
                    isinstance(x, ast.Name) and x.id == "buf" for x in ast.walk(a)) or \
                    any(isinstance(c.func, ast.Attribute) and c.func.attr.startswith("append_") for c in calls_in(a))
                if not emits:
                    continue
                cnt += 1
                L.ob("C13.R3", m.rel, fn, "validate() dominates `%s`" % canon(a)[:50], "dominated",
                     "dominated" if cfg.dominates(vnode, node) else "reachable without validation",
                     cfg.dominates(vnode, node), node.line)
            L.floor("C13.R3", "buffer writes / returns in gen_msg", cnt, 4)
    L.floor("C13.R3", "gen_msg implementations", n, 1)


def r4_send(L, repo, tier):
    ci, fd = repo.need_method("data_if", "DATAInterface", "send_msg")
    F2 = rel("data_if")
    fn = "DATAInterface.send_msg"
    L.unit(F2)
    L.fn(F2, fn)
    cfg = CFG(fd)
    sends = [c for c in calls_in(fd) if isinstance(c.func, ast.Attribute) and
             c.func.attr in ("send", "sendto")]
    L.floor("C13.R4", "send call in send_msg", len(sends), 1)
    gens = find_calls(fd, attr="gen_msg")
    L.floor("C13.R4", "gen_msg call in send_msg", len(gens), 1)
    handlers = [n for n in cfg.nodes if n.kind == "handler"]
    L.ob("C13.R4", F2, fn, "encoding errors are handled in send_msg", ">=1 except handler", len(handlers),
         len(handlers) >= 1)
    tns = [None if h.ast.type is None else canon(h.ast.type) for h in handlers]
    L.ob("C13.R4", F2, fn, "a handler of send_msg catches ValueError", "ValueError (or broader)", tns,
         any(tn in (None, "ValueError", "Exception", "BaseException") or (tn and "ValueError" in tn) for tn in tns), fd.lineno)
    for h in handlers:
        for s in sends:
            sn = cfg.node_of(s)
            L.ob("C13.R4", F2, fn, "no datagram is emitted after a rejected encode (`%s` unreachable from the handler)" % canon(s),
                 "unreachable", "reachable" if cfg.reachable(h, sn) else "unreachable",
                 not cfg.reachable(h, sn), s.lineno)
    # ... nor through a method that sends (transitively): closure over the self-calls of the interface's classes
    meths = {}
    for c_ in reversed(repo.mro(ci)):
        meths.update(c_.methods)
    sending = {"send", "sendto"}
    changed = True
    while changed:
        changed = False
        for nm, m_ in meths.items():
            if nm in sending:
                continue
            for c in calls_in(m_):
                if isinstance(c.func, ast.Attribute) and c.func.attr in sending and (
                        canon(c.func.value) in ("self", "self.sock") or canon(c.func.value).endswith("Link") or canon(c.func.value) == "super()"):
                    sending.add(nm)
                    changed = True
                    break
    for h in handlers:
        reach = cfg.reach(h)
        bad = []
        for n_ in cfg.nodes:
            if n_.id in reach and n_.ast is not None and n_.kind in ("stmt", "cond", "loop", "with"):
                own = n_.ast if n_.kind == "stmt" else (n_.ast.test if n_.kind == "cond" else n_.ast.iter if n_.kind == "loop" else None)
                if own is None:
                    continue
                for c in [x for x in ast.walk(own) if isinstance(x, ast.Call)]:
                    if isinstance(c.func, ast.Attribute) and c.func.attr in sending and canon(c.func.value) in ("self", "super()"):
                        bad.append(canon(c)[:60])
        L.ob("C13.R4", F2, fn, "no datagram is emitted after a rejected encode: nothing reachable from the handler calls a sending method (%s)" % ", ".join(sorted(sending)),
             [], bad, not bad, h.line)
    # ... and a message that did encode IS sent: once gen_msg() has returned, every path to the end of send_msg() passes
    # the send (no size / state condition may withhold a valid message)
    send_nodes = [cfg.node_of(s_) for s_ in sends]
    send_ids = {n_.id for n_ in send_nodes}
    for g in gens:
        gn = cfg.node_of(g)
        # names that hold what gen_msg() returned (the encoded datagram: never None, R3): a test of such a name against
        # None is decided
        held = set()
        par = getattr(g, "_parent", None)
        if isinstance(par, ast.Assign):
            held |= {t.id for t in par.targets if isinstance(t, ast.Name)}
        grew = True
        while grew:
            grew = False
            for x in ast.walk(fd):
                if isinstance(x, ast.Assign) and isinstance(x.value, ast.Name) and x.value.id in held:
                    for t in x.targets:
                        if isinstance(t, ast.Name) and t.id not in held:
                            # (a name that is also bound to None on the rejection path still holds the datagram on this one)
                            held.add(t.id)
                            grew = True
        seen, work = {gn.id}, [gn]
        while work:
            n_ = work.pop()
            for (s_, lab) in n_.succ:
                if lab == "exc" or s_.id in seen or s_.id in send_ids:
                    continue
                if n_.kind == "cond" and n_ is not gn and _decided_by_datagram(repo, ci, n_.ast.test, held) is not None \
                        and _decided_by_datagram(repo, ci, n_.ast.test, held) != bool(lab):
                    continue        # a test of the datagram itself (type, length) that every datagram gen_msg() produces decides the other way
                if n_.kind == "cond" and n_ is not gn:
                    t_ = n_.ast.test
                    if isinstance(t_, ast.Compare) and len(t_.ops) == 1 and isinstance(t_.left, ast.Name) and t_.left.id in held \
                            and isinstance(t_.comparators[0], ast.Constant) and t_.comparators[0].value is None:
                        is_none_edge = (isinstance(t_.ops[0], (ast.Is, ast.Eq)) and lab is True) or (isinstance(t_.ops[0], (ast.IsNot, ast.NotEq)) and lab is False)
                        if is_none_edge:
                            continue
                seen.add(s_.id)
                work.append(s_)
        L.ob("C13.R4", F2, fn, "a message that encoded without error is sent on every path (nothing between gen_msg() and the send can skip it)",
             "the send post-dominates the successful encode", "an exit is reachable without sending" if cfg.exit.id in seen else "post-dominates",
             cfg.exit.id not in seen, g.lineno)
    for g in gens:
        gn = cfg.node_of(g)
        L.ob("C13.R4", F2, fn, "gen_msg() is called inside the try block", "inside try", len(gn.trys),
             len(gn.trys) >= 1, g.lineno)
    for s in sends:
        arg = s.args[0] if s.args else None
        src = None
        if isinstance(arg, ast.Name):
            # follow plain copies; a `None` assigned on the rejection path is not what is sent (the send is not reached
            # from there, see above)
            def srcs(nm, depth=0):
                out_ = []
                for d in [n for n in ast.walk(fd) if isinstance(n, ast.Assign) and name_of(n.targets[0]) == nm]:
                    if isinstance(d.value, ast.Constant) and d.value.value is None:
                        continue
                    if isinstance(d.value, ast.Name) and depth < 3:
                        out_ += srcs(d.value.id, depth + 1) or [d.value.id]
                    else:
                        out_.append(canon(d.value))
                return out_
            src = srcs(arg.id)
        ok = src is not None and len(src) == 1 and ".gen_msg(" in src[0]
        L.ob("C13.R4", F2, fn, "what is sent is exactly what gen_msg() returned", "payload = msg.gen_msg(...)", src, ok, s.lineno)
    # who-may-send on a data interface, bypassing send_msg
    n_sites = 0
    mods = repo.tk_modules()
    for m in mods:
        L.unit(m.rel)
        for c in calls_in(m.tree):
            f = c.func
            if not isinstance(f, ast.Attribute) or f.attr not in ("send", "sendto"):
                continue
            recv = canon(f.value)
            if "data_if" in recv:
                n_sites += 1
                L.ob("C13.R4", m.rel, qualname(c), "raw send on a data interface `%s`" % canon(c)[:60],
                     "only through send_msg()", "bypasses validation", False, c.lineno)
    return n_sites


def r5_c_bound(L, repo, spec):
    """Upper FN bound agreement with GSM_HYPERFRAME constant of gsm_shared."""
    try:
        H = fold(repo, repo.mod("gsm_shared"), ast.parse("GSM_HYPERFRAME", mode="eval").body)
    except Unknown:
        raise AnalysisError("GSM_HYPERFRAME does not fold")
    L.unit(rel("gsm_shared"))
    L.require("C13.R5", rel("gsm_shared"), "<module>", "GSM_HYPERFRAME folds to the TS 45.002 hyperframe length",
              spec["hyperframe"], H)
    kv = fold(repo, repo.mod("data_msg"), ast.parse("Msg.KNOWN_VERSIONS", mode="eval").body)
    L.require("C13.R5", F, "Msg", "KNOWN_VERSIONS", spec["known_versions"], list(kv))


def r1_witness_fold(L, repo, spec):
    """R1 decided on boundary witnesses when the accepted-set extraction leaves its vocabulary (a `try` around a property,
    a helper with its own control flow): validate() is folded by the evaluator for one valid base message per scenario and,
    for every field, the values just inside and just outside its protocol range and None - it must raise ValueError
    exactly for the values outside (version witnesses: -1, 0, 1, 2, 15, 16, 100).  The decision procedure of validate() is
    comparisons of one field with constants, so its verdict is constant between the boundaries probed."""
    from consteval import Ev, Raised, Arr
    mod = repo.mod("data_msg")
    mci = repo.need_class("data_msg", "Modulation")
    members = {m.name: m for m in Ev(repo, mod).enum_members(mci)}
    n = 0

    session = {}        # class-level / module-level containers live as long as the process: one state for all witnesses

    def verdict(ci, flds):
        e = Ev(repo, ci.mod, env={"self." + k: v for k, v in flds.items()}, self_cls=ci)
        e.gstate = session
        e.ignore_calls = ("log.", "logging.")
        c, v = repo.find_method(ci, "validate")
        try:
            e.call_func(v, c.mod, [("self", "<self>")], self_cls=ci, writeback=False)
            return "accepted"
        except Raised as ex:
            return "raises %s" % ex.cls
        except Unknown as ex:
            raise AnalysisError("validate() does not fold on a witness: %s" % ex)
    scen = []
    tx = spec["TxMsg"][0]
    for ver in (0, 1):
        scen.append(("TxMsg", "Tx v%d" % ver, {"ver": ver, "fn": 1000, "tn": 3, "pwr": 10, "burst": bytearray([1, 0] * 74)},
                     {"fn": tx["fn"], "tn": tx["tn"], "pwr": tx["pwr"]}, [148, 444], lambda n_: bytearray([1] * n_)))
    for sc in spec["RxMsg"]:
        if sc["name"] == "Rx v0":
            scen.append(("RxMsg", "Rx v0", {"ver": 0, "fn": 1000, "tn": 3, "rssi": -60, "toa256": 0, "burst": Arr("b", [1] * 148)},
                         {k: sc[k] for k in ("fn", "tn", "rssi", "toa256")}, [148, 444], lambda n_: Arr("b", [1] * n_)))
        elif sc["name"] == "Rx v1 NOPE":
            scen.append(("RxMsg", "Rx v1 NOPE", {"ver": 1, "fn": 1000, "tn": 3, "rssi": -60, "toa256": 0, "ci": 0, "nope_ind": True, "burst": None},
                         {k: sc[k] for k in ("fn", "tn", "rssi", "toa256", "ci")}, None, None))
        elif sc["name"] == "Rx v1 burst":
            for mname, bl in sorted(spec["modulation_burst_len"].items()):
                if mname not in members:
                    continue
                rng = {k: sc[k] for k in ("fn", "tn", "rssi", "toa256", "ci", "tsc")}
                rng["tsc_set"] = sc["per_modulation"]["tsc_set"]["GMSK" if mname == "ModGMSK" else "other"]
                scen.append(("RxMsg", "Rx v1 burst/%s" % mname, {"ver": 1, "fn": 1000, "tn": 3, "rssi": -60, "toa256": 0, "ci": 0, "nope_ind": False,
                                                                 "mod_type": members[mname], "tsc_set": 0, "tsc": 0, "burst": Arr("b", [1] * bl)},
                             rng, [bl], lambda n_: Arr("b", [1] * n_)))
    # every scenario's valid message is validated once before any boundary witness (what validating one kind of message
    # leaves behind must not change the verdict on another kind)
    for cls, title, base, ranges, lens, mkburst in scen:
        verdict(repo.need_class("data_msg", cls), base)
    for cls, title, base, ranges, lens, mkburst in scen:
        ci = repo.need_class("data_msg", cls)
        L.fn(F, cls + ".validate")
        got = verdict(ci, base)
        n += 1
        L.require("C13.R1", F, cls + ".validate", "witness fold, %s: a message with every field inside its range validates" % title, "accepted", got)
        for f, (lo, hi) in sorted(ranges.items()):
            for v, want in ((lo - 1, "raises ValueError"), (lo, "accepted"), (hi, "accepted"), (hi + 1, "raises ValueError"), (None, "raises ValueError")):
                fl = dict(base)
                fl[f] = v
                n += 1
                L.require("C13.R1", F, cls + ".validate", "witness fold, %s: %s = %s" % (title, f, v), want, verdict(ci, fl))
        for v in (-1, 2, 15, 16, 100, None):
            fl = dict(base)
            fl["ver"] = v
            n += 1
            L.require("C13.R1", F, cls + ".validate", "witness fold, %s: header version %s instead of %s" % (title, v, base["ver"]), "raises ValueError", verdict(ci, fl))
        if lens:
            for bl in sorted({x + d for x in lens for d in (-1, 0, 1)} | {0}):
                fl = dict(base)
                fl["burst"] = mkburst(bl)
                n += 1
                L.require("C13.R1", F, cls + ".validate", "witness fold, %s: burst of %d elements" % (title, bl),
                          "accepted" if bl in lens else "raises ValueError", verdict(ci, fl))
    L.floor("C13.R1", "validate() witnesses folded", n, 150)


def _decided_by_datagram(repo, ci, test, held):
    """truth value of a condition that reads nothing but the encoded datagram (names in `held`, through isinstance / type /
    len / comparisons with constants) when it is the same for every datagram the witness messages of R6 encode to
    (all header versions, modulations, NOPE); None otherwise"""
    from consteval import Ev
    names = {n.id for n in ast.walk(test) if isinstance(n, ast.Name)}
    if not names & held or not names <= (held | {"isinstance", "type", "len", "bytes", "bytearray", "memoryview", "int"}):
        return None
    if any(isinstance(n, (ast.Attribute, ast.Subscript)) for n in ast.walk(test)):
        return None
    dgs = repo.__dict__.get("_c13_datagrams")
    if dgs is None:
        try:
            from report import Ledger
            r6_accepted_encodes(Ledger("C13", "quick", repo.root, quiet=True), repo, None)
        except Exception:
            pass
        dgs = repo.__dict__.get("_c13_datagrams")
    if not dgs:
        return None
    vals = set()
    for d in dgs:
        try:
            vals.add(bool(Ev(repo, ci.mod, env={h: d for h in held}, self_cls=ci).ev(test)))
        except Exception:
            return None
    return vals.pop() if len(vals) == 1 else None


def r6_accepted_encodes(L, repo, spec):
    """R6 ('encoding is refused for EXACTLY the messages that do not validate' - the encode side): for one valid message
    per scenario, and for variants in the fields validate() does not look at for that kind of message (modulation / TSC
    fields of a NOPE indication or of a version-0 message, C/I of a version-0 message - set, as a re-used message object
    has them, or None), validate() is folded and, when it accepts, gen_msg() is folded as well: it must produce a
    datagram, not raise.  A check that lives only in the encoder (gen_mts, append_hdr_to, append_burst_to) refuses
    messages that validate."""
    from consteval import Ev, Raised, Arr
    mod = repo.mod("data_msg")
    mci = repo.need_class("data_msg", "Modulation")
    members = {m.name: m for m in Ev(repo, mod).enum_members(mci)}
    G = members.get("ModGMSK")
    P8 = members.get("Mod8PSK")
    wit = []
    for ver in (0, 1):
        wit.append(("TxMsg", "Tx v%d" % ver, {"ver": ver, "fn": 0, "tn": 7, "pwr": 255, "burst": bytearray([1, 0] * 74)}))
    for extra_t, extra in (("", {}), (", modulation / TSC / C/I fields left over from an earlier use", {"mod_type": P8, "tsc_set": 1, "tsc": 7, "ci": -30, "nope_ind": False}),
                           (", C/I and TSC fields None", {"mod_type": G, "tsc_set": None, "tsc": None, "ci": None})):
        wit.append(("RxMsg", "Rx v0" + extra_t, dict({"ver": 0, "fn": 2715647, "tn": 0, "rssi": -47, "toa256": 32767, "burst": Arr("b", [127] * 148)}, **extra)))
    for extra_t, extra in (("", {"mod_type": G}), (", TSC fields left over from an earlier use", {"mod_type": P8, "tsc_set": 1, "tsc": 7}),
                           (", TSC fields and modulation None", {"mod_type": None, "tsc_set": None, "tsc": None})):
        wit.append(("RxMsg", "Rx v1 NOPE" + extra_t, dict({"ver": 1, "fn": 1000, "tn": 3, "rssi": -120, "toa256": -32768, "ci": 1280, "nope_ind": True, "burst": None}, **extra)))
    for mname, m in sorted(members.items()):
        bl = m.attrs.get("bl")
        if isinstance(bl, int):
            wit.append(("RxMsg", "Rx v1 burst/%s" % mname, {"ver": 1, "fn": 42, "tn": 1, "rssi": -80, "toa256": -1, "ci": -1280, "nope_ind": False, "mod_type": m,
                                                            "tsc_set": 0, "tsc": 7, "burst": Arr("b", [-127] * bl)}))
    n = 0
    for cls, title, flds in wit:
        ci = repo.need_class("data_msg", cls)
        e = Ev(repo, ci.mod, env={"self." + k: v for k, v in flds.items()}, self_cls=ci)
        e.ignore_calls = ("log.", "logging.")
        c, v = repo.find_method(ci, "validate")
        try:
            e.call_func(v, c.mod, [("self", "<self>")], self_cls=ci, writeback=False)
        except Raised:
            continue            # not accepted: R1's matter
        except Unknown as ex:
            raise AnalysisError("validate() does not fold on a witness: %s" % ex)
        c2, g = repo.find_method(ci, "gen_msg")
        try:
            dg_ = e.call_func(g, c2.mod, e._bindargs(g, ["<self>"], {}), self_cls=ci, writeback=False)
            if isinstance(dg_, (bytes, bytearray)):
                repo.__dict__.setdefault("_c13_datagrams", []).append(bytearray(dg_))
            got = "a datagram"
        except Raised as ex:
            got = "raises %s" % ex.cls
        except Unknown as ex:
            raise AnalysisError("gen_msg() does not fold on a witness: %s" % ex)
        n += 1
        L.fn(F, cls + ".gen_msg")
        L.require("C13.R6", F, cls + ".gen_msg", "%s validates: gen_msg() produces a datagram" % title, "a datagram", got, line=g.lineno)
    L.floor("C13.R6", "validated witnesses encoded", n, 10)


def _r1_stage(L, repo, spec):
    try:
        return r1_r2(L, repo, spec)
    except AnalysisError as ex:
        # the symbolic extraction left its vocabulary: decide on the boundary witnesses, keep the reason
        L.extra["c13_r1_extraction"] = "not applicable: %s" % str(ex)[:160]
        return r1_witness_fold(L, repo, spec)


def run(L, tier):
    repo = Repo(L.repo)
    with open(os.path.join(VERIF, "spec", "ranges.json")) as f:
        spec = json.load(f)
    L.stage(_r1_stage, L, repo, spec)
    L.stage(r3_validate_first, L, repo)
    L.stage(r4_send, L, repo, tier)
    L.stage(r5_c_bound, L, repo, spec)
    L.stage(r6_accepted_encodes, L, repo, spec)
