# C06 -- serial link framing (sercomm / HDLC) delivers every message intact.
#
# Analysed twice: firmware flags (receive buffer 256) and -DHOST_BUILD (the
# osmocon build, 2048).  Decided: C06.R1 bounded store, C06.R2 escape
# agreement, C06.R3 un-escaping covers every framed octet, C06.R4 dispatch
# and queue discipline (the frame-end ownership of the receive buffer is
# resolved through the return values of dispatch_rx_msg), C06.R5 (thorough)
# DLCI origin at every call site of sercomm_sendmsg, C06.R6 no caller of
# sercomm_drv_pull drops a pulled octet, C06.R7 the msgb helpers R1 relies on
# (msgb_alloc / msgb_reserve / msgb_tailroom / msgb_put) evaluated on the
# receive buffer for every fill level, C06.R8 no caller of sercomm_drv_rx_char
# masks the receive interrupt for a value the receive step really returns,
# C06.R9 an idle verdict of the pull taken on a summary instead of the queues
# (a message counter) is zero exactly when every queue is empty, for every
# number of queued messages, C06.R10 the buffer the overflow path leaves in
# rx.msg (freed + re-allocated, or recycled in place by msgb_reset & co.) has
# the headroom, capacity and emptiness of a fresh one - evaluated, on the full
# buffer, from the bodies of the msgb helpers, C06.R11 every DLCI enumerator
# and every constant DLCI registered / sent on in sercomm.c is inside the
# per-DLCI tables, C06.R12 the receive path evaluated octet by octet on witness
# streams (empty / one-octet / escaped / longest payload, noise between frames)
# calls the registered handlers with exactly the messages sent.
# C06.R13 sercomm_sendmsg + sercomm_drv_pull evaluated on witness messages (255 / 256 / 257 octets, the longest
# payload) and looped into the evaluated receiver: every message arrives once, intact.
# C06.R14 the same on interleaved sendmsg / pull histories with several messages pending: order of arrival.
# See DESIGN.md section 7, C06.

import os
import shutil
import tempfile

from report import AnalysisError, STAGE_FAILED
from cfront import (TU, CCFG, kids, kind, strip, walk, ctext, cliterals,
                    calls_to, call_args, strip_comments, array_extent, wrap_int, sizeof_operand_type, fold_env)

EXPLANATION = (
    "clang AST of sercomm.c (firmware flags and -DHOST_BUILD), msgb.c and, in "
    "the thorough tier, every file calling sercomm_sendmsg.  One step of the "
    "receiver (sercomm_drv_rx_char) and of the transmitter (sercomm_drv_pull) "
    "is a comparison-only decision chain over (state enumerator x 8-bit octet): "
    "its complete decision table is derived from the statement CFG by exact "
    "finite-domain interpretation of the branch conditions (every state, every "
    "octet class; conditions outside that vocabulary are followed both ways; "
    "a test of the pointer sercomm_alloc_msgb() just returned is decided for a successful allocation - "
    "allocation failure is outside the property's histories; a default arm of the state switch is "
    "entered only for values outside the enumeration, which the walk over the enumerators never produces), "
    "with forward substitution of locals.  Calls to functions of sercomm.c that did "
    "not exist at the pinned commit (helpers split out of a step) are followed: the "
    "helper's statements are walked on its own CFG as part of the caller's path with "
    "the parameters bound to the argument terms, and the returned term replaces the call, "
    "so a step is decided on what it does, not on which function the statements stand in.  "
    "Expressions are also resolved to the step function's vocabulary (locals and helper parameters read as what "
    "they were bound to, a followed call as the expression it returned): dispatch_rx_msg is decided on its walked "
    "paths - a call whose callee resolves to dlci_handler[<DLCI parameter>], written in place or looked up first "
    "(through a local or a helper), is the handler invocation; at most one per path, arguments (dlci, msg) as "
    "received, no store to the parameters or the table inside the dispatcher.  An index that is an untested, "
    "unmodified parameter of a static helper is bounded at every call site of the helper instead.  "
    "The rules compare the two tables "
    "(escaped set, escape octet, XOR constant, flag positions, un-escaping in "
    "every frame-interior state, address/control/payload order), and use CFG "
    "dominance / guard literals for the tailroom test before every msgb_put, "
    "the overflow reset, the receive capacity (folded arguments of "
    "msgb_alloc_headroom in sercomm_alloc_msgb), the index bounds of "
    "dlci_handler[]/dlci_queues[], the queue scan (in sercomm_drv_pull or a followed helper; walked under both outcomes "
    "of the dequeue for the first and the generic iteration: ascending from 0, "
    "stops at the first non-empty queue), FIFO enqueue/dequeue in msgb.c, and "
    "who-may-write scans of the receive buffer.  At the closing flag the step may "
    "branch on the value dispatch_rx_msg returned: each such path is paired with the "
    "return statements of dispatch_rx_msg that can produce that value and with what "
    "that callee path did to the buffer (handed to the handler / freed / left with the "
    "caller).  Every caller of sercomm_drv_pull (osmocon, firmware UART drivers) is "
    "executed abstractly on its CFG: integer locals concrete, each pull followed with "
    "both outcomes, other call results as symbols under recorded path facts; a pulled "
    "octet is a token that must flow into a call argument / a write() length before "
    "its storage dies.  The msgb helpers the bounded-store argument rests on are not taken on trust: the allocation "
    "chain sercomm_alloc_msgb -> msgb_alloc_headroom -> msgb_alloc / msgb_reserve and msgb_tailroom / msgb_put "
    "(msgb.h, msgb.c) are evaluated on the receive buffer of each build - integers concrete, addresses as offsets "
    "from the allocated block, calls followed - for every fill level under the receiver's protocol (append one octet "
    "only after msgb_tailroom reported room); only store addresses, reported room and the resulting data / tail / len "
    "are observed, not how a helper is written.  The receive direction of the drivers: the values sercomm_drv_rx_char() "
    "returns are enumerated from the walked paths of the receive step (the overflow path is the one that reports the "
    "discarded over-long frame); every caller's CFG is walked from the call once per value, conditions that are functions "
    "of the result (also through integer locals, switch operands, a static wrapper returning it) decided for that value, "
    "and a receive-interrupt mask with folded arguments that lies on every way to the next call / the end of the handler "
    "for such a value is reported - a test no actual value satisfies guards dead code.  An idle verdict of the pull that "
    "does not come from the scan over all queues must come from one file-scope integer whose every write in sercomm.c is "
    "+1 (once per enqueue on every walked path of sercomm_sendmsg) or -1 (once per successful dequeue on every walked path "
    "of the pull), under the lock: the test is then evaluated on (number of queued messages) wrapped to that integer's "
    "type, and the smallest positive count that reads as idle is the witness (256 for an 8-bit counter) unless that many "
    "struct msgb cannot exist in the build's address space.  The buffer an over-long frame leaves behind: the operations the "
    "walked overflow paths of the receive step apply to the receive buffer (free, allocate, NULL, any call that takes it) are "
    "replayed on the full buffer of each build by evaluating the msgb helpers' bodies, and the buffer left for the next frame "
    "must have the headroom the handlers push into, the full receive capacity and no content.  The per-DLCI tables: enumerator "
    "values of the DLCI enumeration and the constant DLCIs at the register / sendmsg call sites of sercomm.c are compared "
    "with the array extents clang resolved for dlci_handler[] / dlci_queues[].  The receive path as a whole (sercomm_init, "
    "sercomm_register_rx_cb, sercomm_drv_rx_char per octet, dispatch_rx_msg, msgb helpers) is additionally evaluated on witness "
    "streams built from the transmitter's constants, and the recorded handler calls must be the messages sent.  The transmit path "
    "(sercomm_sendmsg, sercomm_drv_pull per octet, with the C integer conversions of every followed helper) is evaluated on witness "
    "messages up to the longest promised payload and looped into that receiver (C06.R13), also on every DLCI sercomm_init() registers a handler for, and on interleaved "
    "sendmsg / pull histories with several messages pending, where the order of arrival must be lowest DLCI first as of each "
    "opening flag, FIFO per DLCI (C06.R14).  A statement about all paths of "
    "one step holds for every octet stream and every queueing history.")
ALLOC_ASSUMPTION = (
    "sercomm_alloc_msgb() returns a buffer (non-NULL) in the receive step: the property quantifies over histories in which "
    "buffer allocation succeeds, so a branch of sercomm_drv_rx_char() taken only when the pointer it just returned is NULL "
    "is an environment failure path and is not walked (the tests decided that way are listed in the C06.R1 evidence)")
ASSUMPTIONS = [
    "payload equality and FIFO order over all message sequences follow from the per-step tables by induction over the stream (argued in DESIGN.md, not machine-checked)",
    "_talloc_zero(ctx, n, name) hands out a zero-filled block of n octets (NULL is not followed); talloc_free / msgb_free release it; "
    "osmo_panic() does not return; the member _data (checked: last member, octet array without extent) starts at offset "
    "sizeof(struct msgb); integer arithmetic on buffer sizes <= 65535 does not overflow",
    "llist primitives __llist_add/__llist_del (linuxlist.h) are correct; container_of is type-checked by clang",
    "sercomm_lock/unlock make sendmsg and pull atomic with respect to each other; the receiver runs in one context only",
    "tx.state / rx.state are zero-initialised statics (initial state = enumerator 0)",
    ALLOC_ASSUMPTION,
    "POSIX write(fd, buf, n) sends buf[0..n-1] in index order; a pulled octet that becomes an argument of any other call "
    "(uart_putchar_nb, ...) is taken as forwarded - what that callee does with it is not followed",
    "non-local objects read in the branch conditions of a pull caller keep their value between two reads unless the caller "
    "itself stores to them (a verdict that needs such a re-read after a call is withheld: ANALYSIS-ERROR)",
    "a message counter kept next to the transmit queues wraps modulo 2^width (two's complement for a signed type); every queued "
    "message is a distinct struct msgb holding two list pointers, so at most 2^32/8 (firmware) / 2^64/16 (host) exist at once",
]

F = "src/target/firmware/comm/sercomm.c"
HDR = "src/target/firmware/include/comm/sercomm.h"
MSGB_C = "src/shared/libosmocore/src/msgb.c"
MSGB_H = "src/shared/libosmocore/include/osmocom/core/msgb.h"
LLIST_H = "src/shared/libosmocore/include/osmocom/core/linuxlist.h"

BUILDS = (
    ("firmware", "fw", "comm/sercomm.c", 256),
    ("host", "osmocon", "../../target/firmware/comm/sercomm.c", 2048),
)

RX_FN = "sercomm_drv_rx_char"
RX_ALLOC_FN = "sercomm_alloc_msgb"
HEADROOM_ALLOC = "msgb_alloc_headroom"
HDR_OCTETS = 2              # address + control octet in front of the payload (the frame format of the property)
TX_FN = "sercomm_drv_pull"
RXS = "sercomm.rx.state"
RXM = "sercomm.rx.msg"
TXS = "sercomm.tx.state"
TXM = "sercomm.tx.msg"
TXP = "sercomm.tx.next_char"
QUEUES = "sercomm.tx.dlci_queues"
HANDLERS = "sercomm.rx.dlci_handler"

# what the receive step does with its buffer at the pinned commit; any other function the buffer is handed to is
# accepted only where the frame is abandoned (overflow path) and is then evaluated, not trusted (C06.R10)
RX_BUFFER_CALLS = ("msgb_tailroom", "msgb_free", "msgb_put", "dispatch_rx_msg")

CMP = ("==", "!=", "<", ">", "<=", ">=")
OCTET_TYPES = ("uint8_t", "unsigned char")


def hx(v):
    return "0x%02X" % v if isinstance(v, int) else str(v)


def hxs(vals):
    vals = sorted(vals)
    if len(vals) > 12:
        return "%d octets (%s ...)" % (len(vals), ", ".join(hx(v) for v in vals[:6]))
    return [hx(v) for v in vals]


# --------------------------------------------------------------- effects

def effects(n, out=None):
    """Primitive side effects of a statement / expression in evaluation
    order: ('store', lhs, rhs, node) ('compound', lhs, op, rhs, node)
    ('incdec', lhs, +-1, postfix, node) ('call', callee_text, args, node)
    ('decl', vardecl, init) ('return', expr)."""
    if out is None:
        out = []
    k = kind(n)
    ks = kids(n)
    if k == "BinaryOperator" and n.get("opcode") == "=":
        effects(ks[0], out)
        effects(ks[1], out)
        out.append(("store", strip(ks[0]), ks[1], n))
    elif k == "CompoundAssignOperator":
        effects(ks[0], out)
        effects(ks[1], out)
        out.append(("compound", strip(ks[0]), n.get("opcode"), ks[1], n))
    elif k == "UnaryOperator" and n.get("opcode") in ("++", "--"):
        effects(ks[0], out)
        out.append(("incdec", strip(ks[0]), 1 if n.get("opcode") == "++" else -1,
                    bool(n.get("isPostfix")), n))
    elif k == "CallExpr":
        for a in ks[1:]:
            effects(a, out)
        effects(ks[0], out)
        out.append(("call", ctext(ks[0]), ks[1:], n))
    elif k == "DeclStmt":
        for d in ks:
            if kind(d) == "VarDecl":
                init = None
                if d.get("init"):
                    init = [c for c in kids(d) if "Attr" not in (kind(c) or "")][-1]
                    effects(init, out)
                out.append(("decl", d, init))
    elif k == "ReturnStmt":
        for c in ks:
            effects(c, out)
        out.append(("return", ks[0] if ks else None))
    elif k == "UnaryExprOrTypeTraitExpr":
        pass        # sizeof: operand not evaluated
    else:
        for c in ks:
            effects(c, out)
    return out


def has_write(n):
    return any(e[0] in ("store", "compound", "incdec") for e in effects(n))


def ref_id(n):
    n = strip(n, casts=True)
    if kind(n) == "DeclRefExpr":
        rd = n.get("referencedDecl", {})
        if rd.get("kind") in ("VarDecl", "ParmVarDecl"):
            return rd.get("id")
    return None


# ------------------------------------------------------ one-step interpreter

class St:
    """State of one walked path."""
    __slots__ = ("scur", "mask", "pos", "env", "assume", "events", "ret", "frames", "nser", "rtruth", "rets")

    def __init__(self, scur, assume):
        self.scur = scur          # current value of the state variable
        self.mask = 0             # subject octet == original ^ mask
        self.pos = 0              # octet pointer advanced by pos since entry
        self.env = {}             # local decl id -> term
        self.assume = dict(assume)
        self.events = []
        self.ret = None
        self.frames = []          # helper calls being followed: (call node, CallExpr, helper name, serial)
        self.nser = 0
        self.rtruth = None        # truth of the value a followed helper is returning (None: unknown)
        self.rets = None          # resolved text (Step.resolve) of the value a followed helper is returning

    def copy(self):
        s = St(self.scur, self.assume)
        s.mask, s.pos, s.ret = self.mask, self.pos, self.ret
        s.frames, s.nser, s.rtruth, s.rets = list(self.frames), self.nser, self.rtruth, self.rets
        s.env = dict(self.env)
        s.events = list(self.events)
        return s


# Functions of sercomm.c at the pinned commit.  The rules are anchored on these names; any other function
# defined in sercomm.c is a helper introduced by a later restructuring: the step interpreter FOLLOWS calls to
# such helpers (parameters bound to the argument terms, the helper's statements walked on its own CFG as part of
# the caller's path, the returned term substituted for the call), so that a step is decided on what it does,
# not on which function the statements are written in.
BASELINE_FNS = frozenset((
    "sercomm_lock", "sercomm_unlock", "sercomm_bind_uart", "sercomm_get_uart", "sercomm_init",
    "sercomm_initialized", "sercomm_sendmsg", "sercomm_tx_queue_depth", "sercomm_drv_pull",
    "sercomm_register_rx_cb", "dispatch_rx_msg", "sercomm_drv_rx_char"))
MAX_HELPER_DEPTH = 4


class Step:
    """Exact interpretation of one call of a comparison-only step function
    over (state value, octet value).  Conditions that mention neither are
    followed both ways (recorded as 'fork' events).  Calls to helper
    functions (own functions outside BASELINE_FNS) are followed."""

    def __init__(self, tu, fname, subject, state_lv, ptr=None, subject_id=None):
        self.tu = tu
        self.fname = fname
        self.f = tu.func(fname)
        self.g = CCFG(tu, self.f)
        self.subject = subject      # canonical text of the octet lvalue
        self.state_lv = state_lv
        self.ptr = ptr              # canonical text of the octet pointer (transmitter)
        self.subject_id = subject_id  # declaration id of the octet when it is a parameter / local
        self.relational = False
        self._v = 0
        self._helpers = None
        self._graphs = {}
        self._pure = {}
        self._ceff = {}
        self.cond_calls = False     # record calls made inside branch conditions as call events
        self.nonnull_calls = ()     # callees whose returned pointer is taken as non-NULL (allocation succeeds)
        self.alloc_decided = set()  # texts of the tests that were decided by that assumption
        self._eff = {}
        self.params = [p.get("id") for p in tu.fparams(self.f)]
        self.pnames = [p.get("name") for p in tu.fparams(self.f)]

    # -- helper functions --------------------------------------------------
    def helpers(self):
        """name -> FunctionDecl of the functions of the main file that did
        not exist at the pinned commit (calls to them are followed)."""
        if self._helpers is None:
            self._helpers = {n: f for n, f in own_functions(self.tu).items()
                             if n not in BASELINE_FNS and n != self.fname}
        return self._helpers

    def helper_of(self, call):
        f = strip(kids(call)[0], casts=True) if kids(call) else None
        if kind(f) == "DeclRefExpr":
            n = f.get("referencedDecl", {}).get("name")
            if n in self.helpers():
                return n
        return None

    def graph_of(self, name):
        """Statement CFG of a helper (node ids made disjoint from every other graph of this step)."""
        g = self._graphs.get(name)
        if g is None:
            g = CCFG(self.tu, self.helpers()[name])
            base = 100000 * (len(self._graphs) + 1)
            for n in g.nodes:
                n.id += base
            self._graphs[name] = g
        return g

    def reachable_helpers(self):
        """Helpers called (transitively) from the step function, in call order."""
        out, work = [], [self.f]
        while work:
            fd = work.pop(0)
            for n in walk(self.tu.body(fd)):
                if kind(n) == "CallExpr":
                    h = self.helper_of(n)
                    if h is not None and h not in out:
                        out.append(h)
                        work.append(self.helpers()[h])
        return out

    def pure(self, name, _stack=()):
        """A helper that writes nothing but its own locals and calls only
        such helpers: evaluating it early (or not at all) changes nothing."""
        r = self._pure.get(name)
        if r is not None:
            return r
        if name in _stack:
            return False
        fd = self.helpers()[name]
        own = {p.get("id") for p in self.tu.fparams(fd)}
        own |= {n.get("id") for n in walk(self.tu.body(fd)) if kind(n) == "VarDecl" and n.get("storageClass") != "static"}
        r = True
        for e in effects(self.tu.body(fd)):
            if e[0] in ("store", "compound", "incdec"):
                if kind(e[1]) != "DeclRefExpr" or ref_id(e[1]) not in own:
                    r = False
            elif e[0] == "call":
                h = self.helper_of(e[3])
                if h is None or not self.pure(h, _stack + (name,)):
                    r = False
        self._pure[name] = r
        return r

    def eval_effects(self, node):
        """Effects of the expression a CFG node evaluates (the condition of a branch node)."""
        r = self._ceff.get(node.id)
        if r is None:
            if node.kind in ("cond", "switch"):
                r = effects(node.cond) if node.cond is not None else []
            elif node.kind == "stmt":
                r = self.node_effects(node)
            else:
                r = []
            self._ceff[node.id] = r
        return r

    def pending_call(self, node, st):
        """First call to a helper in the node's evaluation order that has not been followed yet."""
        for e in self.eval_effects(node):
            if e[0] == "call" and ("ret", id(e[3])) not in st.env and self.helper_of(e[3]) is not None:
                return e
        return None

    def forget_calls(self, node, st):
        for e in self.eval_effects(node):
            if e[0] == "call":
                st.env.pop(("ret", id(e[3])), None)
                st.env.pop(("rett", id(e[3])), None)
                st.env.pop(("rets", id(e[3])), None)

    def enter(self, node, e, st):
        """Follow the helper call e made by `node`: bind the parameters, push a frame; returns the helper's entry."""
        name, call, args = self.helper_of(e[3]), e[3], e[2]
        fd = self.helpers()[name]
        if len(st.frames) >= MAX_HELPER_DEPTH or any(fr[2] == name for fr in st.frames):
            raise AnalysisError("%s(): helper calls nest deeper than %d / recursively at %s() -- unclassifiable" % (
                self.fname, MAX_HELPER_DEPTH, name))
        ps = self.tu.fparams(fd)
        if len(ps) != len(args) or fd.get("variadic"):
            raise AnalysisError("%s(): call of %s() does not match its definition -- unclassifiable" % (self.fname, name))
        if any(has_write(a) for a in args):
            raise AnalysisError("%s(): side effect inside an argument of %s() -- unclassifiable" % (self.fname, name))
        if not self.pure(name):
            root = node.cond if node.kind in ("cond", "switch") else node.ast
            cur, par = call, self.tu.parent.get(id(call))
            while par is not None and cur is not root:
                ks = kids(par)
                if (kind(par) == "BinaryOperator" and par.get("opcode") in ("&&", "||") and len(ks) == 2 and ks[1] is cur) \
                        or (kind(par) == "ConditionalOperator" and ks and ks[0] is not cur):
                    raise AnalysisError("%s(): %s() has side effects and is called under a short-circuit operand of `%s` "
                                        "-- unclassifiable" % (self.fname, name, ctext(root)))
                cur, par = par, self.tu.parent.get(id(par))
        terms = [self.term(a, st) for a in args]
        texts = [self.resolve(a, st) for a in args]
        for p, t, x, a in zip(ps, terms, texts, args):
            st.env[p.get("id")] = t
            st.env[("txt", p.get("id"))] = x
            st.env.pop(("addr", p.get("id")), None)
            obj = self.pointee(a, st)
            if obj is not None:
                st.env[("addr", p.get("id"))] = obj
        st.nser += 1
        st.frames.append((node, call, name, st.nser))
        st.ret, st.rtruth, st.rets = None, None, None
        return self.graph_of(name).entry

    def leave(self, st):
        """The followed helper reached its exit: the call takes the returned term; back to the calling node."""
        node, call, name, _ = st.frames.pop()
        st.env[("ret", id(call))] = st.ret if st.ret is not None else ("void",)
        st.env[("rett", id(call))] = st.rtruth
        st.env[("rets", id(call))] = st.rets
        st.ret, st.rtruth, st.rets = None, None, None
        return node

    def pointee(self, a, st):
        """Text of the object a pointer-valued expression points to, when that is the same object whatever
        happened before: `&g.m.n` / `&g.a[3]` for a file-scope object g (an address constant), or a parameter /
        local of a followed helper that was bound to such an address.  A store through `*p` is then a store to
        that object.  None: not known that way."""
        a = strip(a, casts=True)
        i = ref_id(a)
        if i is not None:
            return st.env.get(("addr", i))
        if not (kind(a) == "UnaryOperator" and a.get("opcode") == "&"):
            return None
        o = root = strip(kids(a)[0])
        while True:
            if kind(root) == "MemberExpr" and not root.get("isArrow"):
                root = strip(kids(root)[0])
            elif kind(root) == "ArraySubscriptExpr" and self.tu.fold(kids(root)[1]) is not None:
                root = strip(kids(root)[0], casts=True)
            else:
                break
        if kind(root) == "DeclRefExpr" and root.get("referencedDecl", {}).get("kind") == "VarDecl" \
                and ref_id(root) in tu_globals(self.tu):
            return ctext(o)
        return None

    def store_target(self, lhs, st):
        """(declaration id, text) of the lvalue a store goes to; `*p` with p bound to the address of a
        file-scope object (pointee) reads as that object.  Any other `*p` keeps the term of p
        in the event (lhs_shape): the rules classify it (a call result, the caller's out-parameter) or give no
        verdict (C06.R1: a pointer that cannot be attributed to the receive buffer)."""
        if kind(lhs) == "UnaryOperator" and lhs.get("opcode") == "*":
            pe = strip(kids(lhs)[0], casts=True)
            obj = self.pointee(pe, st)
            if obj is not None:
                return None, obj, True
        return ref_id(lhs), ctext(lhs), False

    def argtext(self, a, st):
        """Text of a call argument; inside a followed helper a parameter /
        local that stands for an expression of the caller reads as that expression."""
        if st.frames:
            t = self.term(a, st)
            if t[0] == "expr":
                return t[1]
        return ctext(a)

    @staticmethod
    def boolean_valued(e):
        e = strip(e, casts=True)
        return (kind(e) == "UnaryOperator" and e.get("opcode") == "!") or \
            (kind(e) == "BinaryOperator" and e.get("opcode") in CMP + ("&&", "||"))

    # -- resolved expressions ---------------------------------------------
    def resolve(self, e, st):
        """Canonical text of an expression in the vocabulary of the step
        function: every local / helper parameter that was bound on this path
        reads as the (resolved) expression it was bound to, a followed helper
        call as the expression it returned.  `rx_cb_lookup(dlci)` returning
        `table[d]` for its parameter d resolves to `table[dlci]`.  Memory is
        not versioned: a rule that relies on a resolved lvalue must itself
        exclude stores to it between the read and the use."""
        e = strip(e, casts=True)
        if e is None:
            return "?"
        k, ks = kind(e), kids(e)
        if k == "CallExpr" and st.env.get(("rets", id(e))) is not None:
            return st.env[("rets", id(e))]
        i = ref_id(e)
        if i is not None:
            if ("txt", i) in st.env:
                return st.env[("txt", i)]
            return ctext(e)
        v = self.tu.fold(e)
        if v is not None:
            return str(v)
        if k == "MemberExpr" and ks:
            return "%s%s%s" % (self.resolve(ks[0], st), "->" if e.get("isArrow") else ".", e.get("name"))
        if k == "ArraySubscriptExpr":
            return "%s[%s]" % (self.resolve(ks[0], st), self.resolve(ks[1], st))
        if k == "BinaryOperator":
            return "(%s %s %s)" % (self.resolve(ks[0], st), e.get("opcode"), self.resolve(ks[1], st))
        if k == "UnaryOperator" and not e.get("isPostfix") and e.get("opcode") in ("!", "-", "~", "*", "&", "+"):
            return "%s%s" % (e.get("opcode"), self.resolve(ks[0], st))
        if k == "ConditionalOperator":
            return "(%s ? %s : %s)" % tuple(self.resolve(c, st) for c in ks[:3])
        if k == "CallExpr":
            return "%s(%s)" % (self.resolve(ks[0], st), ", ".join(self.resolve(a, st) for a in ks[1:]))
        return ctext(e)

    def callee_name(self, call, st):
        """Name a call event is recorded under: the callee's text; a call
        through a function-pointer local / helper parameter bound on this
        path is recorded under the expression the pointer was read from."""
        f = strip(kids(call)[0], casts=True) if kids(call) else None
        if kind(f) == "UnaryOperator" and f.get("opcode") == "*":          # (*cb)(...)
            f = strip(kids(f)[0], casts=True)
        i = ref_id(f)
        if i is not None and ("txt", i) in st.env:
            return st.env[("txt", i)]
        return ctext(kids(call)[0])

    # -- values -----------------------------------------------------------
    def is_subject(self, e):
        e = strip(e, casts=True)
        if self.subject_id is not None and kind(e) == "DeclRefExpr":
            return ref_id(e) == self.subject_id     # a helper's own `ch` is not the received octet
        if ctext(e) == self.subject:
            return True
        if self.ptr and kind(e) == "UnaryOperator" and e.get("opcode") == "*":
            i = strip(kids(e)[0], casts=True)
            if kind(i) == "UnaryOperator" and i.get("opcode") in ("++", "--") and i.get("isPostfix") \
                    and ctext(kids(i)[0]) == self.ptr:
                return True
        return False

    def term(self, e, st):
        e = strip(e, casts=True)
        if e is None:
            return ("expr", "?")
        if kind(e) == "CallExpr" and ("ret", id(e)) in st.env:
            return st.env[("ret", id(e))]           # a followed helper call: the term it returned
        v = self.tu.fold(e)
        if v is not None:
            return ("const", v)
        if self.is_subject(e):
            return ("octet", st.mask, st.pos)
        txt = ctext(e)
        if txt == self.state_lv:
            return ("state",)
        k = kind(e)
        if k == "BinaryOperator" and e.get("opcode") == "^":
            a, b = (self.term(x, st) for x in kids(e))
            if a[0] == "const":
                a, b = b, a
            if a[0] == "octet" and b[0] == "const":
                return ("octet", (a[1] ^ b[1]) & 0xFF, a[2])     # the subject is an 8-bit octet
        i = ref_id(e)
        if i is not None and i in st.env:
            return st.env[i]
        if k == "CallExpr":
            return ("call", ctext(kids(e)[0]), txt)
        if k == "ConditionalOperator" and len(kids(e)) == 3 and not has_write(e):
            # c ? a : b with c decided for the octet of this path (e.g. by a constant argument of a followed helper)
            c = self.ev(kids(e)[0], st, self._v)
            if c is not None:
                return self.term(kids(e)[1 if c else 2], st)
        return ("expr", txt)

    def lhs_shape(self, lhs, st):
        """('deref', term of the pointer, constant index) for *p / p[k]."""
        if lhs is None:
            return None
        if kind(lhs) == "UnaryOperator" and lhs.get("opcode") == "*":
            return ("deref", self.term(kids(lhs)[0], st), 0)
        if kind(lhs) == "ArraySubscriptExpr":
            b, i = kids(lhs)
            return ("deref", self.term(b, st), self.tu.fold(i))
        return None

    def val(self, e, st, v):
        t = self.term(e, st)
        if t[0] == "const":
            return t[1]
        if t[0] == "octet":
            return (v ^ t[1]) if t[2] == 0 else None
        if t[0] == "state":
            return st.scur
        return None

    def mentions(self, e, st):
        for x in walk(e):
            if kind(x) in ("DeclRefExpr", "MemberExpr", "UnaryOperator", "CallExpr"):
                t = self.term(x, st)
                if t[0] in ("octet", "state"):
                    return True
        return False

    def ev(self, e, st, v):
        """Three-valued truth of a condition for octet v (None = depends on
        something outside the vocabulary and not assumed on this path)."""
        e = strip(e)
        k = kind(e)
        if k == "CallExpr" and st.env.get(("rett", id(e))) is not None:
            return st.env[("rett", id(e))]          # truth of what a followed helper returned
        if k == "UnaryOperator" and e.get("opcode") == "!":
            r = self.ev(kids(e)[0], st, v)
            return None if r is None else (not r)
        if k == "BinaryOperator":
            op = e.get("opcode")
            a, b = kids(e)
            if op in ("&&", "||"):
                ra, rb = self.ev(a, st, v), self.ev(b, st, v)
                if op == "&&":
                    if ra is False or rb is False:
                        return False
                    return True if (ra and rb) else None
                if ra is True or rb is True:
                    return True
                return False if (ra is False and rb is False) else None
            if op in CMP:
                ta, tb = self.term(a, st), self.term(b, st)
                if op not in ("==", "!=") and "octet" in (ta[0], tb[0]):
                    self.relational = True
                va, vb = self.val(a, st, v), self.val(b, st, v)
                if va is None or vb is None:
                    if op in ("==", "!=") and 0 in (va, vb):
                        # p == NULL / p != NULL: the truth recorded for p itself
                        r = self.assumed(st, b if va == 0 else a)
                        if r is not None:
                            return (not r) if op == "==" else r
                    return st.assume.get(ctext(e))
                return {"==": va == vb, "!=": va != vb, "<": va < vb, ">": va > vb,
                        "<=": va <= vb, ">=": va >= vb}[op]
        x = self.val(e, st, v)
        if x is None:
            return self.assumed(st, e)
        return bool(x)

    def assumed(self, st, e):
        """Truth of an atom outside the (state, octet) vocabulary as recorded on this path (None: unknown).
        A pointer that holds what an allocator of `nonnull_calls` returned reads as non-NULL: the property
        quantifies over histories in which buffer allocation succeeds, so the branch taken only on a NULL
        result is an environment failure path, not a row of the step table (the tests decided that way are
        collected in alloc_decided and reported in the evidence)."""
        txt = ctext(e)
        r = st.assume.get(txt)
        if r is not None and st.assume.get(("allocok", txt)):
            self.alloc_decided.add(txt)
        return r

    def residual(self, e, st, v):
        """(value, expr, pol): value if the condition is decided, else the
        undecided part: the condition is true iff truth(expr) == pol."""
        r = self.ev(e, st, v)
        if r is not None:
            return r, None, True
        s = strip(e)
        k = kind(s)
        if k == "UnaryOperator" and s.get("opcode") == "!":
            _, ex, pol = self.residual(kids(s)[0], st, v)
            return None, ex, not pol
        if k == "BinaryOperator" and s.get("opcode") in ("&&", "||"):
            neutral = s.get("opcode") == "&&"
            a, b = kids(s)
            ra, ea, pa = self.residual(a, st, v)
            rb, eb, pb = self.residual(b, st, v)
            if ra is not None and ra == neutral:
                return None, eb, pb
            if rb is not None and rb == neutral:
                return None, ea, pa
        return None, s, True

    def call_atoms(self, e, st, pol):
        """Constraints on call results implied by truth(e) == pol:
        {(callee, call text, op, k)} meaning `result op k`.  A call result
        involved in a way that cannot be decomposed (disjunction, compared
        with a non-constant) yields (callee, call text, None, None)."""
        e = strip(e)
        k = kind(e)
        if k == "UnaryOperator" and e.get("opcode") == "!":
            return self.call_atoms(kids(e)[0], st, not pol)
        if k == "BinaryOperator" and e.get("opcode") in ("&&", "||"):
            a, b = kids(e)
            sub = self.call_atoms(a, st, pol) | self.call_atoms(b, st, pol)
            if (e.get("opcode") == "&&") == pol:
                return sub
            return {(c[0], c[1], None, None) for c in sub}
        if k == "BinaryOperator" and e.get("opcode") in CMP:
            op = e.get("opcode")
            ta, tb = (self.term(x, st) for x in kids(e))
            if tb[0] == "call" and ta[0] == "const":
                ta, tb = tb, ta
                op = {"<": ">", ">": "<", "<=": ">=", ">=": "<="}.get(op, op)
            if ta[0] == "call" and tb[0] == "const":
                if not pol:
                    op = {"==": "!=", "!=": "==", "<": ">=", ">=": "<", ">": "<=", "<=": ">"}[op]
                return {(ta[1], ta[2], op, tb[1])}
            return {(t[1], t[2], None, None) for t in (ta, tb) if t[0] == "call"}
        t = self.term(e, st)
        if t[0] == "call":
            return {(t[1], t[2], "!=" if pol else "==", 0)}
        out = set()
        for x in walk(e):
            if kind(x) in ("CallExpr", "DeclRefExpr") and x is not e:
                tx = self.term(x, st)
                if tx[0] == "call":
                    out.add((tx[1], tx[2], None, None))
        return out

    def cond_call_events(self, node, st):
        """Calls made while a branch condition is evaluated (cond_calls):
        recorded like statement-level calls.  A call that is evaluated only
        under a short-circuit operand cannot be placed on the path."""
        c = node.cond
        line = self.tu.line(node.ast) if node.ast else None
        for e in effects(c):
            if e[0] != "call" or e[1] == "msgb_tailroom" or ("ret", id(e[3])) in st.env:
                continue
            cur, par = e[3], self.tu.parent.get(id(e[3]))
            while par is not None and cur is not c:
                ks = kids(par)
                if (kind(par) == "BinaryOperator" and par.get("opcode") in ("&&", "||") and len(ks) == 2 and ks[1] is cur) \
                        or (kind(par) == "ConditionalOperator" and ks and ks[0] is not cur):
                    raise AnalysisError("%s(): %s() is called under a short-circuit operand of the condition `%s` -- "
                                        "unclassifiable" % (self.fname, e[1], ctext(c)))
                cur, par = par, self.tu.parent.get(id(par))
            st.events.append(("call", self.callee_name(e[3], st), tuple(self.argtext(a, st) for a in e[2]),
                              tuple(self.term(a, st) for a in e[2]), node.id, line))

    # -- effects of one statement --------------------------------------------
    def node_effects(self, node):
        r = self._eff.get(node.id)
        if r is None:
            a = node.ast
            r = [] if (a is None or kind(a) in ("DoHead", "BreakStmt", "ContinueStmt", "GotoStmt")) else effects(a)
            self._eff[node.id] = r
        return r

    def invalidate(self, st, lv_text):
        for k in [k for k in st.assume if lv_text in (k[1] if isinstance(k, tuple) else k)]:
            del st.assume[k]

    def apply(self, node, st):
        snap = st.copy()
        line = self.tu.line(node.ast) if node.ast else None
        for e in self.node_effects(node):
            tag = e[0]
            if tag == "call":
                name, args = e[1], e[2]
                if ("ret", id(e[3])) in snap.env:
                    continue                    # a helper whose statements were followed on this path
                st.events.append(("call", self.callee_name(e[3], snap), tuple(self.argtext(a, snap) for a in args),
                                  tuple(self.term(a, snap) for a in args), node.id, line))
            elif tag in ("store", "decl"):
                if tag == "decl":
                    if e[2] is None:
                        continue
                    lhs, rhs, lid, ltxt = None, e[2], e[1].get("id"), e[1].get("name")
                    via = False
                else:
                    lhs, rhs = e[1], e[2]
                    lid, ltxt, via = self.store_target(lhs, snap)
                t = self.term(rhs, snap)
                if lhs is not None and self.is_subject(lhs):
                    if t[0] == "octet" and t[2] == st.pos:
                        st.mask = t[1]
                        st.events.append(("xor", st.mask ^ snap.mask, node.id, line))
                    else:
                        raise AnalysisError("%s(): the octet `%s` is overwritten by `%s` -- unclassifiable" % (
                            self.fname, self.subject, ctext(rhs)))
                elif ltxt == self.state_lv:
                    if t[0] != "const":
                        raise AnalysisError("%s(): `%s` assigned a non-constant `%s` -- unclassifiable" % (
                            self.fname, self.state_lv, ctext(rhs)))
                    st.scur = t[1]
                    st.events.append(("state", t[1], node.id, line))
                elif self.ptr and ltxt == self.ptr:
                    st.pos = None
                    st.mask = 0
                    st.events.append(("setptr", ctext(strip(rhs, casts=True)), t, node.id, line))
                elif lid is not None and (lid not in self.params):
                    st.env[lid] = t
                    st.env[("txt", lid)] = self.resolve(rhs, snap)
                    st.env.pop(("addr", lid), None)
                    obj = self.pointee(rhs, snap)
                    if obj is not None:
                        st.env[("addr", lid)] = obj
                    st.events.append(("local", ltxt, t, node.id, line))
                else:
                    st.events.append(("store", ltxt, t, node.id, line, None if via else self.lhs_shape(lhs, snap)))
                self.invalidate(st, ltxt)
                self.carry_truth(st, snap, lhs if tag == "store" else e[1], ltxt, rhs, t)
            elif tag == "compound":
                lhs, op, rhs = e[1], e[2], e[3]
                ltxt = ctext(lhs)
                t = self.term(rhs, snap)
                if self.is_subject(lhs):
                    if op == "^=" and t[0] == "const":
                        st.mask ^= t[1] & 0xFF
                        st.events.append(("xor", t[1] & 0xFF, node.id, line))
                    else:
                        raise AnalysisError("%s(): the octet `%s` is modified by `%s %s` -- unclassifiable" % (
                            self.fname, self.subject, op, ctext(rhs)))
                elif ltxt == self.state_lv:
                    raise AnalysisError("%s(): compound assignment to `%s`" % (self.fname, ltxt))
                elif self.ptr and ltxt == self.ptr:
                    d = t[1] if (t[0] == "const" and op in ("+=", "-=")) else None
                    if d is None:
                        raise AnalysisError("%s(): `%s %s %s` -- unclassifiable" % (self.fname, ltxt, op, ctext(rhs)))
                    self._advance(st, d if op == "+=" else -d, False, node, line)
                else:
                    lid = ref_id(lhs)
                    if lid is not None and lid in st.env:
                        cur = st.env[lid]
                        if op == "^=" and cur[0] == "octet" and t[0] == "const":
                            st.env[lid] = ("octet", (cur[1] ^ t[1]) & 0xFF, cur[2])     # a copy of the octet, un-escaped in place
                            st.env[("txt", lid)] = "(%s ^ %s)" % (st.env.get(("txt", lid), ltxt), self.resolve(rhs, snap))
                            st.events.append(("local", ltxt, st.env[lid], node.id, line))    # as `copy = copy ^ k` would be
                            self.invalidate(st, ltxt)
                            continue
                        else:
                            st.env[lid] = ("expr", "%s %s %s" % (ltxt, op, ctext(rhs)))
                        st.env[("txt", lid)] = "(%s %s %s)" % (st.env.get(("txt", lid), ltxt), op[:-1], self.resolve(rhs, snap))
                    st.events.append(("compound", ltxt, op, t, node.id, line))
                    self.invalidate(st, ltxt)
            elif tag == "incdec":
                lhs, d, post = e[1], e[2], e[3]
                ltxt = ctext(lhs)
                if self.ptr and ltxt == self.ptr:
                    self._advance(st, d, post, node, line)
                elif self.is_subject(lhs) or ltxt == self.state_lv:
                    raise AnalysisError("%s(): ++/-- on `%s` -- unclassifiable" % (self.fname, ltxt))
                else:
                    lid = ref_id(lhs)
                    if lid is not None and lid in st.env:
                        st.env[lid] = ("expr", ltxt + ("++" if d > 0 else "--"))
                        st.env[("txt", lid)] = "(%s %s 1)" % (st.env.get(("txt", lid), ltxt), "+" if d > 0 else "-")
                    st.events.append(("compound", ltxt, "++" if d > 0 else "--", ("const", 1), node.id, line))
                    self.invalidate(st, ltxt)
            elif tag == "return":
                t = self.term(e[1], snap) if e[1] is not None else ("void",)
                if st.frames:
                    # return of a followed helper: the value goes to the call in the caller
                    truth = self.ev(e[1], snap, self._v) if e[1] is not None else None
                    if t[0] not in ("const", "octet", "state", "call") and truth is not None and self.boolean_valued(e[1]):
                        t = ("const", int(truth))
                    st.ret, st.rtruth = t, truth
                    st.rets = self.resolve(e[1], snap) if e[1] is not None else None
                    st.events.append(("hret", st.frames[-1][2], t, node.id, line))
                else:
                    st.ret = t
                    st.events.append(("return", st.ret, node.id, line))

    def carry_truth(self, st, snap, lhs, ltxt, rhs, t):
        """After `lhs = rhs`: lhs is zero / non-zero when that is known of
        the stored value (a null constant, or the pointer a followed helper
        returned under a recorded path fact) and the store cannot narrow it."""
        qt = (lhs.get("type", {}).get("qualType") or "") if lhs is not None else ""
        truth, allocok = None, False
        if t == ("const", 0):
            truth = False
        elif qt.endswith("*"):
            r = strip(rhs, casts=True)
            if kind(r) == "CallExpr":
                truth = snap.env.get(("rett", id(r)))
                if truth is None and t[0] == "call" and t[1] in self.nonnull_calls:
                    truth, allocok = True, True         # allocation succeeds (see assumed())
            elif ref_id(r) is not None and ctext(r) in snap.assume:
                truth = snap.assume[ctext(r)]
                allocok = bool(snap.assume.get(("allocok", ctext(r))))
            elif t[0] == "call" and t[1] in self.nonnull_calls and ref_id(r) is not None:
                truth, allocok = True, True             # a local that holds the allocator's result
        if truth is not None and ltxt:
            st.assume[ltxt] = truth
            if allocok:
                st.assume[("allocok", ltxt)] = True

    def _advance(self, st, d, post, node, line):
        if st.pos is not None:
            st.pos += d
        st.mask = 0
        st.events.append(("advance", d, post, node.id, line))
        self.invalidate(st, self.ptr)

    # -- walking --------------------------------------------------------------
    def paths(self, scur, v, assume=(), max_visits=1, before=None, after=None):
        """All paths of one call for state value scur and octet v.  A node is
        walked at most max_visits times per path (then the loop is left at
        its head, or the path is cut).  before(node, st, n) may return
        'stop'; after(node, st, n) runs after a statement node."""
        g = self.g
        done = []
        self._v = v

        def go(node, st, seen):
            resume = False
            while True:
                if node.kind == "exit":
                    if st.frames:
                        node, resume = self.leave(st), True     # back to the node that made the call
                        continue
                    done.append(st)
                    return
                if not resume:
                    # visits are counted per activation of a followed helper
                    key = node.id if not st.frames else (st.frames[-1][3], node.id)
                    n = seen.get(key, 0)
                    if n >= max_visits:
                        # loop head seen again: assume the loop terminates here
                        exits = [s for (s, l) in node.succ if node.kind == "cond" and l is False]
                        if exits and ("exit", key) not in seen:
                            st.events.append(("loopexit", node.id))
                            seen = dict(seen)
                            seen[("exit", key)] = 1
                            node = exits[0]
                            continue
                        st.events.append(("loopcut", node.id))
                        st.ret = ("loopcut",)
                        done.append(st)
                        return
                    seen = dict(seen)
                    seen[key] = n + 1
                    self.forget_calls(node, st)
                    if before is not None and before(node, st, n + 1) == "stop":
                        done.append(st)
                        return
                    if node.kind == "cond" and node.cond is not None and has_write(node.cond):
                        raise AnalysisError("%s(): side effect inside the condition `%s` -- unclassifiable" % (
                            self.fname, ctext(node.cond)))
                else:
                    key = node.id if not st.frames else (st.frames[-1][3], node.id)
                    n = seen.get(key, 1) - 1
                resume = False
                pc = self.pending_call(node, st) if node.kind in ("cond", "switch", "stmt") else None
                if pc is not None:
                    node = self.enter(node, pc, st)             # follow the helper first, then come back
                    continue
                if node.kind == "cond":
                    c = node.cond
                    r, ex, pol = None, None, True
                    if c is not None:
                        if has_write(c):
                            raise AnalysisError("%s(): side effect inside the condition `%s` -- unclassifiable" % (
                                self.fname, ctext(c)))
                        if self.cond_calls:
                            self.cond_call_events(node, st)
                        r, ex, pol = self.residual(c, st, v)
                        if r is None and self.mentions(ex, st):
                            raise AnalysisError("%s(): condition `%s` mixes the octet/state with other operands -- "
                                                "unclassifiable" % (self.fname, ctext(c)))
                    labels = [l for (_, l) in node.succ]
                    if r is None:
                        if len(set(labels)) == 1:
                            node = node.succ[0][0]
                            continue
                        for (s, l) in node.succ:
                            s2 = st.copy()
                            if c is not None:
                                truth = (bool(l) == pol)
                                s2.events.append(("fork", node.id, bool(l), frozenset(cliterals(self.tu, ex, truth)),
                                                  frozenset(self.call_atoms(ex, st, truth))))
                                atom, ap = strip(ex), truth
                                while kind(atom) == "UnaryOperator" and atom.get("opcode") == "!":
                                    atom, ap = strip(kids(atom)[0]), not ap
                                s2.assume[ctext(atom)] = ap
                            go(s, s2, seen)
                        return
                    nxt = [s for (s, l) in node.succ if bool(l) == bool(r)]
                    if not nxt:
                        raise AnalysisError("%s(): branch of `%s` missing in the CFG" % (self.fname, ctext(c)))
                    node = nxt[0]
                    continue
                if node.kind == "switch":
                    x = self.val(node.cond, st, v)
                    if x is None:
                        if self.mentions(node.cond, st):
                            raise AnalysisError("%s(): switch operand `%s` unclassifiable" % (self.fname, ctext(node.cond)))
                        for (s, l) in node.succ:
                            s2 = st.copy()
                            s2.events.append(("fork", node.id, l, frozenset()))
                            go(s, s2, seen)
                        return
                    tgt = [s for (s, l) in node.succ if isinstance(l, tuple) and l[1] == x]
                    if not tgt:
                        tgt = [s for (s, l) in node.succ if l in ("default", "nodefault")]
                        st.events.append(("nocase", x, node.id))
                    if not tgt:
                        raise AnalysisError("%s(): switch has no edge for value %s" % (self.fname, x))
                    node = tgt[0]
                    continue
                if node.kind == "stmt":
                    self.apply(node, st)
                    if after is not None:
                        after(node, st, n + 1)
                if not node.succ:
                    raise AnalysisError("%s(): dead end in the CFG" % self.fname)
                node = node.succ[0][0]

        go(g.entry, St(scur, dict(assume)), {})
        return done

    def constants(self):
        """Octet values that may be special: constants compared or XOR-ed."""
        consts, masks = set(), {0}
        nodes = [n for fd in [self.f] + [self.helpers()[h] for h in self.reachable_helpers()]
                 for n in walk(self.tu.body(fd))]
        for n in nodes:
            k = kind(n)
            if k == "BinaryOperator" and n.get("opcode") in CMP + ("^",):
                for c in kids(n):
                    v = self.tu.fold(c)
                    if v is not None and n.get("opcode") == "^":
                        masks.add(v & 0xFF)
                    elif v is not None and 0 <= v <= 255:
                        consts.add(v)
            elif k == "CompoundAssignOperator" and n.get("opcode") == "^=":
                v = self.tu.fold(kids(n)[1])
                if v is not None:
                    masks.add(v & 0xFF)
            elif k == "CaseStmt":
                v = self.tu.fold(kids(n)[0])
                if v is not None and 0 <= v <= 255:
                    consts.add(v)
        closure = {0}
        for m in masks:
            closure |= {c ^ m for c in closure}
        return consts, closure

    def table(self, states, assume=(), extra=()):
        """(state, octet) -> list of paths; octets are walked per class
        (every special value on its own, one representative of the rest)."""
        consts, masks = self.constants()
        special = {c ^ m for c in consts | set(extra) for m in masks if 0 <= c ^ m <= 255}
        rest = [v for v in range(256) if v not in special]
        for attempt in (0, 1):
            reps = sorted(special) + rest[:1] if attempt == 0 else list(range(256))
            tab = {}
            for s in states:
                for v in reps:
                    tab[(s, v)] = self.paths(s, v, assume)
            if not self.relational:
                break
        if not self.relational:
            for s in states:
                for v in rest[1:]:
                    tab[(s, v)] = tab[(s, rest[0])]
        return tab


# ------------------------------------------------------------ literal helpers

_TR = "msgb_tailroom("


def room_bounds(lits):
    """{buffer text: [min, max]} of msgb_tailroom(buffer) implied by a set of
    branch literals (max None = unbounded).  msgb_tailroom() >= 0: C06.R7 evaluates it at every fill level
    the receive buffer reaches."""
    out = {}

    def upd(buf, lo=None, hi=None):
        b = out.setdefault(buf, [0, None])
        if lo is not None:
            b[0] = max(b[0], lo)
        if hi is not None:
            b[1] = hi if b[1] is None else min(b[1], hi)

    def tr(t):
        return t[len(_TR):-1] if t.startswith(_TR) and t.endswith(")") and t.count("(") == 1 else None

    def num(t):
        try:
            return int(t)
        except ValueError:
            return None

    for (t, p) in lits:
        if _TR not in t:
            continue
        if tr(t) is not None:                       # truthiness
            upd(tr(t), lo=1) if p else upd(tr(t), hi=0)
            continue
        ok = False
        for op in (" == ", " < "):
            if op in t:
                a, b = t.split(op, 1)
                if op == " == ":
                    k, buf = (num(a), tr(b)) if num(a) is not None else (num(b), tr(a))
                    if k is not None and buf is not None:
                        ok = True
                        if p:
                            upd(buf, lo=k, hi=k)
                        elif k == 0:
                            upd(buf, lo=1)
                elif tr(a) is not None and num(b) is not None:       # T < k
                    ok = True
                    upd(tr(a), hi=num(b) - 1) if p else upd(tr(a), lo=num(b))
                elif tr(b) is not None and num(a) is not None:       # k < T
                    ok = True
                    upd(tr(b), lo=num(a) + 1) if p else upd(tr(b), hi=num(a))
        if not ok:
            raise AnalysisError("tailroom condition `%s` has a shape the rule cannot classify" % t)
    return out


def index_bound(lits, idx):
    """Smallest exclusive upper bound of the expression text idx implied by
    branch literals (None = unbounded)."""
    best = None
    for (t, p) in lits:
        k = None
        if " < " in t:
            a, b = t.split(" < ", 1)
            if a == idx and p and b.lstrip("-").isdigit():
                k = int(b)                       # idx < k
            elif b == idx and not p and a.lstrip("-").isdigit():
                k = int(a) + 1                   # !(k < idx)
        elif " == " in t and p:
            a, b = t.split(" == ", 1)
            if a == idx and b.isdigit():
                k = int(b) + 1
            elif b == idx and a.isdigit():
                k = int(a) + 1
        if k is not None:
            best = k if best is None else min(best, k)
    return best


def context_lits(tu, root, target):
    """Literals that hold when `target` (a sub-expression of the condition
    `root`) is evaluated, by short-circuit order of && || ?:."""
    out = set()
    cur = target
    while cur is not None and cur is not root:
        par = tu.parent.get(id(cur))
        if par is None:
            break
        ks = kids(par)
        if kind(par) == "BinaryOperator" and par.get("opcode") in ("&&", "||") and len(ks) == 2 and ks[1] is cur:
            out |= cliterals(tu, ks[0], par.get("opcode") == "&&")
        elif kind(par) == "ConditionalOperator" and len(ks) == 3 and ks[0] is not cur:
            out |= cliterals(tu, ks[0], ks[1] is cur)
        cur = par
    return out


def own_functions(tu):
    """Functions defined in the translation unit's main file."""
    base = os.path.basename(tu.rel)
    out = {}
    for name, f in tu.functions.items():
        if any(kind(c) == "CompoundStmt" for c in kids(f)) and os.path.basename(f.get("_file") or "") == base:
            out[name] = f
    return out


def enum_states(tu):
    st = {k: v for k, v in tu.enums.items() if tu.enum_of.get(k) == "rx_state"}
    if len(st) < 2:
        raise AnalysisError("enum rx_state vanished from %s" % tu.rel)
    return st


def sname(names, v):
    return names.get(v, "state %s" % v)


# ------------------------------------------------------------- receiver model

class Rx:
    """Complete decision table of one call of sercomm_drv_rx_char()."""

    def __init__(self, tu):
        self.tu = tu
        f = tu.func(RX_FN)
        ps = tu.fparams(f)
        if len(ps) != 1:
            raise AnalysisError("%s(): signature changed" % RX_FN)
        if ps[0].get("type", {}).get("qualType") not in OCTET_TYPES:
            raise AnalysisError("%s(): the received octet is no longer an 8-bit unsigned value" % RX_FN)
        self.step = Step(tu, RX_FN, ps[0]["name"], RXS, subject_id=ps[0].get("id"))
        self.step.cond_calls = True
        self.step.nonnull_calls = (RX_ALLOC_FN,)
        self.g = self.step.g
        self.own = own_functions(tu)
        self.states = enum_states(tu)
        self.names = {v: k for k, v in self.states.items()}
        self.tab = self.step.table(sorted(self.names))
        # a path whose tailroom literals contradict each other or msgb_tailroom() >= 0 (C06.R7) is never taken:
        # the true side of `msgb_tailroom(m) < 0` is no overflow path, it does not exist
        self.tab = {k: [p for p in paths if self.feasible(p)] for k, paths in self.tab.items()}
        self.rows = {}          # (state, octet) -> sig of the path(s) with room
        self.variants = {}      # (state, octet) -> [(constraints on the result of an own function called in the step, sig)]
        self.over = []          # overflow paths
        self.noroomtest = 0
        for (s, v), paths in self.tab.items():
            groups = {}
            for p in paths:
                r = self.room(p)
                if r is False:
                    self.over.append(p)
                    continue
                if r is None:
                    self.noroomtest += 1
                groups.setdefault(self.result_constraints(p), set()).add(self.sig(p))
            sigs = set()
            for g in groups.values():
                sigs |= g
            if len(sigs) == 1:
                self.rows[(s, v)] = sigs.pop()
                continue
            # several behaviours: acceptable only if they are told apart by the value an own function
            # returned to this very step (resolved against that function's return statements by the rules)
            if frozenset() in groups or any(len(g) != 1 for g in groups.values()):
                forks = sorted({("" if pol else "!") + t for p in paths for e in p.events if e[0] == "fork"
                                for (t, pol) in e[3]})
                raise AnalysisError("%s(): the step in %s on octet %s is not a function of (state, octet): %d behaviours "
                                    "depending on %s -- unclassifiable" % (RX_FN, sname(self.names, s), hx(v), len(sigs), forks))
            var = sorted(((c, list(g)[0]) for c, g in groups.items()), key=lambda x: (sorted(x[0], key=str), str(x[1])))
            self.variants[(s, v)] = var
            self.rows[(s, v)] = var[0][1]

    def result_constraints(self, p):
        """Constraints (callee, call text, op, k) this path puts on the
        value returned by functions of sercomm.c called earlier in the step."""
        out = set()
        called = {e[1] for e in p.events if e[0] == "call"}
        for e in p.events:
            if e[0] != "fork" or len(e) < 5:
                continue
            for c in e[4]:
                if c[0] not in self.own:
                    continue
                if c[2] is None or c[0] not in called:
                    raise AnalysisError("%s(): a branch depends on the result of %s() in a way the rule cannot resolve "
                                        "-- unclassifiable" % (RX_FN, c[0]))
                out.add(c)
        return frozenset(out)

    def variants_of(self, s, v):
        return self.variants.get((s, v)) or [(frozenset(), self.rows[(s, v)])]

    @staticmethod
    def feasible(p):
        lo, hi = 0, None
        for e in p.events:
            if e[0] == "fork":
                b = room_bounds(e[3]).get(RXM)
                if b is not None:
                    lo = max(lo, b[0])
                    hi = b[1] if hi is None or b[1] is None else min(hi, b[1])
            elif e[0] == "store" and e[1] == RXM:
                lo, hi = 0, None            # another buffer
            elif e[0] == "call" and e[1] == "msgb_put":
                lo, hi = 0, None            # the room changed
            if hi is not None and hi < lo:
                return False
        return True

    @staticmethod
    def room(p):
        """True: the path took the room side of a tailroom test on the
        receive buffer; False: the overflow side; None: no such test."""
        res = None
        for e in p.events:
            if e[0] == "fork":
                b = room_bounds(e[3]).get(RXM)
                if b is not None:
                    if b[1] == 0:
                        return False
                    if b[0] >= 1:
                        res = True
        return res

    @staticmethod
    def acts(p):
        out = []
        handed = False
        for e in p.events:
            if e[0] == "call":
                name, at, tt = e[1], e[2], e[3]
                if name == "msgb_put":
                    out.append(("put", at[0], tt[1][1] if tt[1][0] == "const" else None))
                elif name == "dispatch_rx_msg":
                    out.append(("dispatch",) + tuple(at))
                    handed = True
                elif name == "msgb_free":
                    out.append(("free", at[0]))
                    handed = True
                elif name in ("sercomm_alloc_msgb", "msgb_tailroom"):
                    pass
                else:
                    raise AnalysisError("%s() calls %s(): its effect on the receive step is outside the rule's "
                                        "vocabulary -- unclassifiable" % (RX_FN, name))
            elif e[0] == "store":
                ltxt, t, shape = e[1], e[2], e[5]
                if ltxt == RXM:
                    k = "NULL" if t == ("const", 0) else ("alloc" if t[0] == "call" and t[1] == "sercomm_alloc_msgb" else "other")
                    if handed or k != "alloc":
                        out.append(("msg", k))
                elif shape is not None:
                    bt = shape[1]
                    if bt[0] == "call" and bt[1] == "msgb_put":
                        out.append(("payload", shape[2], t))
                    else:
                        out.append(("ptrstore", ltxt, t, bt))
                else:
                    out.append(("field", ltxt, t))
            elif e[0] == "compound":
                out.append(("compound", e[1], e[2]))
        return tuple(out)

    def sig(self, p):
        return (p.scur, self.acts(p))

    # -- derived facts ----------------------------------------------------
    def consumed(self, sig):
        """[(sink, mask)] of the octet stores of a row."""
        out = []
        for a in sig[1]:
            if a[0] == "field":
                out.append((a[1], a[2][1] if a[2][0] == "octet" and a[2][2] == 0 else ("?", a[2])))
            elif a[0] == "payload":
                out.append(("payload", a[2][1] if a[2][0] == "octet" and a[2][2] == 0 else ("?", a[2])))
        return out

    def describe(self, sig):
        parts = []
        for a in sig[1]:
            if a[0] in ("field", "payload"):
                sink = a[1] if a[0] == "field" else "payload[%s]" % a[1]
                t = a[2]
                if t[0] == "octet":
                    parts.append("%s := ch%s" % (sink, "" if t[1] == 0 else " ^ %s" % hx(t[1])))
                else:
                    parts.append("%s := %s" % (sink, t[1] if len(t) > 1 else t[0]))
            elif a[0] == "put":
                parts.append("msgb_put(%s, %s)" % (a[1], a[2]))
            elif a[0] == "dispatch":
                parts.append("dispatch(%s)" % ", ".join(a[1:]))
            elif a[0] == "msg":
                parts.append("%s := %s" % (RXM, a[1]))
            else:
                parts.append(" ".join(str(x) for x in a))
        parts.append("next " + sname(self.names, sig[0]))
        return "; ".join(parts)

    def classes(self, s):
        out = {}
        for v in range(256):
            out.setdefault(self.rows[(s, v)], set()).add(v)
        return out

    def raw_class(self, s):
        """(sink, next state, octets) of the rows that store the octet
        unchanged into exactly one place; None if the state has none."""
        best = None
        for sig, vals in self.classes(s).items():
            c = self.consumed(sig)
            if len(c) == 1 and c[0][1] == 0 and not any(a[0] in ("dispatch", "msg", "free") for a in sig[1]):
                if best is None or len(vals) > len(best[2]):
                    best = (c[0][0], sig[0], vals, sig)
        return best


# ---------------------------------------------------------- transmitter model

class Tx:
    """Decision table of one call of sercomm_drv_pull() with a message in
    progress, plus the idle (dequeue) paths."""

    def __init__(self, tu):
        self.tu = tu
        f = tu.func(TX_FN)
        ps = tu.fparams(f)
        if len(ps) != 1:
            raise AnalysisError("%s(): signature changed" % TX_FN)
        self.out = ps[0]["name"]
        ptypes = {n.get("type", {}).get("qualType") for n in walk(tu.body(f)) if kind(n) == "MemberExpr" and ctext(n) == TXP}
        if not ptypes or not all(t.endswith("*") and t[:-1].strip() in OCTET_TYPES for t in ptypes):
            raise AnalysisError("%s(): %s is no longer a pointer to 8-bit unsigned octets (%s)" % (TX_FN, TXP, sorted(ptypes)))
        self.step = Step(tu, TX_FN, "*" + TXP, TXS, ptr=TXP)
        self.g = self.step.g
        self.states = enum_states(tu)
        self.names = {v: k for k, v in self.states.items()}
        # states the transmitter can be in: zero-initialised + every constant stored
        self.reach = {0}
        for name, fn in own_functions(tu).items():
            for e in effects(tu.body(fn)):
                if e[0] in ("store", "compound", "incdec") and ctext(e[1]) == TXS:
                    v = tu.fold(e[2]) if e[0] == "store" else None
                    if v is None:
                        raise AnalysisError("%s(): `%s` written with a non-constant -- unclassifiable" % (name, TXS))
                    self.reach.add(v)
        self.tab = self.step.table(sorted(self.reach), assume={TXM: True})
        self.rows = {}          # (state, octet, at_end) -> sig
        for (s, v), paths in self.tab.items():
            per = {}
            for p in paths:
                end = self.at_end(p)
                per.setdefault(end, set()).add(self.sig(p))
            for end, sigs in per.items():
                if len(sigs) != 1:
                    raise AnalysisError("%s(): step in %s on octet %s is not a function of (state, octet, end of message)"
                                        % (TX_FN, sname(self.names, s), hx(v)))
                self.rows[(s, v, end)] = sigs.pop()
        self.idle = [p for p in self.step.table([0], assume={TXM: False})[(0, 0x41)]]

    def octets_left(self, t, p):
        """True if the text t of a branch atom is the number of octets of the message still to be sent,
        `tx.msg->tail - tx.next_char`: written in place, or as the value a followed helper without side effects
        returned on this path (Step.resolve), provided the helper's return type holds every count the property
        quantifies over (< 2^15; a narrower type is what C06.R13 evaluates)."""
        diff = "%s->tail - %s" % (TXM, TXP)
        if t in (diff, "(%s)" % diff):
            return True
        step = self.step
        for fd in [step.f] + [step.helpers()[h] for h in step.reachable_helpers()]:
            for n in walk(self.tu.body(fd)):
                if kind(n) == "CallExpr" and ctext(n) == t and p.env.get(("rets", id(n))) in (diff, "(%s)" % diff):
                    h = step.helper_of(n)
                    if h is None or not step.pure(h):
                        continue
                    bits = int_type_bits(n, self.tu.kind)
                    if bits is None or bits[0] < 16:
                        raise AnalysisError("%s(): end-of-message test on `%s`, a count of octets converted to `%s` -- the "
                                            "transmit table does not model the conversion (C06.R13 evaluates it)"
                                            % (TX_FN, t, n.get("type", {}).get("qualType")))
                    return True
        return False

    def at_end(self, p):
        end = None
        for e in p.events:
            if e[0] != "fork":
                continue
            for (t, pol) in e[3]:
                if t == "%s < %s->tail" % (TXP, TXM):
                    end = not pol
                elif t in ("%s->tail == %s" % (TXM, TXP), "%s == %s->tail" % (TXP, TXM)):
                    end = pol
                elif t in ("%s->tail < %s" % (TXM, TXP),):
                    raise AnalysisError("%s(): end-of-message test `%s` unclassifiable" % (TX_FN, t))
                elif self.octets_left(t, p):
                    end = not pol           # next_char never passes tail: the count is zero exactly at the end
                elif t.startswith(("0 == ", "0 < ")) and self.octets_left(t.split(" ", 2)[2], p):
                    end = pol if t.startswith("0 == ") else not pol
                else:
                    raise AnalysisError("%s(): condition `%s` on the in-progress path is outside the rule's vocabulary"
                                        % (TX_FN, t))
        return end

    def acts(self, p):
        out = []
        held, rebound = set(), False     # locals holding the message in transmission; tx.msg assigned on the path
        for e in p.events:
            if e[0] == "local":
                (held.add if e[2] == ("expr", TXM) and not rebound else held.discard)(e[1])
            if e[0] == "store":
                ltxt, t, shape = e[1], e[2], e[5]
                rebound = rebound or ltxt == TXM
                if shape is not None and shape[1] == ("expr", self.out) and shape[2] == 0:
                    out.append(("emit", t))
                elif ltxt == TXM:
                    k = "NULL" if t == ("const", 0) else ("dequeue" if t[0] == "call" and t[1] == "msgb_dequeue" else "other")
                    out.append(("msg", k, t[2] if t[0] == "call" else None))
                else:
                    out.append(("store", ltxt, t))
            elif e[0] == "xor":
                out.append(("xor", e[1]))
            elif e[0] == "advance":
                out.append(("advance", e[1], e[2]))
            elif e[0] == "setptr":
                out.append(("setptr", e[1]))
            elif e[0] == "call":
                if e[1] == "msgb_free":
                    # a local that was loaded from tx.msg before tx.msg was assigned IS that message
                    out.append(("free", TXM, "held") if e[2][0] in held else ("free", e[2][0]))
                elif e[1] == "msgb_dequeue":
                    out.append(("dequeue", e[2][0]))
                elif e[1] not in ("sercomm_lock", "sercomm_unlock"):
                    raise AnalysisError("%s() calls %s(): its effect on the transmit step is outside the rule's "
                                        "vocabulary -- unclassifiable" % (TX_FN, e[1]))
            elif e[0] == "compound":
                out.append(("compound", e[1], e[2]))
            elif e[0] == "return":
                out.append(("return", e[1]))
            elif e[0] == "loopcut":
                out.append(("loopcut",))
        return tuple(out)

    def sig(self, p):
        return (p.scur, self.acts(p))

    def describe(self, sig):
        parts = []
        for a in sig[1]:
            if a[0] == "emit":
                t = a[1]
                if t[0] == "const":
                    parts.append("emit %s" % hx(t[1]))
                elif t[0] == "octet":
                    parts.append("emit octet%s%s" % ("" if t[1] == 0 else " ^ %s" % hx(t[1]),
                                                     "" if t[2] == 0 else " at +%s" % t[2]))
                else:
                    parts.append("emit %s" % (t[1] if len(t) > 1 else t[0]))
            elif a[0] == "xor":
                parts.append("octet ^= %s in place" % hx(a[1]))
            elif a[0] == "advance":
                parts.append("advance %+d" % a[1])
            elif a[0] == "return":
                parts.append("return %s" % (a[1][1] if a[1][0] == "const" else a[1][0]))
            elif a[0] in ("msg", "setptr", "free", "dequeue"):
                parts.append("%s %s" % (a[0], a[1]))
            else:
                parts.append(" ".join(str(x) for x in a))
        parts.append("next " + sname(self.names, sig[0]))
        return "; ".join(parts)


# ------------------------------------------------------------------- rules

def state_of_node(g, node, names):
    for (t, p) in sorted(g.guard_lits(node)):
        if p and t.startswith(RXS + " == "):
            try:
                return sname(names, int(t[len(RXS) + 4:]))
            except ValueError:
                pass
    return None


def unique_paths(tab):
    seen, out = set(), []
    for paths in tab.values():
        for p in paths:
            if id(p) not in seen:
                seen.add(id(p))
                out.append(p)
    return out


def no_room_fork(e):
    """A branch event that took the `no tailroom in the receive buffer` side."""
    return e[0] == "fork" and (room_bounds(e[3]).get(RXM) or [0, None])[1] == 0


def forwards_only(tu, helpers, hname, i, depth=0):
    """The helper uses its i-th parameter for nothing but passing it on as a call argument (to a function whose
    call is an event of the walked path, or to another helper that does the same)."""
    fd = helpers[hname]
    ps = tu.fparams(fd)
    if i >= len(ps) or depth > MAX_HELPER_DEPTH:
        return False
    pid = ps[i].get("id")
    for x in walk(tu.body(fd)):
        if ref_id(x) != pid or kind(x) != "DeclRefExpr":
            continue
        cur, par = x, tu.parent.get(id(x))
        while par is not None and kind(par) in ("ImplicitCastExpr", "ParenExpr", "CStyleCastExpr"):
            cur, par = par, tu.parent.get(id(par))
        if kind(par) != "CallExpr" or kids(par)[0] is cur:
            return False
        cal = strip(kids(par)[0], casts=True)
        cname = cal.get("referencedDecl", {}).get("name") if kind(cal) == "DeclRefExpr" else None
        if cname is None:
            return False
        if cname in helpers:
            j = [k for k, a in enumerate(kids(par)[1:]) if a is cur]
            if len(j) != 1 or not forwards_only(tu, helpers, cname, j[0], depth + 1):
                return False
    return True


def recycle_sites(rx):
    """{(CFG node id, callee)} of the calls that take the receive buffer, are none of RX_BUFFER_CALLS and are
    evaluated on the walked paths of the receive step ONLY after the no-room side of the tailroom test was taken,
    i.e. on the full buffer of an abandoned over-long frame."""
    after, other = set(), set()
    for p in unique_paths(rx.tab):
        over = False
        for e in p.events:
            if no_room_fork(e):
                over = True
            elif e[0] == "call" and RXM in e[2] and e[1] not in RX_BUFFER_CALLS:
                (after if over else other).add((e[4], e[1]))
    return after - other


def r1_bounded_store(L, tu, tag, size, rx):
    R = "C06.R1"
    f = tu.func(RX_FN)
    g = rx.g
    L.fn(F, RX_FN)
    puts = calls_to(f, "msgb_put")
    followed = rx.step.reachable_helpers()
    hputs = [(h, c) for h in followed for c in calls_to(rx.step.helpers()[h], "msgb_put")]
    for h in followed:
        # a followed helper is covered by the walked paths of the receive step only: nobody else may call it
        others = sorted(n for n, fn in own_functions(tu).items()
                        if n != RX_FN and n not in followed and calls_to(fn, h))
        if others and (hputs or any(kind(n) == "MemberExpr" and ctext(n) == RXM for n in walk(tu.body(rx.step.helpers()[h])))):
            raise AnalysisError("%s() touches the receive buffer and is also called from %s, outside the analysed receive "
                                "step -- unclassifiable" % (h, others))
    L.floor(R, "msgb_put sites reached from %s (%s build)" % (RX_FN, tag), len(puts) + len(hputs), 1)
    putting = {s for (s, v), paths in rx.tab.items() for p in paths
               if Rx.room(p) is not False and any(a[0] == "put" for a in Rx.acts(p))}
    L.floor(R, "receiver states whose step appends to the receive buffer (%s build)" % tag, len(putting), 2)
    for (h, c) in hputs:
        # a site inside a followed helper: decided on the walked paths that run through it
        node = rx.step.graph_of(h).node_of(c)
        a = call_args(c)
        n = tu.fold(a[1])
        if n is None:
            raise AnalysisError("%s(): msgb_put length `%s` is not constant -- unclassifiable" % (h, ctext(a[1])))
        L.fn(F, h)
        bufs, least, npaths = set(), None, 0
        for p in unique_paths(rx.tab):
            lo = 0
            for e in p.events:
                if e[0] == "fork":
                    b = room_bounds(e[3]).get(RXM)
                    if b is not None:
                        lo = max(lo, b[0])
                elif e[0] == "store" and e[1] == RXM:
                    lo = 0
                elif e[0] == "call" and e[1] == "msgb_put" and e[4] == node.id:
                    npaths += 1
                    bufs.add(e[2][0])
                    least = lo if least is None else min(least, lo)
                    lo -= n
        if not npaths:
            raise AnalysisError("%s(): msgb_put is on no walked path of %s -- unclassifiable" % (h, RX_FN))
        where = "helper %s()" % h
        L.require(R, F, h, "msgb_put in %s appends to the receive buffer" % where, [RXM], sorted(bufs), line=tu.line(c))
        L.ob(R, F, h, "msgb_put in %s is preceded on every path of the receive step by a tailroom test on the same buffer "
             "that leaves room for the appended octets" % where, "msgb_tailroom(%s) >= %d on every path to the call" % (RXM, n),
             "msgb_tailroom >= %d guaranteed" % least, least >= n, tu.line(c))
    for i, c in enumerate(puts):
        node = g.node_of(c)
        a = call_args(c)
        buf, n = ctext(a[0]), tu.fold(a[1])
        if n is None:
            raise AnalysisError("%s(): msgb_put length `%s` is not constant -- unclassifiable" % (RX_FN, ctext(a[1])))
        where = state_of_node(g, node, rx.names) or "site %d" % (i + 1)
        L.require(R, F, RX_FN, "msgb_put in %s appends to the receive buffer" % where, RXM, buf, line=tu.line(c))
        b = room_bounds(g.guard_lits(node)).get(buf, [0, None])
        L.ob(R, F, RX_FN, "msgb_put in %s is dominated by a tailroom test on the same buffer that leaves room for the "
             "appended octets" % where, "msgb_tailroom(%s) >= %d on every path to the call" % (buf, n),
             "msgb_tailroom >= %d guaranteed" % b[0], b[0] >= n, tu.line(c))
    # path facts: one put per octet, store inside the appended area, buffer not replaced after the test
    worst, badidx, replaced, foreign = 0, [], [], []
    for p in unique_paths(rx.tab):
        if Rx.room(p) is False:
            continue
        acts = Rx.acts(p)
        unattributed_store(acts)
        nput = [a for a in acts if a[0] == "put"]
        worst = max(worst, len(nput))
        cur = None
        for a in acts:
            if a[0] == "put":
                cur = a[2]
            elif a[0] == "payload" and (cur is None or a[1] is None or not (0 <= a[1] < cur)):
                badidx.append("index %s after msgb_put(.., %s)" % (a[1], cur))
            elif a[0] == "ptrstore" or (a[0] in ("field", "compound") and a[1].startswith(RXM)):
                foreign.append(a[1])
        tested = False
        for e in p.events:
            if e[0] == "fork" and (room_bounds(e[3]).get(RXM) or [0])[0] >= 1:
                tested = True
            elif e[0] == "store" and e[1] == RXM and tested and nput:
                later = [x for x in p.events[p.events.index(e):] if x[0] == "call" and x[1] == "msgb_put"]
                if later:
                    replaced.append(e[4])
    L.require(R, F, RX_FN, "msgb_put calls per received octet (at most one, the tailroom test guarantees one octet)",
              1, worst)
    L.require(R, F, RX_FN, "octet stores through the msgb_put result stay inside the appended area", [], sorted(set(badidx)))
    L.require(R, F, RX_FN, "receive buffer pointer is not replaced between the tailroom test and msgb_put", [], replaced)
    L.require(R, F, RX_FN, "writes into the receive buffer other than through a fresh msgb_put result", [], sorted(set(foreign)))
    if rx.step.alloc_decided:
        # the step tests the pointer the allocator returned: decided under the allocation-success assumption
        L.assume(ALLOC_ASSUMPTION)
        L.ob(R, F, RX_FN, "tests of the pointer %s() returned are decided for a successful allocation (the property quantifies "
             "over histories in which buffer allocation succeeds): the branch taken only on a NULL result is an environment "
             "failure path, not a row of the step table" % RX_ALLOC_FN, "assumption recorded",
             "assumed non-NULL after the allocation: %s" % ", ".join(sorted(rx.step.alloc_decided)), True)
        L.extra.setdefault("environment_failure_paths", {})["%s() returned NULL (%s build)" % (RX_ALLOC_FN, tag)] = {
            "not walked": "branches of %s() taken only when the pointer just returned by %s() is NULL" % (RX_FN, RX_ALLOC_FN),
            "tests decided by the assumption": sorted(rx.step.alloc_decided)}
    # overflow path
    tests = [n for n in g.nodes if n.kind == "cond" and n.cond is not None and
             any(_TR + RXM + ")" in t for (t, _) in cliterals(tu, n.cond, True))]
    L.ob(R, F, RX_FN, "tailroom test on the receive buffer before the state switch", "present",
         "present" if tests else "absent", bool(tests))
    over = [p for p in unique_paths(rx.tab) if Rx.room(p) is False]
    if tests:
        L.floor(R, "overflow paths (%s build)" % tag, len(over), 1)
    idle = 0
    bad_state, bad_buf, bad_act, dangling = set(), set(), set(), set()
    for p in over:
        if p.scur != idle:
            bad_state.add(sname(rx.names, p.scur))
        after = False
        fresh, freed = False, False
        for e in p.events:
            if e[0] == "fork" and (room_bounds(e[3]).get(RXM) or [0, None])[1] == 0:
                after = True
                continue
            if not after:
                continue
            if e[0] == "store" and e[1] == RXM:
                fresh, freed = True, False
            elif e[0] == "call" and RXM in e[2] and e[1] not in RX_BUFFER_CALLS:
                fresh = True                # recycled in place: what the call leaves behind is evaluated by C06.R10
            elif e[0] == "call" and e[1] == "msgb_free" and e[2][:1] == (RXM,):
                freed = True
            elif e[0] == "call" and e[1] in ("msgb_put", "dispatch_rx_msg"):
                bad_act.add(e[1])
        if not fresh:
            bad_buf.add("full buffer kept")
        if freed:
            dangling.add("freed buffer kept in %s" % RXM)
    if over:
        L.require(R, F, RX_FN, "overflow (no tailroom): state machine returns to the idle state %s" % sname(rx.names, idle),
                  [], sorted(bad_state))
        L.require(R, F, RX_FN, "overflow (no tailroom): the full buffer is replaced or reset, no freed buffer is kept",
                  [], sorted(bad_buf | dangling))
        L.require(R, F, RX_FN, "overflow (no tailroom): nothing is stored or dispatched", [], sorted(bad_act))
    # buffer extent of this build
    sizes = sorted({tu.fold(call_args(c)[0]) for c in calls_to(f, "sercomm_alloc_msgb")}, key=str)
    L.require(R, F, RX_FN, "receive buffer extent of the %s build" % tag, [size], sizes)
    # who may touch the receive buffer
    allowed = set(RX_BUFFER_CALLS)
    recycling = recycle_sites(rx)
    mutators = ("msgb_put", "msgb_push", "msgb_pull", "msgb_get", "msgb_trim", "msgb_reserve", "memcpy", "memset", "msgb_l")
    nuse = 0
    for name, fn in sorted(own_functions(tu).items()):
        for n in walk(tu.body(fn)):
            if kind(n) != "MemberExpr" or ctext(n) != RXM:
                continue
            nuse += 1
            par = tu.parent.get(id(n))
            while par is not None and kind(par) in ("ImplicitCastExpr", "ParenExpr", "CStyleCastExpr"):
                n, par = par, tu.parent.get(id(par))
            pk = kind(par)
            if pk == "BinaryOperator" and par.get("opcode") == "=" and kids(par)[0] is n:
                if name not in ("sercomm_init", RX_FN) and name not in followed:
                    raise AnalysisError("%s() assigns %s: writer outside the analysed receive step -- unclassifiable"
                                        % (name, RXM))
                L.ob(R, F, name, "assignment of the receive buffer pointer", "only in sercomm_init / %s" % RX_FN,
                     name, True, tu.line(par))
            elif pk == "CallExpr" and kids(par)[0] is not n:
                callee = ctext(kids(par)[0])
                if callee not in allowed and (name == RX_FN or name in followed):
                    cg = g if name == RX_FN else rx.step.graph_of(name)
                    if callee in followed:
                        # handed to a helper the step interpreter follows: accepted where the frame is abandoned, if the
                        # helper only passes the pointer on - those calls are events of the walked overflow paths (C06.R10)
                        args = [strip(a, casts=True) for a in call_args(par)]
                        pos = [i for i, a in enumerate(args) if a is strip(n, casts=True) or a is n]
                        if name == RX_FN and len(pos) == 1 and forwards_only(tu, rx.step.helpers(), callee, pos[0]) and \
                                (room_bounds(cg.guard_lits(cg.node_of(par))).get(RXM) or [0, None])[1] == 0:
                            continue
                    if (cg.node_of(par).id, callee) in recycling:
                        # evaluated only after the no-room side of the tailroom test, on the abandoned full buffer:
                        # what the call makes of the buffer is decided by evaluating its body (C06.R10)
                        continue
                if callee in allowed:
                    if callee in ("msgb_put", "dispatch_rx_msg"):
                        if name != RX_FN and name not in followed:
                            raise AnalysisError("%s() calls %s on the receive buffer: not covered by the tailroom "
                                                "analysis of %s -- unclassifiable" % (name, callee, RX_FN))
                        L.ob(R, F, name, "%s on the receive buffer" % callee, "only in %s" % RX_FN, name,
                             True, tu.line(par))
                elif callee.startswith(mutators):
                    L.ob(R, F, name, "receive buffer handed to %s()" % callee, "only msgb_put under the tailroom test",
                         callee, False, tu.line(par))
                else:
                    raise AnalysisError("%s(): receive buffer handed to %s() -- unclassifiable" % (name, callee))
            elif pk == "MemberExpr":
                top, pp = par, tu.parent.get(id(par))
                while pp is not None and kind(pp) in ("ImplicitCastExpr", "ParenExpr", "MemberExpr", "ArraySubscriptExpr"):
                    if kind(pp) == "ImplicitCastExpr" and pp.get("castKind") == "LValueToRValue":
                        break
                    top, pp = pp, tu.parent.get(id(pp))
                wr = pp is not None and ((kind(pp) in ("BinaryOperator", "CompoundAssignOperator") and
                                          pp.get("opcode", "").endswith("=") and pp.get("opcode") not in CMP and
                                          kids(pp)[0] is top) or
                                         (kind(pp) == "UnaryOperator" and pp.get("opcode") in ("++", "--", "&")))
                if wr:
                    L.ob(R, F, name, "direct write to a field of the receive buffer `%s`" % ctext(top),
                         "none", ctext(pp), False, tu.line(pp))
            elif pk in ("UnaryOperator", "IfStmt", "BinaryOperator", "ConditionalOperator", "WhileStmt"):
                if pk == "UnaryOperator" and par.get("opcode") == "&":
                    raise AnalysisError("%s(): address of %s taken -- unclassifiable" % (name, RXM))
                if pk == "BinaryOperator" and par.get("opcode") not in CMP + ("&&", "||"):
                    raise AnalysisError("%s(): %s copied or combined by `%s` (alias) -- unclassifiable" % (
                        name, RXM, par.get("opcode")))
            else:
                raise AnalysisError("%s(): use of %s in a %s -- unclassifiable" % (name, RXM, pk))
    L.floor(R, "uses of %s (%s build)" % (RXM, tag), nuse, 5)


def pushed_header(tu):
    """Octets sercomm_sendmsg() - the transmit entry and the in-tree handler of the echo DLCI - prepends to a buffer."""
    push = {tu.fold(call_args(c)[1]) for c in calls_to(tu.func("sercomm_sendmsg"), "msgb_push")}
    if len(push) != 1 or None in push:
        raise AnalysisError("sercomm_sendmsg(): header length pushed is not one constant -- unclassifiable")
    return push.pop()


def r1_capacity(L, tu, mtu, tag, size):
    """The buffer sercomm_alloc_msgb(SERCOMM_RX_MSG_SIZE) must have room for a payload of that many octets, and
    headroom for the two octets sercomm_sendmsg() prepends.  Room and headroom are those of the buffer the
    allocation chain really produces: sercomm_alloc_msgb -> msgb_alloc_headroom -> msgb_alloc / msgb_reserve is
    evaluated (MsgbEval) for this build's size, however the chain is written; room = octets allocated behind the
    header - offset of the write pointer, headroom = offset of the message start."""
    R = "C06.R1"
    L.unit(MSGB_H)
    ev, m, extent = fresh_buffer(tu, mtu, size)
    o = ev.obj
    tail, data = o.get("tail", 0), o.get("data", 0)
    if not (_sym(tail) and tail[1] == "buf" and _sym(data) and data[1] == "buf"):
        raise AnalysisError("sercomm_alloc_msgb(%d): data / tail of the fresh buffer do not point into its data area (%s, %s)" % (
            size, _vtext(data), _vtext(tail)))
    for name in sorted(ev.followed):
        L.fn(helper_file(ev, name), name)
    sa = tu.func("sercomm_alloc_msgb")
    total, head = extent, tail[2]
    L.ob(R, HDR, "sercomm_alloc_msgb", "receive capacity (%s build): the buffer allocated for %d octets has tailroom for a "
         "payload of that length (every payload shorter than the receive buffer fits before the closing flag)" % (tag, size),
         "size - headroom >= %d" % size, "%d - %d = %d" % (total, head, total - head), total - head >= size,
         tu.line(sa))
    need = pushed_header(tu)
    hr = data[2]
    if ev.find("msgb_headroom") is not None:
        try:
            seen = ev.call("msgb_headroom", [m])
        except _Abort:
            seen = None
        if isinstance(seen, int):
            hr = min(hr, seen)         # msgb_push() tests msgb_headroom(); the octets must also exist
    L.ob(R, HDR, "sercomm_alloc_msgb", "headroom of a sercomm buffer holds the address and control octets sercomm_sendmsg "
         "prepends", "headroom >= %d" % need, hr, hr >= need, tu.line(sa))


class TxFacts:
    """esc, xor, esc_state, normal_states, escaped, raw, flag -- extracted from the transmitter table."""


def r2_tx(L, tu, tag, tx):
    """Transmitter side of the escape agreement; returns the extracted facts."""
    R = "C06.R2"
    L.fn(F, TX_FN)
    K = TxFacts()
    esc_rows = {}
    for (s, v, end), sig in tx.rows.items():
        if end is False and any(a[0] == "xor" for a in sig[1]):
            esc_rows[(s, v)] = sig
    shapes = set()
    for sig in esc_rows.values():
        em = [a[1] for a in sig[1] if a[0] == "emit"]
        xo = [a[1] for a in sig[1] if a[0] == "xor"]
        other = [a for a in sig[1] if a[0] not in ("emit", "xor", "return")]
        ok = len(em) == 1 and em[0][0] == "const" and len(xo) == 1 and xo[0] != 0 and not other
        shapes.add((em[0][1] if ok else None, xo[0] if ok else None, sig[0], tx.describe(sig)))
    ok = len(shapes) == 1 and list(shapes)[0][0] is not None
    L.ob(R, F, TX_FN, "escaping branch: emits one constant escape octet, XORs the pending octet in place with one non-zero "
         "constant, keeps the position and enters the escape state",
         "emit ESC; octet ^= X in place; no advance; next = escape state",
         sorted(s[3] for s in shapes) or "no escaping branch", ok)
    if not ok:
        return None
    K.esc, K.xor, K.esc_state, _ = list(shapes)[0]
    K.normal_states = sorted(s for s in tx.reach if s != K.esc_state)
    L.ob(R, F, TX_FN, "escape state is distinct from the states in which octets are classified", "escape state entered "
         "only by the escaping branch", [sname(tx.names, s) for s in K.normal_states], bool(K.normal_states) and
         0 in K.normal_states)
    # escaped set must not depend on the (non-escape) state
    per = {s: frozenset(v for (s2, v) in esc_rows if s2 == s) for s in K.normal_states}
    K.escaped = set(per[K.normal_states[0]]) if K.normal_states else set()
    L.ob(R, F, TX_FN, "escaped octet set is the same in every non-escape transmitter state", "one set",
         {sname(tx.names, s): hxs(v) for s, v in per.items()}, len(set(per.values())) == 1)
    L.floor(R, "escaped octet values (%s build)" % tag, len(K.escaped), 1)
    K.raw = set(range(256)) - K.escaped
    # standard branch
    bad = set()
    for s in K.normal_states:
        for v in K.raw:
            sig = tx.rows.get((s, v, False))
            if sig is None:
                raise AnalysisError("%s(): no mid-message row for %s" % (TX_FN, sname(tx.names, s)))
            em = [a[1] for a in sig[1] if a[0] == "emit"]
            adv = sum(a[1] for a in sig[1] if a[0] == "advance")
            other = [a for a in sig[1] if a[0] not in ("emit", "advance", "return")]
            if not (em == [("octet", 0, 0)] and adv == 1 and not other and sig[0] != K.esc_state):
                bad.add(tx.describe(sig))
    L.require(R, F, TX_FN, "standard branch: every octet that is not escaped is emitted unchanged, the position advances "
              "by one, the state stays outside the escape state", [], sorted(bad))
    # escape state
    bad = set()
    for (s, v, end), sig in tx.rows.items():
        if s != K.esc_state:
            continue
        em = [a[1] for a in sig[1] if a[0] == "emit"]
        adv = sum(a[1] for a in sig[1] if a[0] == "advance")
        other = [a for a in sig[1] if a[0] not in ("emit", "advance", "return")]
        if not (em == [("octet", 0, 0)] and adv == 1 and not other and sig[0] != K.esc_state):
            bad.add(tx.describe(sig))
    L.require(R, F, TX_FN, "escape state: the pending (XOR-ed) octet is emitted, the position advances by one, the escape "
              "state is left", [], sorted(bad))
    # end of message
    ends = set()
    bad = set()
    for s in K.normal_states:
        for v in range(256):
            sig = tx.rows.get((s, v, True))
            if sig is None:
                bad.add("no end-of-message test in %s" % sname(tx.names, s))
                continue
            em = [a[1] for a in sig[1] if a[0] == "emit"]
            acts = [a[:2] for a in sig[1] if a[0] in ("free", "msg")]
            if acts == [("msg", "NULL"), ("free", TXM)] and ("free", TXM, "held") in sig[1]:
                acts.reverse()      # released through a local that still holds the message: same effect
            adv = [a for a in sig[1] if a[0] in ("advance", "xor")]
            if len(em) == 1 and em[0][0] == "const" and acts == [("free", TXM), ("msg", "NULL")] and not adv \
                    and sig[0] != K.esc_state:
                ends.add(em[0][1])
            else:
                bad.add(tx.describe(sig))
    L.require(R, F, TX_FN, "end of message (next_char reached msg->tail): one constant closing octet, message freed and "
              "forgotten, nothing else", [], sorted(bad))
    # start of frame (idle paths)
    starts = set()
    bad = set()
    n_emit = 0
    for p in tx.idle:
        acts = tx.acts(p)
        em = [a[1] for a in acts if a[0] == "emit"]
        if not em:
            continue
        n_emit += 1
        kinds_ = [a[0] for a in acts if a[0] in ("dequeue", "msg", "emit", "setptr", "advance", "xor", "free")]
        sp = [a[1] for a in acts if a[0] == "setptr"]
        if len(em) == 1 and em[0][0] == "const" and kinds_[:2] == ["dequeue", "msg"] and \
                sorted(kinds_[2:]) == ["emit", "setptr"] and sp == [TXM + "->data"] and p.ret == ("const", 1) \
                and p.scur != K.esc_state:      # the first octet (address) must be classified, not sent as "already escaped"
            starts.add(em[0][1])
        else:
            bad.add(tx.describe(tx.sig(p)))
    L.floor(R, "idle paths of %s that start a frame (%s build)" % (TX_FN, tag), n_emit, 1)
    L.require(R, F, TX_FN, "start of frame: after a successful dequeue one constant opening octet is emitted and the "
              "position is set to msg->data, so address and control octets pass through the escaping branch like payload",
              [], sorted(bad))
    L.ob(R, F, TX_FN, "opening and closing octet are the same single flag constant", "one constant",
         {"start": hxs(starts), "end": hxs(ends)}, len(starts) == 1 and starts == ends)
    if not (len(starts) == 1 and starts == ends):
        return None
    K.flag = list(starts)[0]
    # flag only first / last
    ctx = set()
    if K.esc == K.flag:
        ctx.add("mid-frame: escaping branch emits %s" % hx(K.flag))
    # decided on the walked paths (wherever the stores are written): a path with a message in progress that
    # emits the flag constant must be the end-of-message path; the idle paths that emit it were checked above
    sites = n_emit
    for (s_, v_, end), sig in sorted(tx.rows.items(), key=str):
        if any(a[0] == "emit" and a[1] == ("const", K.flag) for a in sig[1]):
            sites += 1
            if end is not True:
                ctx.add("mid-frame: flag emitted in %s with octets left to send (%s)" % (sname(tx.names, s_), tx.describe(sig)))
    L.floor(R, "walked paths that emit the flag octet (%s build)" % tag, sites, 2)
    L.require(R, F, TX_FN, "the flag octet is emitted only as first (after dequeue) and last (end of message) octet of a "
              "frame", [], sorted(ctx))
    # one octet per successful pull
    bad = set()
    for sig in set(tx.rows.values()):
        em = [a for a in sig[1] if a[0] == "emit"]
        ret = [a[1] for a in sig[1] if a[0] == "return"]
        if not (len(em) == 1 and ret == [("const", 1)]):
            bad.add(tx.describe(sig))
    L.require(R, F, TX_FN, "message in progress: exactly one octet is produced and 1 is returned", [], sorted(bad))
    # the wire between the flags
    forb = {K.flag, 0}
    L.require(R, F, TX_FN, "octets sent unescaped between the flags exclude the flag octet, the escape octet and 0x00",
              [], hxs(K.raw & (forb | {K.esc})))
    L.require(R, F, TX_FN, "escaped images on the wire (octet XOR constant) are neither the flag octet nor 0x00",
              [], hxs({v ^ K.xor for v in K.escaped} & forb))
    return K


def unattributed_store(acts):
    """The store of a row that goes through a pointer about which nothing is known (not a fresh msgb_put result,
    not an expression over the receive buffer, not resolved to an object at the call site of a followed helper):
    where it lands cannot be said, so neither 'stored into field X' nor 'foreign write' is decided -> no verdict."""
    for a in acts:
        if a[0] == "ptrstore" and RXM not in str(a[3][1:]):
            raise AnalysisError("%s(): store through `%s` (pointer = %s), which cannot be attributed to the receive "
                                "buffer or to another object -- unclassifiable" % (RX_FN, a[1], ctext_term(a[3])))


def frame_chain(rx, K):
    """Frame-interior consuming states in wire order: [(state, sink, next, raw octets)]."""
    idle = 0
    first = rx.rows[(idle, K.flag)][0]
    chain, s = [], first
    while s not in [c[0] for c in chain] and s != idle:
        rc = rx.raw_class(s)
        if rc is None:
            for sig in rx.classes(s):
                unattributed_store(sig[1])
            break
        chain.append((s, rc[0], rc[1], rc[2]))
        s = rc[1]
    return chain


def r2_r3_rx(L, tu, tag, rx, K):
    R2, R3 = "C06.R2", "C06.R3"
    idle = 0
    L.floor(R2, "receiver states (%s build)" % tag, len(rx.names), 5)
    # idle state
    leave = {v for v in range(256) if rx.rows[(idle, v)][0] != idle}
    acts = {rx.describe(rx.rows[(idle, v)]) for v in range(256) if rx.rows[(idle, v)][1]}
    L.ob(R2, F, RX_FN, "idle receiver (%s): exactly the flag octet opens a frame, every other octet is ignored" %
         sname(rx.names, idle), {"leaves idle on": hxs({K.flag}), "actions": []},
         {"leaves idle on": hxs(leave), "actions": sorted(acts)}, leave == {K.flag} and not acts)
    chain = frame_chain(rx, K)
    sinks = [c[1] for c in chain]
    ok = len(chain) == 3 and sinks[2] == "payload" and chain[2][2] == chain[2][0] and \
        len({sinks[0], sinks[1], "payload"}) == 3 and all(s.startswith("sercomm.rx.") for s in sinks[:2])
    L.ob(R3, F, RX_FN, "frame-interior states in wire order: address field, control field, payload (repeating)",
         "[address, control, payload*]", ["%s -> %s" % (sname(rx.names, c[0]), c[1]) for c in chain], ok)
    if not ok:
        return None
    L.floor(R3, "frame-interior consuming states (%s build)" % tag, len(chain), 3)
    xors = set()
    for (s, sink, nxt, rawv) in chain:
        nm = sname(rx.names, s)
        L.require(R2, F, RX_FN, "receive state %s: every octet the transmitter sends unescaped is taken unchanged" % nm,
                  [], hxs(K.raw - rawv))
        sig = rx.rows[(s, K.esc)]
        want = "escape octet %s: nothing stored, next = un-escape state U; in U every octet: %s := ch ^ %s, next %s" % (
            hx(K.esc), sink, hx(K.xor), sname(rx.names, nxt))
        found, good = None, False
        cons = rx.consumed(sig)
        if cons or any(a[0] in ("dispatch", "msg", "free", "put") for a in sig[1]):
            found = "escape octet %s is consumed like data: %s" % (hx(K.esc), rx.describe(sig))
        else:
            u = sig[0]
            cl = rx.classes(u)
            if u == s or len(cl) != 1:
                found = "escape octet %s: %s; un-escape state not uniform: %s" % (
                    hx(K.esc), rx.describe(sig), sorted(rx.describe(x) for x in cl)[:3])
            else:
                usig = list(cl)[0]
                ucons = rx.consumed(usig)
                extra = [a for a in usig[1] if a[0] not in ("field", "payload", "put")]
                found = "escape octet %s: %s; in %s: %s" % (hx(K.esc), rx.describe(sig), sname(rx.names, u), rx.describe(usig))
                if len(ucons) == 1 and ucons[0][0] == sink and isinstance(ucons[0][1], int) and ucons[0][1] != 0 \
                        and usig[0] == nxt and not extra:
                    xors.add(ucons[0][1])     # the constant itself is compared below (C06.R2)
                    good = True
        L.ob(R3, F, RX_FN, "receive state %s consumes a framed octet into %s: the escape octet is not taken as data and "
             "the octet after it is un-escaped into the same place (the transmitter escapes every octet from msg->data to "
             "msg->tail, address and control included)" % (nm, sink), want, found, good, state_line(tu, rx, s))
    if xors:
        L.require(R2, F, RX_FN, "transmitter and receiver use the same XOR constant", [hx(K.xor)], hxs(xors))
    return chain


def state_line(tu, rx, s):
    for n in rx.g.nodes:
        if n.kind == "switch":
            for (t, l) in n.succ:
                if isinstance(l, tuple) and l[1] == s and t.ast is not None:
                    return tu.line(t.ast)
    return None


def evaluated(tu, n):
    """False inside sizeof / typeof operands."""
    cur = tu.parent.get(id(n))
    while cur is not None:
        if kind(cur) == "UnaryExprOrTypeTraitExpr":
            return False
        if kind(cur) in ("FunctionDecl", "CompoundStmt"):
            return True
        cur = tu.parent.get(id(cur))
    return True


def subscripts(tu, fn, base):
    return [n for n in walk(tu.body(fn)) if kind(n) == "ArraySubscriptExpr" and ctext(kids(n)[0]) == base
            and evaluated(tu, n)]


def is_unsigned(n):
    qt = strip(n, casts=False).get("type", {}).get("qualType", "")
    return qt.startswith("uint") or "unsigned" in qt or qt in ("size_t", "uint8_t")


def callee_outcomes(tu, name, j):
    """What a function of sercomm.c that is handed the receive buffer as
    parameter j does with it, per path: {(return term, fates)} with fates a
    subset of {'handler' (passed to the registered DLCI handler), 'freed'};
    the empty set means the buffer is left with the caller."""
    fn = tu.func(name)
    pn = [p.get("name") for p in tu.fparams(fn)]
    if j >= len(pn):
        raise AnalysisError("%s(): signature changed" % name)
    buf = pn[j]
    stp = Step(tu, name, "<no octet>", "<no state>")
    out = set()

    def mentions_buf(text):
        return ident_count(text, buf) > 0

    for p in stp.paths(0, 0):
        fates = set()
        for e in p.events:
            if e[0] == "call":
                if buf in e[2]:
                    if e[1] == "msgb_free":
                        fates.add("freed")
                    elif e[1].startswith(HANDLERS + "["):
                        fates.add("handler")
                    else:
                        raise AnalysisError("%s() hands the receive buffer to %s(): ownership unclassifiable" % (name, e[1]))
                elif any(mentions_buf(a) for a in e[2]):
                    raise AnalysisError("%s(): the receive buffer appears inside an argument of %s() -- unclassifiable"
                                        % (name, e[1]))
            elif e[0] in ("store", "local", "compound") and (e[2] == ("expr", buf) or mentions_buf(e[1])):
                raise AnalysisError("%s(): the receive buffer `%s` is copied or written (%s) -- unclassifiable" % (
                    name, buf, e[1]))
            elif e[0] in ("loopcut", "loopexit"):
                raise AnalysisError("%s(): loop in a function that is handed the receive buffer -- unclassifiable" % name)
        ret = p.ret if p.ret not in (None, ("void",)) else None
        if ret is not None and ret[0] != "const":
            ret = ("nonconst", ctext_term(ret))
        out.add((ret, frozenset(fates)))
    return out


def consistent(constraints, ret, callee):
    """Can a callee path returning `ret` be the one the caller's path assumed?"""
    for (name, txt, op, k) in constraints:
        if name != callee:
            raise AnalysisError("%s(): the closing-flag path depends on the result of %s() -- unclassifiable" % (RX_FN, name))
        if ret is None:
            raise AnalysisError("%s() returns no value on some path but %s() tests its result -- unclassifiable" % (callee, RX_FN))
        if ret[0] != "const":
            raise AnalysisError("%s() returns the non-constant `%s`; %s() branches on it -- unclassifiable" % (
                callee, ret[1], RX_FN))
        r = ret[1]
        if not {"==": r == k, "!=": r != k, "<": r < k, ">": r > k, "<=": r <= k, ">=": r >= k}[op]:
            return False
    return True


def r4_frame_end(L, tu, tag, rx, K, chain):
    """C06.R4 (closing flag).  Decides the 'exactly once' and 'identical
    payload' clauses at the frame boundary: the completed frame is dispatched
    once with (received DLCI, receive buffer), and on EVERY path of that step
    -- every value dispatch_rx_msg can return, resolved against its own return
    statements and against what it did with the buffer on that path -- the
    receive buffer pointer is NULL or a fresh buffer afterwards.  A pointer
    that survives the closing flag makes the next frame's octets land behind
    the finished frame's payload (or in a buffer a handler already owns)."""
    R = "C06.R4"
    # (a) every state has a case
    sw = [n for n in rx.g.nodes if n.kind == "switch" and ctext(n.cond) == RXS]
    if len(sw) != 1:
        raise AnalysisError("%s(): expected one switch over %s, found %d" % (RX_FN, RXS, len(sw)))
    labels = {l[1] for (_, l) in sw[0].succ if isinstance(l, tuple)}
    dflt = any(l == "default" for (_, l) in sw[0].succ)
    missing = sorted(k for k, v in rx.states.items() if v not in labels and not dflt)
    L.require(R, F, RX_FN, "enumerators of enum rx_state without a case in the receive switch", [], missing,
              line=tu.line(sw[0].ast))
    # (b) closing flag
    s3, addr_sink = chain[2][0], chain[0][1]
    var = rx.variants_of(s3, K.flag)
    line = state_line(tu, rx, s3)
    disp = sorted({tuple(a for a in sig[1] if a[0] == "dispatch") for (_, sig) in var})
    L.require(R, F, RX_FN, "closing flag in the payload state dispatches the frame exactly once with (address field, "
              "receive buffer)", [(("dispatch", addr_sink, RXM),)], disp, line=line)
    callee, j = "dispatch_rx_msg", 1
    outcomes = sorted(callee_outcomes(tu, callee, j), key=str)
    L.floor(R, "paths of %s() (%s build)" % (callee, tag), len(outcomes), 2)
    bad, pairs = [], 0
    for (cons, sig) in var:
        after, seen = [], False
        for a in sig[1]:
            if a[0] == "dispatch":
                seen = True
            elif seen:
                after.append(a)
        upto = []
        forgot = False
        for a in after:
            if a[0] == "msg" and a[1] in ("NULL", "alloc"):
                forgot = True
                break
            upto.append(a)
        matched = 0
        for (ret, fates) in outcomes:
            if not consistent(cons, ret, callee):
                continue
            matched += 1
            pairs += 1
            how = "%s() %s, buffer %s" % (callee, "returns %s" % ret[1] if ret is not None else "returns",
                                           " and ".join("passed to the DLCI handler" if f == "handler" else "freed"
                                                        for f in sorted(fates)) if fates
                                           else "neither handed to a handler nor freed")
            if not forgot:
                bad.append("%s: %s keeps pointing to the finished frame (%s) -- the next frame is appended to %s" % (
                    how, RXM, rx.describe(sig), "a buffer it no longer owns" if fates else "its stale payload"))
            elif any(a[0] in ("put", "payload", "dispatch") or (a[0] == "free" and fates) for a in upto):
                bad.append("%s: buffer used again before %s is replaced (%s)" % (how, RXM, rx.describe(sig)))
        # a variant no return statement of the callee can produce is dead code, not a behaviour
    L.floor(R, "closing-flag paths x outcomes of %s() (%s build)" % (callee, tag), pairs, 2)
    L.ob(R, F, RX_FN, "after the closing flag the finished frame's buffer is forgotten on every path, whatever %s() "
         "returned and did with it (receive buffer pointer := NULL or a fresh buffer before the function returns)" % callee,
         "%s := NULL / fresh buffer after dispatch on every path" % RXM,
         sorted(set(bad)) or "%s replaced on all %d paths" % (RXM, pairs), not bad, line)
    nxt = sorted({sname(rx.names, sig[0]) for (_, sig) in var})
    L.require(R, F, RX_FN, "after the closing flag the receiver waits for the next opening flag",
              [sname(rx.names, 0)], nxt, line=line)
    where = sorted({"%s on %s" % (sname(rx.names, s), hx(v)) for (s, v) in rx.rows
                    for (_, g) in rx.variants_of(s, v) if any(a[0] == "dispatch" for a in g[1])})
    if len(where) > 4:
        where = where[:4] + ["... %d more" % (len(where) - 4)]
    L.require(R, F, RX_FN, "frames are dispatched only on the flag octet in the payload state",
              ["%s on %s" % (sname(rx.names, s3), hx(K.flag))], where)


def r4_index_bounds(L, tu, tag):
    R = "C06.R4"
    own = own_functions(tu)
    # (c) index bounds
    count = {}

    def within(root):
        """Subscripts examined in `root` and the functions of sercomm.c it calls (a lookup / scan may stand in
        a helper): the floors are anchored on the functions the property names, not on how many subscript
        expressions the file happens to contain."""
        seen, work = set(), [root]
        while work:
            f = work.pop()
            if f in seen or f not in own:
                continue
            seen.add(f)
            for c in walk(tu.body(own[f])):
                if kind(c) == "CallExpr" and kids(c):
                    cal = strip(kids(c)[0], casts=True)
                    if kind(cal) == "DeclRefExpr":
                        work.append(cal.get("referencedDecl", {}).get("name"))
        return {b: sum(count.get((f, b), 0) for f in seen) for b in (HANDLERS, QUEUES)}

    graphs = {}

    def graph(fname):
        if fname not in graphs:
            graphs[fname] = CCFG(tu, own[fname])
        return graphs[fname]

    def bound_here(fname, e):
        """Exclusive upper bound of the expression e where it is evaluated in fname(), from the branch literals."""
        node = graph(fname).node_of(e)
        lits = set(graph(fname).guard_lits(node))
        if node.kind == "cond" and node.cond is not None:
            lits |= context_lits(tu, node.cond, e)
        return index_bound(lits, ctext(e))

    def caller_bounds(fname, idx, depth=0):
        """The index is a parameter of a helper split out of the anchored functions (static, not at the pinned
        commit) that the helper itself neither tests nor changes: its range is what the call sites pass.
        -> [(caller, argument text, bound | None, line)] over every call site, or None when this does not apply."""
        fd = own[fname]
        ps = [q.get("name") for q in tu.fparams(fd)]
        ix = strip(idx, casts=True)
        if fname in BASELINE_FNS or fd.get("storageClass") != "static" or kind(ix) != "DeclRefExpr" \
                or ix.get("referencedDecl", {}).get("kind") != "ParmVarDecl" or ctext(ix) not in ps or depth >= MAX_HELPER_DEPTH:
            return None
        pname = ctext(ix)
        for n in walk(tu.body(fd)):
            if kind(n) == "UnaryOperator" and n.get("opcode") == "&" and ctext(kids(n)[0]) == pname:
                return None
        if any(e[0] in ("store", "compound", "incdec") and ctext(e[1]) == pname for e in effects(tu.body(fd))):
            return None
        out, refs, ncalls = [], 0, 0
        for cname, cfd in sorted(own.items()):
            for n in walk(tu.body(cfd)):
                if kind(n) == "DeclRefExpr" and n.get("referencedDecl", {}).get("name") == fname:
                    refs += 1
                if kind(n) != "CallExpr" or not kids(n):
                    continue
                cal = strip(kids(n)[0], casts=True)
                if kind(cal) != "DeclRefExpr" or cal.get("referencedDecl", {}).get("name") != fname:
                    continue
                ncalls += 1
                args = call_args(n)
                if len(args) != len(ps):
                    raise AnalysisError("%s(): call of %s() does not match its definition" % (cname, fname))
                arg = args[ps.index(pname)]
                cv = tu.fold(arg)
                if cv is not None:
                    out.append((cname, ctext(arg), cv + 1 if cv >= 0 else None, tu.line(n)))
                    continue
                inner = strip(arg, casts=True)
                if kind(inner) not in ("DeclRefExpr", "MemberExpr") or not is_unsigned(inner):
                    raise AnalysisError("%s(): argument `%s` of %s() is used there as an array index; it is not a plain "
                                        "unsigned variable -- unclassifiable" % (cname, ctext(arg), fname))
                b = bound_here(cname, inner)
                if b is None:
                    up = caller_bounds(cname, inner, depth + 1)
                    if up is not None:
                        out += up
                        continue
                out.append((cname, ctext(inner), b, tu.line(n)))
        if refs != ncalls:
            return None             # the helper's address is taken: not every caller is visible
        return out

    for name, fn in sorted(own.items()):
        g = None
        pn = [p.get("name") for p in tu.fparams(fn)]
        for base in (HANDLERS, QUEUES):
            for sub in subscripts(tu, fn, base):
                count[(name, base)] = count.get((name, base), 0) + 1
                idx = kids(sub)[1]
                it = ctext(idx)
                ext = array_extent(strip(kids(sub)[0]).get("type", {}).get("qualType"))
                if ext is None:
                    raise AnalysisError("%s(): extent of %s unknown" % (name, base))
                if base == QUEUES and it in pn and name in ("sercomm_sendmsg", "sercomm_tx_queue_depth"):
                    continue       # caller-supplied DLCI: sercomm_sendmsg call sites are C06.R5
                cv = tu.fold(idx)
                if cv is not None:
                    L.ob(R, F, name, "constant index `%s` into %s[] lies inside the array" % (it, base.split(".")[-1]),
                         "0 <= %s < %d" % (it, ext), cv, 0 <= cv < ext, tu.line(sub))
                    continue
                if not is_unsigned(idx):
                    raise AnalysisError("%s(): signed index `%s` into %s -- unclassifiable" % (name, it, base))
                g = g or CCFG(tu, fn)
                node = g.node_of(sub)
                lits = set(g.guard_lits(node))
                if node.kind == "cond" and node.cond is not None:
                    lits |= context_lits(tu, node.cond, sub)
                b = index_bound(lits, it)
                sites = caller_bounds(name, idx) if b is None else None
                if sites is not None:
                    # a helper that is never called contributes no behaviour
                    for (cname, atxt, cb, ln) in sites:
                        L.ob(R, F, cname, "argument `%s` of %s(), used there as index into %s[], is below the array extent" % (
                            atxt, name, base.split(".")[-1]), "%s < %d on every path to the call" % (atxt, ext),
                            "%s < %s" % (atxt, cb) if cb is not None else "no upper bound", cb is not None and cb <= ext, ln)
                    continue
                if b is None and kind(strip(idx, casts=True)) not in ("DeclRefExpr", "MemberExpr"):
                    # arithmetic on the counter (`i - 1`, `n - i`): its range is not decided by matching guard literals
                    raise AnalysisError("%s(): index expression `%s` into %s is not a plain variable and no guard bounds it "
                                        "directly -- unclassifiable" % (name, it, base))
                L.ob(R, F, name, "index `%s` into %s[] is used only below the array extent" % (it, base.split(".")[-1]),
                     "%s < %d on every path" % (it, ext), "%s < %s" % (it, b) if b is not None else "no upper bound",
                     b is not None and b <= ext, tu.line(sub))
    for (root, base) in (("dispatch_rx_msg", HANDLERS), ("sercomm_register_rx_cb", HANDLERS),
                         ("sercomm_sendmsg", QUEUES), (TX_FN, QUEUES)):
        L.floor(R, "%s[] subscripts examined in %s() and the functions it calls (%s build)" % (
            base.split(".")[-1], root, tag), within(root)[base], 1)
    exts = set()
    for name, fn in own.items():
        for base in (HANDLERS, QUEUES):
            for sub in subscripts(tu, fn, base):
                exts.add((base.split(".")[-1], array_extent(strip(kids(sub)[0]).get("type", {}).get("qualType"))))
    L.ob(R, F, "sercomm", "dlci_handler[] and dlci_queues[] have the same extent (a DLCI accepted by dispatch_rx_msg is a "
         "valid queue index)", "equal extents", sorted(exts), len({e for (_, e) in exts}) == 1)
    # register
    fn = tu.func("sercomm_register_rx_cb")
    L.fn(F, "sercomm_register_rx_cb")
    pn = [p.get("name") for p in tu.fparams(fn)]
    st = [(ctext(kids(e[1])[1]), ctext(e[2])) for e in effects(tu.body(fn))
          if e[0] == "store" and kind(e[1]) == "ArraySubscriptExpr" and ctext(kids(e[1])[0]) == HANDLERS]
    L.require(R, F, "sercomm_register_rx_cb", "the callback is registered under its own DLCI", [(pn[0], pn[1])], st)


def handler_index(name):
    """Index text of a call event recorded under `sercomm.rx.dlci_handler[<index>]`, else None."""
    pre = HANDLERS + "["
    if not name.startswith(pre) or not name.endswith("]"):
        return None
    idx, depth = name[len(pre):-1], 0
    for c in idx:
        depth += {"[": 1, "]": -1}.get(c, 0)
        if depth < 0:
            return None            # `table[a].x[b]`: not a plain element of the table
    return idx if depth == 0 else None


def r4_dispatch(L, tu, tag):
    """C06.R4 (dispatch).  Decided on the walked paths of dispatch_rx_msg()
    (helpers followed), not on where the call is written: a call is a
    handler invocation when its callee RESOLVES to an element of
    sercomm.rx.dlci_handler[] -- written in place, or read into a local /
    returned by a followed helper first.  Every such call must take the
    element of the DLCI parameter and pass (dlci, msg) on as received, and no
    path makes more than one."""
    R = "C06.R4"
    name = "dispatch_rx_msg"
    fn = tu.func(name)
    L.fn(F, name)
    pn = [p.get("name") for p in tu.fparams(fn)]
    if len(pn) != 2:
        raise AnalysisError("%s(): signature changed" % name)
    stp = Step(tu, name, "<no octet>", "<no state>")
    tbl = HANDLERS.split(".")[-1]
    found, most, invoking, line = set(), 0, 0, None
    for p in stp.paths(0, 0):
        calls = []
        for e in p.events:
            if e[0] in ("loopcut", "loopexit"):
                raise AnalysisError("%s(): loop -- the number of handler invocations is unclassifiable" % name)
            if e[0] in ("store", "compound") and (e[1] in pn or ident_count(e[1], tbl)):
                # the values received / the handler table change under the dispatcher's feet: what a later (or an
                # already resolved) handler call sees is not decided by comparing expressions
                raise AnalysisError("%s(): `%s` is written inside the dispatcher -- unclassifiable" % (name, e[1]))
            if e[0] != "call":
                continue
            idx = handler_index(e[1])
            if idx is None:
                if ident_count(e[1], tbl):
                    raise AnalysisError("%s(): call through `%s` -- not a plain element of the handler table, "
                                        "unclassifiable" % (name, e[1]))
                continue
            args = [t[1] if t[0] == "expr" else str(t[1]) if t[0] == "const" else txt for (t, txt) in zip(e[3], e[2])]
            calls.append((idx, tuple(args)))
            line = line or e[5]
        most = max(most, len(calls))
        invoking += 1 if calls else 0
        found |= set(calls)
    L.floor(R, "paths of %s() that invoke a DLCI handler (%s build)" % (name, tag), invoking, 1)
    desc = [(i, list(a)) for (i, a) in sorted(found)]
    if most > 1:
        desc = ["%d handler invocations on one path" % most] + desc
    L.require(R, F, name, "the handler registered for the DLCI is invoked once with (dlci, msg) unchanged",
              [(pn[0], pn)], desc, line=line)


def r4_queue_scan(L, tu, tx, tag="", histories_held=False):
    """Lower DLCI first: decided on the walked paths of the idle part of
    sercomm_drv_pull, not on where the tests are written.  The k-th
    execution of the dequeue is followed under both outcomes (NULL / a
    message); the first iteration has the counter as a constant, the second
    one (counter opaque after the increment) stands for every later one.
    The scan may be written in sercomm_drv_pull itself or in a helper it
    calls: the walked paths of the pull step run through followed helpers,
    so the same questions are asked of the same paths either way.

    Where the scan starts: `lower DLCI numbers first` needs the scan to begin at an index s below which every
    queue is empty - 0 is such an index whatever the history.  A start index that is not a constant (a
    remembered 'first possibly busy queue') is right exactly when the code that maintains it keeps that
    invariant over every sendmsg / pull interleaving: that is a property of the histories, decided by
    evaluating them (C06.R14: wire order at every opening flag, with histories that queue below and above the
    remembered index).  With `histories_held` (every R14 history of this build evaluated and in order) the
    non-constant start is an 'open' structural record; without it there is no verdict here (and R14 has
    reported the history that goes wrong)."""
    R = "C06.R4"
    step = tx.step
    # the dequeue: in the step function or in a helper whose statements the step follows
    sites = [(TX_FN, tx.g, c) for c in calls_to(tu.func(TX_FN), "msgb_dequeue")]
    for h in step.reachable_helpers():
        sites += [(h, None, c) for c in calls_to(step.helpers()[h], "msgb_dequeue")]
    L.require(R, F, TX_FN, "msgb_dequeue call sites", 1, len(sites))
    if len(sites) != 1:
        return
    SCAN_FN, g, c = sites[0]
    if g is None:
        g = step.graph_of(SCAN_FN)
        L.fn(F, SCAN_FN)
        followed = step.reachable_helpers()
        others = sorted(n for n, fn in own_functions(tu).items()
                        if n != TX_FN and n not in followed and calls_to(fn, SCAN_FN))
        if others:
            raise AnalysisError("%s() dequeues transmit messages and is also called from %s, outside the analysed pull step "
                                "-- unclassifiable" % (SCAN_FN, others))
    a = strip(call_args(c)[0], casts=True)
    sub = strip(kids(a)[0]) if kind(a) == "UnaryOperator" and a.get("opcode") == "&" else None
    if sub is None or kind(sub) != "ArraySubscriptExpr" or ctext(kids(sub)[0]) != QUEUES:
        raise AnalysisError("%s(): msgb_dequeue argument `%s` unclassifiable" % (TX_FN, ctext(a)))
    ivn = strip(kids(sub)[1], casts=True)
    iv, ivid = ctext(ivn), ref_id(ivn)
    if ivid is None or ivn.get("referencedDecl", {}).get("kind") != "VarDecl" or ivid in tu_globals(tu):
        raise AnalysisError("%s(): queue index `%s` is not a local counter -- unclassifiable" % (SCAN_FN, iv))
    ext = array_extent(strip(kids(sub)[0]).get("type", {}).get("qualType"))
    D = g.node_of(c)
    line = tu.line(c)
    par = tu.parent.get(id(c))
    while par is not None and kind(par) in ("ImplicitCastExpr", "ParenExpr", "CStyleCastExpr"):
        par = tu.parent.get(id(par))
    # where the result goes first: the message in progress itself, or a local that is handed on
    dst, dst_local = None, False
    if kind(par) == "BinaryOperator" and par.get("opcode") == "=":
        lhs = strip(kids(par)[0])
        dst = ctext(lhs)
        dst_local = kind(lhs) == "DeclRefExpr" and lhs.get("referencedDecl", {}).get("kind") == "VarDecl" \
            and ref_id(lhs) not in tu_globals(tu)
    elif kind(par) == "VarDecl" and par.get("id") not in tu_globals(tu) and par.get("storageClass") != "static":
        dst, dst_local = par.get("name"), True
    if D.kind != "stmt" or not (dst == TXM or dst_local):
        raise AnalysisError("%s(): the result of msgb_dequeue goes to `%s`, neither to %s nor to a local -- unclassifiable"
                            % (SCAN_FN, dst, TXM))
    DQ_TERM = ("call", "msgb_dequeue", ctext(c))

    def walk_scan(outcomes, idle=True):
        def before(node, st, n):
            if node is D:
                if n > len(outcomes):
                    st.events.append(("again", n))
                    return "stop"
                st.events.append(("at", n, st.env.get(ivid)))

        def after(node, st, n):
            if node is D:
                st.assume[dst] = outcomes[n - 1]
                st.events.append(("got", n, outcomes[n - 1]))
        return step.paths(0, 0x41, assume={TXM: not idle}, max_visits=len(outcomes) + 2, before=before, after=after)

    def segment(p, k):
        """events after the k-th dequeue"""
        for i, e in enumerate(p.events):
            if e[0] == "got" and e[1] == k:
                return p.events[i + 1:]
        return None

    def fork_lits(evs):
        out = set()
        for e in evs:
            if e[0] == "fork":
                out |= set(e[3])
        return out

    def counter_writes(evs):
        out = []
        for e in evs:
            if e[0] == "compound" and e[1] == iv:
                out.append((e[2], e[3][1] if e[3][0] == "const" else None))
            elif e[0] == "local" and e[1] == iv:
                out.append(("=", e[2][1] if e[2][0] == "const" else ctext_term(e[2])))
        return out

    EMPTY = "llist_empty(&%s[%s])" % (QUEUES, iv)

    def truncated(evs):
        return any(e[0] in ("loopexit", "loopcut") for e in evs)

    def in_vocabulary(t):
        return t.startswith(iv + " < ") or t.endswith(" < " + iv) or t in (EMPTY, TXM, dst)

    def vocabulary(lits, where):
        """literals the scan may depend on: counter bound, emptiness of the
        queue under the counter, the message in progress"""
        bad = sorted(("" if pl else "!") + t for (t, pl) in lits if not in_vocabulary(t))
        if bad:
            raise AnalysisError("%s(): %s depends on %s -- unclassifiable" % (SCAN_FN, where, bad))

    # message in progress: no dequeue at all
    busy = [p for p in walk_scan([], idle=False) if any(e[0] == "again" for e in p.events)]
    L.ob(R, F, TX_FN, "a message is dequeued only when no message is in progress", "msgb_dequeue unreachable while %s is set" % TXM,
         "reachable" if busy else "unreachable", not busy, line)
    # start of the scan
    first, shortcuts, nidle, hints = set(), [], 0, set()
    for p in walk_scan([False]):
        at = [e for e in p.events if e[0] == "at" and e[1] == 1]
        if at:
            t = at[0][2]
            pre = p.events[:p.events.index(at[0])]
            skips = sum(1 for e in pre if e[0] == "fork" and (EMPTY, True) in e[3])
            cw = counter_writes(pre)
            if t is not None and t[0] == "const":
                first.add(t[1])
            elif skips and cw[:1] and cw[0][0] == "=" and isinstance(cw[0][1], int) and len(cw) == 1 + skips and \
                    all(w in (("++", 1), ("+=", 1)) for w in cw[1:]):
                first.add(cw[0][1])       # lower queues were skipped as empty, one increment each
            elif truncated(pre):
                continue
            else:
                first.add("not constant")
                hints.add("unknown" if t is None else ctext_term(t))
        elif not truncated(p.events):
            # no dequeue on this path: every queue was skipped as empty / the counter ran out ...
            forks = [e for e in p.events if e[0] == "fork" and len(e) > 3]
            other = [e for e in forks if any(not in_vocabulary(t) for (t, _) in e[3])]
            vocabulary({l for e in forks if e not in other for l in e[3]}, "an idle path without dequeue")
            if other:
                # ... or the verdict was taken on something else than the queues: C06.R9 decides whether that
                # something is zero exactly when every queue is empty
                shortcuts.append((p, other))
            nidle += 1
    if "not constant" in first:
        msg = "%s(): first queue index `%s` is not a constant -- unclassifiable" % (SCAN_FN, iv)
        if histories_held is not True:
            raise AnalysisError(msg)

        def start_not_proven():
            raise AnalysisError("scan starts at %s, not at a constant: that every queue below is empty then was decided "
                                "on the C06.R14 histories only" % sorted(hints))
        L.structural("C06.R4 start of the priority scan in %s [%s]" % (SCAN_FN, tag), start_not_proven)
        first.discard("not constant")
    if shortcuts:
        L.stage(r9_idle_summary, L, tu, tx, SCAN_FN, walk_scan, shortcuts, line)
    # after an empty queue (first and every later iteration)
    steps, early, overrun = set(), [], []
    for outcomes in ([False], [False, False]):
        k = len(outcomes)
        for p in walk_scan(outcomes):
            seg = segment(p, k)
            if seg is None:
                continue
            if truncated(seg):
                continue            # deeper unrolling: covered by the generic (second) iteration
            cw = counter_writes(seg)
            lits = fork_lits(seg)
            vocabulary(lits, "the scan after an empty queue")
            again = any(e[0] == "again" for e in seg)
            if again:
                # queues skipped as empty by llist_empty() advance the counter as well
                skips = sum(1 for e in seg if e[0] == "fork" and (EMPTY, True) in e[3])
                if skips and len(cw) == 1 + skips and all(w in (("++", 1), ("+=", 1)) for w in cw):
                    cw = cw[:1]
                steps.add(tuple(cw))
                continue
            # counter >= K on the way out: !(i < K) or (K-1 < i)
            bound = [int(t[len(iv) + 3:]) for (t, pl) in lits
                     if not pl and t.startswith(iv + " < ") and t[len(iv) + 3:].isdigit()]
            bound += [int(t[:-len(iv) - 3]) + 1 for (t, pl) in lits
                      if pl and t.endswith(" < " + iv) and t[:-len(iv) - 3].isdigit()]
            if bound:
                if max(bound) < ext:
                    early.append("scan ends when %s reaches %d" % (iv, max(bound)))
            else:
                early.append("scan ends after an empty queue%s" % (
                    " under %s" % sorted(("" if pl else "!") + t for t, pl in lits) if lits else " unconditionally"))
    good_step = {(("++", 1),), (("+=", 1),)}
    desc = sorted(str(list(x)) for x in steps)
    if steps and not steps <= good_step:
        down = all(len(x) == 1 and x[0][0] in ("--", "-=") for x in steps)
        if not down and not all(len(x) == 1 and x[0][0] in ("++", "--", "+=", "-=") and isinstance(x[0][1], int) for x in steps):
            raise AnalysisError("%s(): queue counter `%s` is updated by %s between two dequeues -- unclassifiable"
                                % (SCAN_FN, iv, desc))
    L.ob(R, F, TX_FN, "transmit queues are scanned in ascending DLCI order starting at queue 0 (lower DLCI first)",
         "first index 0; +1 after every empty queue", "first index %s; counter updates %s" % (sorted(first, key=str), desc),
         first <= {0} and bool(first or hints) and bool(steps) and steps <= good_step, line)
    L.require(R, F, TX_FN, "every queue is examined: without a message the scan ends only behind the last queue "
              "(index %d)" % (ext - 1), [], sorted(set(early)), line=line)
    # after a message was found (first and every later iteration)
    holders, nfound = set(), 0
    for outcomes in ([True], [False, True]):
        k = len(outcomes)
        for p in walk_scan(outcomes):
            seg = segment(p, k)
            if seg is None:
                continue
            if truncated(seg):
                continue
            nfound += 1
            if any(e[0] == "again" for e in seg):
                overrun.append("another queue is dequeued after a message was found")
                continue
            # where the message found ends up: the stores to the message in progress on the rest of the path
            # (none when the dequeue itself wrote it; exactly the dequeued value when it came through a local)
            st_ = [e[2] for e in seg if e[0] == "store" and e[1] == TXM]
            if dst == TXM:
                if st_:
                    overrun.append("%s overwritten after a message was found" % TXM)
                holders.add(TXM)
            elif not st_:
                holders.add("`%s` only (never stored to %s)" % (dst, TXM))
            elif any(t != DQ_TERM for t in st_):
                overrun.append("%s overwritten after a message was found" % TXM)
                holders.add(TXM)
            else:
                holders.add(TXM)
    if not nfound:
        raise AnalysisError("%s(): no complete path after a successful msgb_dequeue was walked -- unclassifiable" % SCAN_FN)
    L.require(R, F, TX_FN, "the dequeued message becomes the message in progress", TXM,
              TXM if holders == {TXM} else sorted(holders), line=line)
    L.require(R, F, TX_FN, "the scan stops at the first non-empty queue: nothing more is dequeued and the message found "
              "is kept (a queue is reached only after every lower one returned NULL)", [], sorted(set(overrun)), line=line)


# ------------------------------------------- C06.R9 idle verdict from a summary
#
# "Any sequence of messages queued for transmission ... is delivered ... exactly once each": a message that
# sits in a queue while sercomm_drv_pull() says "nothing to send" is not delivered (the drivers stop asking:
# osmocon drops the write callback, the firmware masks the THR interrupt).  The pull may say so without
# looking at the queues only when what it looks at instead is zero EXACTLY when every queue is empty.

_C_INT_BITS = {"char": (8, True), "signed char": (8, True), "unsigned char": (8, False), "short": (16, True),
               "unsigned short": (16, False), "int": (32, True), "unsigned int": (32, False),
               "long long": (64, True), "unsigned long long": (64, False)}


def int_type_bits(node, tukind):
    """(bits, signed) of the integer type of an expression in the build of this translation unit, None for
    anything else (typedefs are read through clang's desugared type)."""
    ty = node.get("type", {})
    qt = (ty.get("desugaredQualType") or ty.get("qualType") or "")
    qt = " ".join(w for w in qt.split() if w not in ("const", "volatile"))
    if qt in ("long", "unsigned long"):
        return (32 if tukind == "fw" else 64, qt == "long")
    return _C_INT_BITS.get(qt)


def pointer_bits(tukind):
    return 32 if tukind == "fw" else 64


def step_node(step, nid):
    for g in [step.g] + list(step._graphs.values()):
        for n in g.nodes:
            if n.id == nid:
                return n
    raise AnalysisError("%s(): CFG node of a recorded branch vanished" % step.fname)


def global_int_lvalues(tu, e):
    """Maximal member / variable lvalues of integer type rooted in a file-scope object that e reads."""
    glob = tu_globals(tu)
    out = {}
    for n in walk(e):
        if kind(n) not in ("MemberExpr", "DeclRefExpr"):
            continue
        par = tu.parent.get(id(n))
        while par is not None and kind(par) in ("ImplicitCastExpr", "ParenExpr"):
            par = tu.parent.get(id(par))
        if par is not None and kind(par) == "MemberExpr":
            continue
        root = n
        while kind(root) == "MemberExpr" and not root.get("isArrow") and kids(root):
            root = strip(kids(root)[0])
        if kind(root) != "DeclRefExpr" or ref_id(root) not in glob:
            continue
        out[ctext(n)] = n
    return out


def r9_idle_summary(L, tu, tx, SCAN_FN, walk_scan, shortcuts, line):
    """C06.R9 -- decides, for the clause 'any sequence of messages queued for transmission ... is delivered
    ... exactly once each' over all interleavings of sendmsg and pull, the premise that sercomm_drv_pull()
    reports 'nothing to send' (returns 0 without a dequeue) only when every DLCI queue is empty.  A path
    that reaches that verdict after running the scan over all queues is R4's business.  A path that reaches
    it on a test of something else (a summary kept next to the queues) is accepted only when the summary is
    proven equivalent to 'all queues empty':
      * the summary is one integer object X of file scope; the test folds to a truth value for every value of X;
      * every write to X in sercomm.c is +1 / -1 (or the constant 0 in sercomm_init); X never has its address taken;
      * on every walked path of sercomm_sendmsg the number of +1 equals the number of enqueues on the DLCI
        queues, on every walked path of the pull the number of -1 equals the number of successful dequeues,
        nothing else changes X or the queues, and test and updates lie between sercomm_lock and sercomm_unlock;
    then X == (number of queued messages) modulo 2^width(X) at every test, and the verdict is evaluated on
    that: the smallest n >= 1 for which the test, given X = n wrapped to X's type, takes the idle path is a
    queue content (n messages, none in flight) that is reported idle and not delivered.  Such an n is a
    violation when n messages can exist at once - each is a distinct struct msgb holding two list pointers,
    so n * 2 * sizeof(void *) must fit the address space of the build (2^32 firmware, 2^64 host); a counter as
    wide as size_t / unsigned long therefore never qualifies, an 8-bit one gives n = 256.  An enqueue path
    that does not count (X stays 0 with one message queued) is the same violation with n = 1.  Any other
    departure from the discipline is not judged (ANALYSIS-ERROR)."""
    R = "C06.R9"
    step = tx.step
    tag = "firmware" if tu.kind == "fw" else "host"
    own = own_functions(tu)
    for (p, forks) in shortcuts:
        names, conds = {}, []
        for e in forks:
            node = step_node(step, e[1])
            c = node.cond
            line = tu.line(node.ast) if node.ast is not None else line
            conds.append((c, bool(e[2])))
            for t, n in global_int_lvalues(tu, c).items():
                if t != TXM:
                    names[t] = n
        bad = sorted(("" if pl else "!") + t for e in forks for (t, pl) in e[3])
        if len(names) != 1:
            raise AnalysisError("%s(): an idle path without dequeue depends on %s -- unclassifiable" % (SCAN_FN, bad))
        X, xn = list(names.items())[0]
        tb = int_type_bits(xn, tu.kind)
        if tb is None:
            raise AnalysisError("%s(): an idle path without dequeue depends on %s: `%s` is not a plain integer object "
                                "-- unclassifiable" % (SCAN_FN, bad, X))
        bits, signed = tb
        qt = xn.get("type", {}).get("qualType")

        def wrapx(n):
            n &= (1 << bits) - 1
            return n - (1 << bits) if (signed and n >= 1 << (bits - 1)) else n

        def idle_for(x):
            """does the path take the idle verdict when the summary reads x (no message in progress)?"""
            for c, lab in conds:
                r = fold_env(tu, c, {X: x, TXM: 0})
                if r is None:
                    raise AnalysisError("%s(): the test `%s` on the idle path is not a function of `%s` alone -- "
                                        "unclassifiable" % (SCAN_FN, ctext(c), X))
                if bool(r) != lab:
                    return False
            return True

        # ---- the discipline: who writes X, who changes the queues
        def counter_events(evs, who):
            """[(index, +1|-1)] of the updates of X among path events; anything else written to X is not judged"""
            out = []
            for i, e in enumerate(evs):
                if e[0] == "compound" and e[1] == X:
                    if e[2] in ("++", "+=") and e[3] == ("const", 1):
                        out.append((i, 1))
                    elif e[2] in ("--", "-=") and e[3] == ("const", 1):
                        out.append((i, -1))
                    else:
                        raise AnalysisError("%s(): `%s %s ...` is not a +1 / -1 update of the idle summary -- unclassifiable"
                                            % (who, X, e[2]))
                elif e[0] in ("store", "local", "setptr") and e[1] == X:
                    raise AnalysisError("%s(): `%s` is assigned, not counted -- unclassifiable" % (who, X))
            return out

        def locked_at(evs, idxs, who):
            held, at = False, {}
            for i, e in enumerate(evs):
                if e[0] == "call" and e[1] == "sercomm_lock":
                    held = True
                elif e[0] == "call" and e[1] == "sercomm_unlock":
                    held = False
                at[i] = held
            if not all(at.get(i) for i in idxs):
                raise AnalysisError("%s(): `%s` / the queues are used outside sercomm_lock .. sercomm_unlock -- the summary "
                                    "is not tied to the queue content" % (who, X))

        for n in walk(tu.ast):
            if kind(n) == "UnaryOperator" and n.get("opcode") == "&" and kids(n) and ctext(kids(n)[0]) == X:
                raise AnalysisError("the address of `%s` is taken (%s:%s) -- its writers are not visible" % (X, F, tu.line(n)))
        send_step = Step(tu, "sercomm_sendmsg", "<no octet>", "<no state>")
        covered = {TX_FN, "sercomm_sendmsg"} | set(step.reachable_helpers()) | set(send_step.reachable_helpers())
        for name, fn in sorted(own.items()):
            for e in effects(tu.body(fn)):
                if e[0] in ("store", "compound", "incdec") and ctext(e[1]) == X and name not in covered:
                    if name == "sercomm_init" and e[0] == "store" and tu.fold(e[2]) == 0:
                        continue
                    raise AnalysisError("%s() writes the idle summary `%s` outside the send / pull steps -- unclassifiable"
                                        % (name, X))
                if e[0] == "call" and e[1] in ("msgb_enqueue", "msgb_dequeue", "llist_add", "llist_add_tail", "llist_del") \
                        and any(QUEUES in ctext(a) for a in e[2]) and name not in covered:
                    raise AnalysisError("%s() changes %s outside the send / pull steps -- the idle summary `%s` cannot "
                                        "follow it" % (name, QUEUES, X))
        # ---- enqueue side
        uncounted, nsend = [], 0
        for sp in send_step.paths(0, 0x41):
            if any(e[0] in ("loopcut", "loopexit") for e in sp.events):
                raise AnalysisError("sercomm_sendmsg(): loop on the enqueue path -- unclassifiable")
            nsend += 1
            enq = [i for i, e in enumerate(sp.events) if e[0] == "call" and e[1] == "msgb_enqueue"
                   and e[2] and e[2][0].startswith("&" + QUEUES + "[")]
            cnt = counter_events(sp.events, "sercomm_sendmsg")
            net = sum(d for _, d in cnt)
            if net == len(enq):
                locked_at(sp.events, enq + [i for i, _ in cnt], "sercomm_sendmsg")
            elif net < len(enq) and all(d > 0 for _, d in cnt):
                uncounted.append("%d enqueue(s), %d increment(s) of `%s`" % (len(enq), net, X))
            else:
                raise AnalysisError("sercomm_sendmsg(): `%s` changes by %+d on a path with %d enqueue(s) -- unclassifiable"
                                    % (X, net, len(enq)))
        if not nsend:
            raise AnalysisError("sercomm_sendmsg(): no path walked")
        # ---- dequeue side: idle entry (scan) and message in progress
        npull = 0
        for outcomes in ([False], [True], [False, True], [False, False]):
            for pp in walk_scan(outcomes):
                if any(e[0] in ("loopcut",) for e in pp.events):
                    continue
                if any(e[0] == "again" and e[1] > len(outcomes) for e in pp.events):
                    continue            # stopped at a deeper iteration: covered by the generic one
                npull += 1
                got = [i for i, e in enumerate(pp.events) if e[0] == "got" and e[2]]
                cnt = counter_events(pp.events, SCAN_FN)
                if -sum(d for _, d in cnt) != len(got) or any(d > 0 for _, d in cnt):
                    raise AnalysisError("%s(): `%s` changes by %+d on a path with %d successful dequeue(s) -- unclassifiable"
                                        % (SCAN_FN, X, sum(d for _, d in cnt), len(got)))
                tests = [i for i, e in enumerate(pp.events) if e[0] == "fork" and len(e) > 3
                         and any(X in t for (t, _) in e[3])]
                locked_at(pp.events, got + tests + [i for i, _ in cnt], SCAN_FN)
        for paths in tx.tab.values():
            for bp in paths:
                if counter_events(bp.events, TX_FN):
                    raise AnalysisError("%s(): `%s` changes while a message is in progress -- unclassifiable" % (TX_FN, X))
        L.floor(R, "walked paths of the pull and of sercomm_sendmsg that touch the queues (%s build)" % tag, npull + nsend, 4)
        # ---- verdict on X == queued messages (mod 2^bits)
        key = ("the pull reports `nothing to send` without examining the queues on a test of `%s`: the test takes the "
               "idle path only when every DLCI queue is empty, for every number of queued messages (%s build)" % (X, tag))
        req = "no queue content with messages waiting reads as idle"
        if uncounted and idle_for(0):
            L.ob(R, F, "sercomm_sendmsg", key, req, "1 message queued, none in flight: sercomm_sendmsg() does not count it "
                 "(%s), `%s` still reads 0 and %s() returns 0 without dequeuing" % (uncounted[0], X, TX_FN), False, line)
            continue
        if uncounted:
            raise AnalysisError("sercomm_sendmsg(): %s -- unclassifiable" % uncounted[0])
        consts = {v for c, _ in conds for n in walk(c) for v in [tu.fold(n)] if v is not None and abs(v) < (1 << 70)}
        points = {1, 2}
        for k in consts | {1 << (bits - 1), 1 << bits}:
            points |= {k - 1, k, k + 1, k + (1 << bits) - 1, k + (1 << bits), k + (1 << bits) + 1}
        wit = next((n for n in sorted(points) if n >= 1 and idle_for(wrapx(n))), None)
        pb = pointer_bits(tu.kind)
        fit = (1 << pb) // (2 * pb // 8)        # struct msgb objects (>= two list pointers each) that can exist at once
        desc = "`%s` is %s (%d bit%s), +1 per enqueue, -1 per dequeue" % (X, qt, bits, ", signed" if signed else "")
        if wit is None or wit > fit:
            L.ob(R, F, TX_FN, key, req, "%s; first wrong idle verdict would need %s messages at once, more than the %d-bit "
                 "address space holds" % (desc, "2^%d" % bits if wit is None else wit, pb), True, line)
        else:
            L.ob(R, F, TX_FN, key, req, "%d message(s) queued, none in flight: %s, so it reads %d and %s() returns 0 "
                 "without dequeuing - the queued messages are not delivered" % (wit, desc, wrapx(wit), TX_FN), False, line)


def ctext_term(t):
    return t[1] if len(t) > 1 else t[0]


def tu_globals(tu):
    """Declaration ids of the file-scope variables."""
    return {d.get("id") for d in kids(tu.ast) if kind(d) == "VarDecl"}


def r4_msgb(L, tu):
    R = "C06.R4"
    # enqueue
    fn = tu.func("msgb_enqueue")
    L.fn(MSGB_C, "msgb_enqueue")
    pn = [p.get("name") for p in tu.fparams(fn)]
    calls = [(e[1], [ctext(a) for a in e[2]]) for e in effects(tu.body(fn)) if e[0] == "call"]
    L.require(R, MSGB_C, "msgb_enqueue", "a message is appended at the tail of the queue (FIFO per DLCI)",
              [("llist_add_tail", ["&%s->list" % pn[1], pn[0]])], calls)
    # dequeue
    fn = tu.func("msgb_dequeue")
    L.fn(MSGB_C, "msgb_dequeue")
    q = tu.fparams(fn)[0].get("name")
    g = CCFG(tu, fn)
    eff = effects(tu.body(fn))
    defs = {}
    for e in eff:
        if e[0] == "store" and ref_id(e[1]) is not None:
            defs.setdefault(ctext(e[1]), []).append(ctext(strip(e[2], casts=True)))
        elif e[0] == "decl" and e[2] is not None and e[1].get("name") != "__mptr":
            defs.setdefault(e[1].get("name"), []).append(ctext(strip(e[2], casts=True)))
    mp = [e for e in eff if e[0] == "decl" and e[1].get("name") == "__mptr" and e[2] is not None]
    if len(mp) != 1:
        raise AnalysisError("msgb_dequeue(): expected one llist_entry()/container_of expansion, found %d" % len(mp))
    ent = strip(mp[0][2], casts=True)
    et = ctext(ent)
    src = defs.get(et, [et]) if ref_id(ent) is not None else [et]
    L.require(R, MSGB_C, "msgb_dequeue", "the returned message is the entry right after the list head (oldest first)",
              ["%s->next" % q], src, line=tu.line(mp[0][1]))
    dels = [[ctext(a) for a in e[2]] for e in eff if e[0] == "call" and e[1] == "llist_del"]
    L.require(R, MSGB_C, "msgb_dequeue", "exactly the returned entry is unlinked from the queue", [[et]], dels)
    rets = []
    for n in g.nodes:
        if n.kind == "stmt" and n.ast is not None and kind(n.ast) == "ReturnStmt":
            v = tu.fold(kids(n.ast)[0]) if kids(n.ast) else None
            rets.append(("NULL" if v == 0 else "entry", sorted(("" if p else "!") + t for t, p in g.guard_lits(n))))
    L.require(R, MSGB_C, "msgb_dequeue", "NULL is returned exactly for an empty queue",
              [("NULL", ["llist_empty(%s)" % q]), ("entry", ["!llist_empty(%s)" % q])], sorted(rets))
    # list primitives used above
    L.unit(LLIST_H)
    for name, want in (("llist_add_tail", ("call", "__llist_add", ["{0}", "{1}->prev", "{1}"])),
                       ("llist_del", ("call", "__llist_del", ["{0}->prev", "{0}->next"])),
                       ("llist_empty", ("ret", "({0}->next == {0})"))):
        fn = tu.func(name)
        L.fn(LLIST_H, name)
        pn = [p.get("name") for p in tu.fparams(fn)]
        eff = effects(tu.body(fn))
        if want[0] == "call":
            found = [(e[1], [ctext(a) for a in e[2]]) for e in eff if e[0] == "call"][:1]
            L.require(R, LLIST_H, name, "%s() links/unlinks relative to the given entry" % name,
                      [(want[1], [w.format(*pn) for w in want[2]])], found)
        else:
            found = [ctext(e[1]) for e in eff if e[0] == "return"]
            L.require(R, LLIST_H, name, "llist_empty() is true iff the head points to itself", [want[1].format(*pn)], found)


# ---------------------------------------------- C06.R7 msgb pointer algebra

ABORT_FNS = ("osmo_panic", "abort", "__assert_fail")
ALLOC_FN = "_talloc_zero"
HELPER_FILES = {"msgb.c": MSGB_C, "msgb.h": MSGB_H, "sercomm.h": HDR, "sercomm.c": F}


class _Abort(Exception):
    """A call that does not return (osmo_panic) was reached on the evaluated path."""


def _sym(v):
    return isinstance(v, tuple) and len(v) == 3 and v[0] == "@"


def _vadd(a, b):
    if a is None or b is None:
        return None
    if isinstance(a, int) and isinstance(b, int):
        return a + b
    if _sym(a) and isinstance(b, int):
        return ("@", a[1], a[2] + b)
    if isinstance(a, int) and _sym(b):
        return ("@", b[1], b[2] + a)
    return None


def _vsub(a, b):
    if a is None or b is None:
        return None
    if isinstance(a, int) and isinstance(b, int):
        return a - b
    if _sym(a) and isinstance(b, int):
        return ("@", a[1], a[2] - b)
    if _sym(a) and _sym(b) and a[1] == b[1]:
        return a[2] - b[2]
    return None


def _vtruth(v):
    if isinstance(v, int):
        return v != 0
    if _sym(v):
        return True         # address of the buffer object / its data area, sizeof(struct msgb): never zero
    return None


def _vtext(v):
    if _sym(v):
        name = {"buf": "_data", "obj": "<msgb>", "S": "sizeof(struct msgb)"}.get(v[1], v[1])
        return name if v[2] == 0 else "%s%s%d" % (name, "+" if v[2] > 0 else "-", abs(v[2]))
    return "?" if v is None else str(v)


def _what(w):
    return ctext(w) if isinstance(w, dict) else w       # the text of a store, computed only for a message


class MsgbEval:
    """Evaluation of the msgb helpers on ONE concrete receive buffer: integers are Python integers (wrapped to
    the C type at integral casts and stores), an address is ('@', base, offset) with base 'obj' (the struct msgb
    that _talloc_zero() returned) or 'buf' (its member _data, the first octet behind the header);
    sizeof(struct msgb) is ('@', 'S', 0), so `sizeof(*msg) + n` is ('@', 'S', n).  Addresses add / subtract /
    compare like C pointers to octets.  Function calls are followed into every function whose body is in one of
    the translation units; _talloc_zero() creates the (single, zero-filled) buffer object; osmo_panic() ends the
    path (_Abort).  None = a value the evaluation does not know; a branch on it, a store through it or handing the
    buffer to a function without body is an AnalysisError - nothing is guessed."""

    MAX_DEPTH = 8

    def __init__(self, tus, max_steps=4000000):
        self.tus = tus
        self.obj = None            # field name -> value
        self.alloc = None          # size argument of the allocation
        self.stores = []           # addresses written through pointers into the data area
        self.followed = {}         # function name -> (tu, FunctionDecl)
        self.steps = 0
        self.max_steps = max_steps

    # -- functions
    def find(self, name):
        hit = self.followed.get(name)
        if hit is not None:
            return hit
        for tu in self.tus:
            f = tu.functions.get(name)
            if f is not None and any(kind(c) == "CompoundStmt" for c in kids(f)):
                self.followed[name] = (tu, f)
                return tu, f
        return None

    def call(self, name, args, depth=0):
        if name in ABORT_FNS:
            raise _Abort(name)
        if name == ALLOC_FN:
            if self.obj is not None:
                raise AnalysisError("msgb evaluation: a second %s() on the path -- unclassifiable" % ALLOC_FN)
            if len(args) < 2:
                raise AnalysisError("msgb evaluation: %s() signature changed" % ALLOC_FN)
            self.obj, self.alloc = {}, args[1]
            return ("@", "obj", 0)
        hit = self.find(name)
        if hit is None:
            if any(_sym(a) and a[1] in ("obj", "buf") for a in args):
                raise AnalysisError("msgb evaluation: the buffer is handed to %s(), whose body is not available" % name)
            return None
        if depth >= self.MAX_DEPTH:
            raise AnalysisError("msgb evaluation: call depth limit at %s()" % name)
        tu, f = hit
        params = tu.fparams(f)
        if len(params) != len(args):
            raise AnalysisError("msgb evaluation: %s() called with %d arguments" % (name, len(args)))
        env = {}
        for p, a in zip(params, args):
            env[p.get("id")] = self.wrap(a, p.get("type", {}).get("qualType", ""))
        r = self.run(tu, tu.body(f), env, depth)
        return r[1] if r is not None and r[0] == "ret" else None

    @staticmethod
    def wrap(v, qt):
        if isinstance(v, bool):
            v = int(v)
        return wrap_int(v, qt or "") if isinstance(v, int) else v

    def tick(self):
        self.steps += 1
        if self.steps > self.max_steps:
            raise AnalysisError("msgb evaluation: step limit")

    # -- lvalues
    def lv(self, tu, e, env, depth):
        e = strip(e)
        k = kind(e)
        if k == "DeclRefExpr":
            rd = e.get("referencedDecl", {})
            if rd.get("kind") in ("VarDecl", "ParmVarDecl"):
                return ("var", rd.get("id")) if rd.get("id") in env else ("glob", rd.get("name"))
            return ("unk",)
        if k == "MemberExpr":
            base = kids(e)[0]
            if e.get("isArrow"):
                bv = self.ev(tu, base, env, depth)
            else:
                sb = strip(base)
                if kind(sb) == "UnaryOperator" and sb.get("opcode") == "*":
                    bv = self.ev(tu, kids(sb)[0], env, depth)
                else:
                    inner = self.lv(tu, sb, env, depth)
                    if inner[0] == "field" and inner[1] != "_data":
                        # member of a (possibly anonymous) struct / union inside the header: its own cell of the object
                        return ("field", "%s.%s" % (inner[1], e.get("name")))
                    return ("glob", None) if inner[0] == "glob" else ("unk",)
            if bv == ("@", "obj", 0):
                return ("field", e.get("name"))
            if isinstance(bv, int) and bv == 0:
                raise AnalysisError("msgb evaluation: member access through a null pointer")
            return ("unk",)
        if k == "UnaryOperator" and e.get("opcode") == "*":
            pv = self.ev(tu, kids(e)[0], env, depth)
            return ("mem", pv) if _sym(pv) and pv[1] == "buf" else ("unk",)
        if k == "ArraySubscriptExpr":
            cell = self.member_cell(tu, e, env, depth)
            if cell is not None:
                return cell
            a, b = kids(e)
            pv = _vadd(self.ev(tu, a, env, depth), self.ev(tu, b, env, depth))
            return ("mem", pv) if _sym(pv) and pv[1] == "buf" else ("unk",)
        return ("unk",)

    def member_cell(self, tu, s, env, depth):
        """`m->arr[k]` with arr an ARRAY member of the message header other than the data area (the control buffer
        cb[] of struct msgb): a cell of the message object of its own, like a scalar member - it travels with the
        message through queues and is zero after the allocation.  None: `s` is not such an expression."""
        a, b = kids(s)
        sa = strip(a)
        if kind(sa) != "MemberExpr":
            return None
        ext = array_extent(sa.get("type", {}).get("qualType"))
        if ext is None:
            return None
        inner = self.lv(tu, sa, env, depth)
        if inner[0] != "field" or inner[1] == "_data":
            return None
        i = self.ev(tu, b, env, depth)
        if not isinstance(i, int):
            return ("unk",)
        if not 0 <= i < ext:
            raise AnalysisError("msgb evaluation: `%s` evaluated with index %d outside its extent %d" % (ctext(s), i, ext))
        return ("field", "%s[%d]" % (inner[1], i)) + tuple(inner[2:])

    def load(self, loc, env):
        if loc[0] == "var":
            return env.get(loc[1])
        if loc[0] == "field":
            if loc[1] == "_data":
                return None         # contents of the data area
            return self.obj.get(loc[1], 0)        # zero-filled by the allocation
        return None                  # globals, buffer contents: unknown

    def store(self, loc, v, qt, env, what):
        v = self.wrap(v, qt)
        if loc[0] == "var":
            env[loc[1]] = v
        elif loc[0] == "field":
            self.obj[loc[1]] = v
        elif loc[0] == "mem":
            self.stores.append(loc[1])
        elif loc[0] == "glob":
            pass
        else:
            raise AnalysisError("msgb evaluation: store through an address the evaluation cannot resolve: `%s`" % _what(what))

    # -- expressions
    def ev(self, tu, e, env, depth):
        self.tick()
        if e is None:
            return None
        k = kind(e)
        ks = kids(e)
        if k in ("ParenExpr", "ConstantExpr"):
            return self.ev(tu, ks[0], env, depth)
        if k in ("IntegerLiteral", "CharacterLiteral"):
            return int(e["value"])
        if k in ("ImplicitCastExpr", "CStyleCastExpr"):
            ck = e.get("castKind")
            if ck == "LValueToRValue":
                return self.load(self.lv(tu, ks[0], env, depth), env)
            if ck == "ArrayToPointerDecay":
                loc = self.lv(tu, ks[0], env, depth) if kind(strip(ks[0])) != "StringLiteral" else ("unk",)
                return ("@", "buf", 0) if loc == ("field", "_data") else None
            v = self.ev(tu, ks[0], env, depth)
            if ck in ("NoOp", "BitCast", "FunctionToPointerDecay"):
                return v
            if ck == "NullToPointer":
                return 0
            if ck == "IntegralCast":
                return self.wrap(v, e.get("type", {}).get("qualType", ""))
            if ck in ("PointerToBoolean", "IntegralToBoolean"):
                t = _vtruth(v)
                return None if t is None else int(t)
            if ck == "ToVoid":
                return None
            return None
        if k == "DeclRefExpr":
            rd = e.get("referencedDecl", {})
            if rd.get("kind") == "EnumConstantDecl":
                return tu.enums.get(rd.get("name"))
            if rd.get("kind") == "FunctionDecl":
                return ("fn", rd.get("name"))
            return self.load(self.lv(tu, e, env, depth), env)
        if k == "MemberExpr":
            return self.load(self.lv(tu, e, env, depth), env)
        if k == "UnaryExprOrTypeTraitExpr":
            if e.get("name") != "sizeof":
                return None
            v = tu.fold(e)
            if v is not None:
                return v
            t = (sizeof_operand_type(e) or "").replace("const ", "").strip()
            return ("@", "S", 0) if t == "struct msgb" else None
        if k == "UnaryOperator":
            op = e.get("opcode")
            if op in ("++", "--"):
                loc = self.lv(tu, ks[0], env, depth)
                old = self.load(loc, env)
                new = _vadd(old, 1 if op == "++" else -1)
                self.store(loc, new, e.get("type", {}).get("qualType", ""), env, e)
                return old if e.get("isPostfix") else self.load(loc, env)
            if op == "&":
                loc = self.lv(tu, ks[0], env, depth)
                if loc[0] == "mem":
                    return loc[1]
                if loc == ("field", "_data"):
                    return ("@", "buf", 0)
                return None
            if op == "*":
                return self.load(self.lv(tu, e, env, depth), env)
            v = self.ev(tu, ks[0], env, depth)
            if op == "!":
                t = _vtruth(v)
                return None if t is None else int(not t)
            if not isinstance(v, int):
                return None
            return {"-": -v, "+": v, "~": ~v}.get(op)
        if k == "BinaryOperator":
            op = e.get("opcode")
            if op == "=":
                v = self.ev(tu, ks[1], env, depth)
                loc = self.lv(tu, ks[0], env, depth)
                self.store(loc, v, e.get("type", {}).get("qualType", ""), env, e)
                return self.load(loc, env) if loc[0] in ("var", "field") else v
            if op in ("&&", "||"):
                a = _vtruth(self.ev(tu, ks[0], env, depth))
                if a is None:
                    return None
                if (op == "&&") != a:
                    return int(a)
                b = _vtruth(self.ev(tu, ks[1], env, depth))
                return None if b is None else int(b)
            a = self.ev(tu, ks[0], env, depth)
            b = self.ev(tu, ks[1], env, depth)
            if op == ",":
                return b
            return self.binop(op, a, b)
        if k == "CompoundAssignOperator":
            op = e.get("opcode")[:-1]
            rhs = self.ev(tu, ks[1], env, depth)
            loc = self.lv(tu, ks[0], env, depth)
            new = self.binop(op, self.load(loc, env), rhs)
            self.store(loc, new, e.get("type", {}).get("qualType", ""), env, e)
            return self.load(loc, env) if loc[0] in ("var", "field") else new
        if k == "ConditionalOperator":
            c = _vtruth(self.ev(tu, ks[0], env, depth))
            if c is None:
                raise AnalysisError("msgb evaluation: condition does not evaluate: `%s`" % ctext(ks[0]))
            return self.ev(tu, ks[1] if c else ks[2], env, depth)
        if k == "CallExpr":
            callee = strip(ks[0], casts=True)
            args = [self.ev(tu, a, env, depth) for a in ks[1:]]
            rd = callee.get("referencedDecl", {}) if kind(callee) == "DeclRefExpr" else {}
            if rd.get("kind") != "FunctionDecl":
                if any(_sym(a) and a[1] in ("obj", "buf") for a in args):
                    raise AnalysisError("msgb evaluation: the buffer is handed to an indirect call `%s`" % ctext(e))
                return None
            return self.call(rd.get("name"), args, depth + 1)
        if k == "ArraySubscriptExpr":
            return self.load(self.lv(tu, e, env, depth), env)
        return None

    @staticmethod
    def binop(op, a, b):
        if op == "+":
            return _vadd(a, b)
        if op == "-":
            return _vsub(a, b)
        if op in CMP:
            if _sym(a) and isinstance(b, int) and b == 0 and a[1] in ("obj", "buf"):
                a, b = 1, 0        # a valid address against NULL
            elif _sym(b) and isinstance(a, int) and a == 0 and b[1] in ("obj", "buf"):
                a, b = 0, 1
            elif _sym(a) and _sym(b) and a[1] == b[1]:
                a, b = a[2], b[2]
            if not (isinstance(a, int) and isinstance(b, int)):
                return None
            return int({"==": a == b, "!=": a != b, "<": a < b, ">": a > b, "<=": a <= b, ">=": a >= b}[op])
        if not (isinstance(a, int) and isinstance(b, int)):
            return None
        try:
            if op in ("/", "%"):
                if b == 0:
                    return None
                q = abs(a) // abs(b) * (1 if (a < 0) == (b < 0) else -1)
                return q if op == "/" else a - b * q
            return {"*": lambda: a * b, "<<": lambda: a << b, ">>": lambda: a >> b, "&": lambda: a & b,
                    "|": lambda: a | b, "^": lambda: a ^ b}[op]()
        except (KeyError, ValueError, OverflowError):
            return None

    # -- statements
    def cond(self, tu, c, env, depth):
        t = _vtruth(self.ev(tu, c, env, depth))
        if t is None:
            raise AnalysisError("msgb evaluation: condition does not evaluate: `%s`" % ctext(c))
        return t

    def run(self, tu, st, env, depth):
        """None | ('ret', value) | ('break',) | ('continue',)"""
        self.tick()
        if not st:
            return None
        k = kind(st)
        if k == "CompoundStmt":
            for x in kids(st):
                r = self.run(tu, x, env, depth)
                if r is not None:
                    return r
            return None
        if k == "DeclStmt":
            for d in kids(st):
                if kind(d) == "VarDecl":
                    init = [c for c in kids(d) if "Attr" not in (kind(c) or "")] if d.get("init") else []
                    v = self.ev(tu, init[-1], env, depth) if init else None
                    env[d.get("id")] = self.wrap(v, d.get("type", {}).get("qualType", ""))
            return None
        if k == "IfStmt":
            inner = kids(st)
            if len(inner) not in (2, 3):
                raise AnalysisError("msgb evaluation: if statement with an unexpected shape")
            if self.cond(tu, inner[0], env, depth):
                return self.run(tu, inner[1], env, depth)
            return self.run(tu, inner[2], env, depth) if len(inner) == 3 else None
        if k == "ReturnStmt":
            ks = kids(st)
            return ("ret", self.ev(tu, ks[0], env, depth) if ks else None)
        if k in ("NullStmt",):
            return None
        if k == "BreakStmt":
            return ("break",)
        if k == "ContinueStmt":
            return ("continue",)
        if k in ("DoStmt", "WhileStmt"):
            raw = st.get("inner", [])
            body, c = (raw[0], raw[1]) if k == "DoStmt" else (raw[-1], raw[-2])
            first = k == "DoStmt"
            while True:
                if not first and not self.cond(tu, c, env, depth):
                    return None
                first = False
                r = self.run(tu, body, env, depth)
                if r == ("break",):
                    return None
                if r is not None and r != ("continue",):
                    return r
        if k == "ForStmt":
            raw = st.get("inner", [])
            if len(raw) != 5:
                raise AnalysisError("msgb evaluation: for statement with an unexpected shape")
            init, _, c, inc, body = raw
            if init:
                self.run(tu, init, env, depth)
            while True:
                if c and not self.cond(tu, c, env, depth):
                    return None
                r = self.run(tu, body, env, depth)
                if r == ("break",):
                    return None
                if r is not None and r != ("continue",):
                    return r
                if inc:
                    self.ev(tu, inc, env, depth)
        if k in ("SwitchStmt", "GotoStmt", "LabelStmt", "CaseStmt", "DefaultStmt", "GCCAsmStmt"):
            raise AnalysisError("msgb evaluation: %s in a msgb helper -- unclassifiable" % k)
        self.ev(tu, st, env, depth)       # expression statement
        return None


def load_msgb_tu(L):
    return TU(L.repo, "libosmo", "src/msgb.c", L=L)


def helper_file(ev, name):
    """Repository path of the file a followed function is defined in."""
    hit = ev.followed.get(name)
    base = os.path.basename((hit[1].get("_file") or "") if hit else "")
    return HELPER_FILES.get(base, MSGB_H)


def fresh_buffer(tu, mtu, size):
    """(evaluator, buffer address, octets allocated behind the header) after sercomm_alloc_msgb(size)."""
    ev = MsgbEval((tu, mtu))
    try:
        m = ev.call("sercomm_alloc_msgb", [size])
    except _Abort as e:
        raise AnalysisError("sercomm_alloc_msgb(%d) ends in %s() -- unclassifiable" % (size, e))
    if m != ("@", "obj", 0) or ev.obj is None:
        raise AnalysisError("sercomm_alloc_msgb(%d): the evaluation does not arrive at a buffer obtained from %s()" % (size, ALLOC_FN))
    if not (_sym(ev.alloc) and ev.alloc[1] == "S"):
        raise AnalysisError("msgb_alloc(): the block size `%s` is not sizeof(struct msgb) + n -- unclassifiable" % _vtext(ev.alloc))
    return ev, m, ev.alloc[2]


def r7_msgb_algebra(L, tu, mtu, tag, size):
    """C06.R7 - the capacity oracle.  C06.R1 proves that sercomm_drv_rx_char() appends one octet with
    msgb_put(rx.msg, 1) only after msgb_tailroom(rx.msg) reported room and otherwise throws the frame away; that
    is memory safe only if the msgb helpers mean what R1 takes them to mean.  Decides the clauses `an over-long
    frame is discarded without corrupting memory` and `every payload shorter than the receive buffer is delivered
    intact` for the helpers themselves, by evaluating their bodies (whatever they are written like: followed
    calls, temporaries, any spelling of the pointer arithmetic) on the receive buffer of this build for EVERY
    fill level: buffer := sercomm_alloc_msgb(SERCOMM_RX_MSG_SIZE) [msgb_alloc_headroom -> msgb_alloc ->
    _talloc_zero(sizeof(struct msgb) + n), msgb_reserve]; then, as the receiver does per payload octet,
    `if msgb_tailroom(buffer) < 1: discard  else: p = msgb_put(buffer, 1); *p = octet`.  Observed (never the
    way a helper is written): (a) every address p lies inside the n octets allocated behind the header;
    (b) the frame is cut off (tailroom 0) by the receiver's test, not by msgb_put()'s panic, and not before
    min(SERCOMM_RX_MSG_SIZE, real room of the fresh buffer) octets are stored (a buffer that is really too small
    is the capacity obligation of C06.R1); (c) the k-th octet lands at data + k, and data / tail / len describe exactly the octets
    appended - what the handler of the DLCI reads."""
    R = "C06.R7"
    L.unit(MSGB_H)
    fields = tu.record_fields("msgb")
    if not fields:
        raise AnalysisError("struct msgb has no members")
    last = fields[-1]
    tq = (last[1] or "").replace("const ", "")
    L.ob(R, MSGB_H, "struct msgb", "the data area `_data` is the last member of struct msgb and an octet array without extent of its "
         "own: it starts where the header ends, so a block of sizeof(struct msgb) + n octets has n octets of data area",
         "_data: octet array [0] / [] as last member", "%s: %s" % last,
         last[0] == "_data" and tq.split("[")[0].strip() in OCTET_TYPES and tq.endswith(("[0]", "[]")))
    ev, m, extent = fresh_buffer(tu, mtu, size)
    for need in ("msgb_tailroom", "msgb_put"):
        if ev.find(need) is None:
            raise AnalysisError("anchor function %s() vanished" % need)

    def off(v):
        return v[2] if _sym(v) and v[1] == "buf" else None

    def state():
        o = ev.obj
        return "head=%s data=%s tail=%s data_len=%s len=%s" % tuple(_vtext(o.get(f, 0)) for f in ("head", "data", "tail", "data_len", "len"))

    def real_room():
        t = off(ev.obj.get("tail", 0))
        return None if t is None else extent - t

    def oracle_blame(t):
        """which helper made the reported room differ from the real one (for the message only)"""
        o = ev.obj
        ref = _vsub(_vadd(o.get("head", 0), o.get("data_len", 0)), o.get("tail", 0))
        if ref == real_room() and t != ref:
            return "msgb_tailroom"
        if o.get("head", 0) != ("@", "buf", 0) or o.get("data_len", 0) != extent:
            return "msgb_alloc"
        if o.get("data", 0) == ("@", "buf", 0) or off(o.get("tail", 0)) is None:
            return "msgb_reserve"
        return "msgb_tailroom"

    data0, tail0 = ev.obj.get("data", 0), ev.obj.get("tail", 0)
    room0 = real_room()
    safety = integrity = None      # (function, found text)
    end = None                     # ('discard' | 'abort', fill level, reported room)
    k = 0
    limit = max(extent, size) + 64
    while k < limit:
        try:
            t = ev.call("msgb_tailroom", [m])
        except _Abort as e:
            raise AnalysisError("msgb_tailroom() ends in %s() at fill level %d -- unclassifiable" % (e, k))
        if not isinstance(t, int):
            raise AnalysisError("msgb_tailroom() does not evaluate to an integer at fill level %d (%s)" % (k, state()))
        if t < 1:
            end = ("discard", k, t)
            break
        room = real_room()
        before = state()
        nst = len(ev.stores)
        try:
            p = ev.call("msgb_put", [m, 1])
        except _Abort:
            end = ("abort", k, t)
            break
        po = off(p)
        if po is None:
            raise AnalysisError("msgb_put() returns `%s`, which the evaluation cannot place in the buffer (fill level %d)" % (_vtext(p), k))
        bad = [a for a in ev.stores[nst:] + [p] if off(a) is None or not 0 <= off(a) < extent]
        if bad:
            blame = oracle_blame(t) if room is not None and t != room else "msgb_put"
            safety = (blame, "payload octet #%d is stored at %s, the data area allocated by msgb_alloc() is _data[0..%d]; "
                      "msgb_tailroom() reported %d, real room %s (%s)" % (k + 1, _vtext(bad[0]), extent - 1, t,
                                                                          "?" if room is None else room, before))
            break
        o = ev.obj
        if (p != _vadd(data0, k) or o.get("data", 0) != data0 or o.get("tail", 0) != _vadd(data0, k + 1)
                or o.get("len", 0) != k + 1):
            blame = "msgb_put" if k > 0 or tail0 == data0 else "msgb_reserve"
            integrity = (blame, "payload octet #%d stored at %s; before: %s, afterwards: %s" % (k + 1, _vtext(p), before, state()))
            break
        k += 1
    else:
        raise AnalysisError("msgb evaluation: no end of the frame after %d octets -- unclassifiable" % limit)

    def fline(name):
        hit = ev.followed.get(name)
        return hit[0].line(hit[1]) if hit else None

    def ffile(name):
        return helper_file(ev, name)

    for name in sorted(ev.followed):
        L.fn(ffile(name), name)
    f1 = safety[0] if safety else "msgb_tailroom"
    L.ob(R, ffile(f1), f1, "receive buffer (%s build, %d): an octet appended after msgb_tailroom() reported room is stored inside "
         "the allocated data area, at every fill level (over-long frame discarded without corrupting memory)" % (tag, size),
         "every store inside _data[0..n-1]", safety[1] if safety else "every store inside _data[0..n-1]", safety is None,
         fline(f1))
    f3 = integrity[0] if integrity else "msgb_put"
    L.ob(R, ffile(f3), f3, "receive buffer (%s build, %d): the k-th appended octet lands at data + k and data / tail / len "
         "describe exactly the appended octets (the handler gets the payload received)" % (tag, size), "p == data + k; tail == data + len; len == octets appended",
         integrity[1] if integrity else "p == data + k; tail == data + len; len == octets appended", integrity is None, fline(f3))
    if end is not None:
        kind_, k0, t = end
        # a buffer that is really too small for `size` octets is the capacity obligation of C06.R1, not a fault of the oracle
        want = size if room0 is None else min(size, room0)
        ok = kind_ == "discard" and k0 >= want
        if ok and t < 0:
            # C06.R1 reads `msgb_tailroom() == 0` as `no room` on the premise that the oracle is never negative
            raise AnalysisError("msgb_tailroom() is negative (%d) at fill level %d of the receive buffer (%s build): the tailroom "
                                "tests of C06.R1 are not comparable with it -- unclassifiable" % (t, k0, tag))
        if ok:
            found = "cut off by the tailroom test at fill level >= %d" % want
            f2 = "msgb_tailroom"
        elif kind_ == "abort":
            f2 = "msgb_put"
            found = "msgb_put() panics at fill level %d although msgb_tailroom() reported %d (%s)" % (k0, t, state())
        else:
            f2 = oracle_blame(t)
            found = "msgb_tailroom() reports %d at fill level %d, real room %s (%s)" % (t, k0, real_room(), state())
        L.ob(R, ffile(f2), f2, "receive buffer (%s build, %d): msgb_tailroom() reports room and msgb_put() does not panic while "
             "fewer than %d payload octets are stored (shorter payloads are delivered, longer ones cut off by the tailroom "
             "test)" % (tag, size, size),
             "cut off by the tailroom test at fill level >= %d" % want, found, ok, fline(f2))
    clean = safety is None and integrity is None and end is not None and end[0] == "discard" and end[1] >= min(size, room0 or 0)
    L.floor(R, "fill levels of the receive buffer evaluated (%s build)" % tag, k + 1, min(size, room0 or 0) + 1 if clean else 1)
    L.floor(R, "msgb helpers followed (%s build)" % tag, len(ev.followed), 3)


# ------------------------------------- C06.R10 the buffer an overflow leaves behind

def overflow_recipes(rx):
    """What every walked overflow path of the receive step (no-room side of the tailroom test taken) does to the
    receive buffer afterwards, as a sequence of operations: ('free',) ('null',) ('alloc', n) ('call', callee,
    args with 'buf' for the buffer).  -> {recipe: (text, line)}; paths C06.R1 already reports (something stored /
    dispatched, a field of the buffer written in place) are left to it."""
    out = {}
    for p in unique_paths(rx.tab):
        if Rx.room(p) is not False:
            continue
        over, ops, txt, line, last_alloc, r1 = False, [], [], None, None, False
        for e in p.events:
            if not over:
                over = no_room_fork(e)
                continue
            if e[0] == "call":
                name, at, tt = e[1], e[2], e[3]
                if name == RX_ALLOC_FN:
                    last_alloc = tt[0] if len(tt) == 1 else None
                    continue
                if RXM not in at:
                    if any(RXM in a for a in at):
                        r1 = True               # a member of the buffer is handed on: C06.R1 (who may touch the buffer)
                    continue
                if name == "msgb_tailroom":
                    continue
                line = line or e[5]
                if name == "msgb_free":
                    ops.append(("free",))
                    txt.append("msgb_free(%s)" % RXM)
                elif name in RX_BUFFER_CALLS:
                    r1 = True                   # msgb_put / dispatch on the overflow path: reported by C06.R1
                else:
                    args = []
                    for a, t in zip(at, tt):
                        if a == RXM:
                            args.append("buf")
                        elif t[0] == "const":
                            args.append(t[1])
                        else:
                            raise AnalysisError("%s(): overflow path hands the receive buffer to %s() with the non-constant "
                                                "argument `%s` -- unclassifiable" % (RX_FN, name, a))
                    ops.append(("call", name, tuple(args)))
                    txt.append("%s(%s)" % (name, ", ".join(str(a) for a in at)))
            elif e[0] == "store":
                if e[1] == RXM:
                    t = e[2]
                    line = line or e[4]
                    if t == ("const", 0):
                        ops.append(("null",))
                        txt.append("%s = NULL" % RXM)
                    elif t[0] == "call" and t[1] == RX_ALLOC_FN:
                        if last_alloc is None or last_alloc[0] != "const":
                            raise AnalysisError("%s(): overflow path allocates a receive buffer whose size is not a constant "
                                                "-- unclassifiable" % RX_FN)
                        ops.append(("alloc", last_alloc[1]))
                        txt.append("%s = %s(%d)" % (RXM, RX_ALLOC_FN, last_alloc[1]))
                    else:
                        raise AnalysisError("%s(): overflow path assigns `%s` to %s -- unclassifiable" % (
                            RX_FN, ctext_term(t), RXM))
                elif e[1].startswith(RXM) or (e[5] is not None and e[5][1][0] == "expr" and e[5][1][1].startswith(RXM)):
                    r1 = True                   # direct write into the buffer: C06.R1
            elif e[0] == "compound" and e[1].startswith(RXM):
                r1 = True
        if over and not r1:
            out.setdefault(tuple(ops), ("; ".join(txt) or "nothing", line))
    return out


def full_buffer(tu, mtu, size):
    """(evaluator, buffer, octets allocated, fill level): the receive buffer of this build filled the way the
    receiver fills it - one msgb_put(.., 1) while msgb_tailroom() reports room - up to the state in which the
    tailroom test of the receive step takes its no-room side."""
    ev, m, extent = fresh_buffer(tu, mtu, size)
    for need in ("msgb_tailroom", "msgb_put"):
        if ev.find(need) is None:
            raise AnalysisError("anchor function %s() vanished" % need)
    k, limit = 0, max(extent, size) + 64
    while True:
        try:
            t = ev.call("msgb_tailroom", [m])
            if not isinstance(t, int):
                raise AnalysisError("msgb_tailroom() does not evaluate to an integer at fill level %d" % k)
            if t < 1:
                return ev, m, extent, k
            ev.call("msgb_put", [m, 1])
        except _Abort as e:
            raise AnalysisError("filling the receive buffer ends in %s() at fill level %d (see C06.R7) -- unclassifiable" % (e, k))
        k += 1
        if k > limit:
            raise AnalysisError("msgb evaluation: the receive buffer never reports `no room` (see C06.R7) -- unclassifiable")


def r10_overflow_buffer(L, tu, mtu, tag, size, rx):
    """C06.R10 - the buffer an over-long frame leaves behind.  Decides, of the clause `an over-long frame is
    discarded without corrupting memory, costing at most the one frame that follows it before reception is back
    in sync`, the part that concerns the NEXT frames: after the overflow path the receive step is idle (C06.R1)
    and whatever that path left in rx.msg is the buffer the next frame is received in and handed to its DLCI
    handler with (C06.R4: dispatch with rx.msg; rx.msg is assigned only in the receive step and only allocated
    when it is NULL - checked below).  That buffer must therefore be as good as the one sercomm_alloc_msgb()
    returns, in the three respects the rest of the proof uses a fresh buffer for:
      (a) headroom: the handlers prepend in place - sercomm_sendmsg(), registered for the echo DLCI, pushes the
          address and control octet - so data - head (and what msgb_headroom() reports) >= that many octets, as
          C06.R1 demands of the fresh buffer; with less, msgb_push() panics or writes in front of the data area;
      (b) capacity: real room behind the write pointer >= SERCOMM_RX_MSG_SIZE and msgb_tailroom() reports at
          least that and no more than is there (every payload shorter than the receive buffer fits; the
          tailroom test of C06.R1 stays a sound bound);
      (c) empty: len == 0 and tail == data, else the octets of the discarded frame are delivered in front of the
          next frame's payload (or the buffer stays full and reception never gets back in sync).
    Nothing is matched on how the recycling is written: the overflow path's operations on the buffer (free,
    allocate, NULL, calls that take the buffer - msgb_reset, msgb_trim, msgb_reserve, own helpers are followed
    by the step interpreter) are replayed by evaluating the callee bodies (MsgbEval: msgb.h / msgb.c) on the
    FULL buffer of this build - the state in which the no-room side of the tailroom test is taken - and only the
    resulting head / data / tail / len and the reported head- and tailroom are observed.  rx.msg == NULL
    afterwards is fine (the next step allocates); a freed buffer kept in rx.msg is C06.R1's finding."""
    R = "C06.R10"
    need = pushed_header(tu)
    recipes = overflow_recipes(rx)
    L.floor(R, "distinct treatments of the receive buffer on the overflow paths (%s build)" % tag, len(recipes), 1)
    # premise: outside the overflow paths the buffer in rx.msg is replaced only when it is NULL or was handed on
    for p in unique_paths(rx.tab):
        if Rx.room(p) is False:
            continue
        known = False
        for e in p.events:
            if e[0] == "fork" and any(RXM in t and _TR not in t for (t, _) in e[3]):
                known = True                    # a NULL test of the buffer pointer was decided on this path
            elif e[0] == "call" and e[1] in ("msgb_free", "dispatch_rx_msg") and RXM in e[2]:
                known = True
            elif e[0] == "store" and e[1] == RXM and not known:
                if any(op[0] == "call" for r in recipes for op in r):
                    raise AnalysisError("%s(): %s is replaced on a path that neither tested it nor handed the buffer on; the "
                                        "buffer an overflow path recycles may never be used -- unclassifiable" % (RX_FN, RXM))
    full = None
    nlive = 0
    for recipe, (text, line) in sorted(recipes.items(), key=lambda x: x[1][0]):
        if full is None:
            full = full_buffer(tu, mtu, size)
            full_obj, nst0 = dict(full[0].obj), len(full[0].stores)
        ev, m, extent, level = full
        ev.obj = dict(full_obj)
        del ev.stores[nst0:]
        cur = ("live", ev, m, extent)
        for op in recipe:
            if op[0] == "free":
                cur = ("freed",)
            elif op[0] == "null":
                cur = ("null",)
            elif op[0] == "alloc":
                cur = ("live",) + fresh_buffer(tu, mtu, op[1])
            else:
                if cur[0] != "live":
                    raise AnalysisError("%s(): overflow path calls %s() on a %s receive buffer -- unclassifiable" % (
                        RX_FN, op[1], "freed" if cur[0] == "freed" else "NULL"))
                if cur[1].find(op[1]) is None:
                    raise AnalysisError("%s(): receive buffer handed to %s(), whose body is not available -- unclassifiable"
                                        % (RX_FN, op[1]))
                try:
                    cur[1].call(op[1], [cur[2] if a == "buf" else a for a in op[2]])
                except _Abort as e:
                    raise AnalysisError("%s(): %s() on the full receive buffer ends in %s() -- unclassifiable" % (RX_FN, op[1], e))
        if cur[0] != "live":
            continue            # NULL: the next step allocates (C06.R1 capacity); freed: reported by C06.R1
        nlive += 1
        _, ev2, m2, ext2 = cur
        for name in sorted(ev2.followed):
            L.fn(helper_file(ev2, name), name)
        o = ev2.obj
        head, data, tail, ln = o.get("head", 0), o.get("data", 0), o.get("tail", 0), o.get("len", 0)
        state = "head=%s data=%s tail=%s data_len=%s len=%s" % tuple(_vtext(o.get(f, 0)) for f in ("head", "data", "tail", "data_len", "len"))
        if not all(_sym(v) and v[1] == "buf" for v in (head, data, tail)) or not isinstance(ln, int):
            raise AnalysisError("%s(): after `%s` head / data / tail of the receive buffer do not point into its data area (%s) "
                                "-- unclassifiable" % (RX_FN, text, state))
        wild = [a for a in ev2.stores[nst0 if ev2 is ev else 0:] if not (_sym(a) and a[1] == "buf" and 0 <= a[2] < ext2)]
        if wild:
            raise AnalysisError("%s(): `%s` stores at %s, outside the data area -- unclassifiable" % (RX_FN, text, _vtext(wild[0])))
        what = "over-long frame (%s build): the buffer `%s` leaves in %s for the next frame" % (tag, text, RXM)

        def reported(fn):
            if ev2.find(fn) is None:
                return None
            try:
                v = ev2.call(fn, [m2])
            except _Abort:
                return None
            return v if isinstance(v, int) else None

        hr = min(data[2] - head[2], data[2])
        seen = reported("msgb_headroom")
        if seen is not None:
            hr = min(hr, seen)
        L.ob(R, F, RX_FN, "%s has the headroom the DLCI handlers prepend into (sercomm_sendmsg, the handler of the echo DLCI, "
             "pushes the address and control octet)" % what, "headroom >= %d" % need, "%d (%s)" % (hr, state), hr >= need, line)
        real = ext2 - tail[2]
        rep = reported("msgb_tailroom")
        if rep is None:
            raise AnalysisError("msgb_tailroom() does not evaluate on the buffer `%s` leaves (%s)" % (text, state))
        L.ob(R, F, RX_FN, "%s has the full receive capacity, and msgb_tailroom() reports it without exceeding the octets really "
             "there" % what, "%d <= msgb_tailroom() <= real room" % size, "msgb_tailroom() = %d, real room %d (%s)" % (rep, real, state),
             size <= rep <= real, line)
        L.ob(R, F, RX_FN, "%s is empty: nothing of the discarded frame is delivered in front of the next payload" % what,
             "len == 0, tail == data", "len = %d, tail - data = %d (%s)" % (ln, tail[2] - data[2], state),
             ln == 0 and tail[2] == data[2], line)
    L.extra.setdefault("overflow_buffer_treatments", {})[tag] = sorted(t for (t, _) in recipes.values())


# ------------------------------------------- C06.R11 extent of the per-DLCI tables

DLCI_ENUM = "sercomm_dlci"


def table_extents(tu):
    """{table lvalue text: extent} of dlci_handler[] / dlci_queues[], from the types clang resolved."""
    out = {}
    for name, fn in own_functions(tu).items():
        for n in walk(tu.body(fn)):
            if kind(n) == "MemberExpr" and ctext(n) in (HANDLERS, QUEUES):
                ext = array_extent(n.get("type", {}).get("qualType"))
                if ext is None:
                    raise AnalysisError("%s(): extent of %s unknown" % (name, ctext(n)))
                out.setdefault(ctext(n), set()).add(ext)
    for base in (HANDLERS, QUEUES):
        if len(out.get(base, ())) != 1:
            raise AnalysisError("extent of %s not found in %s" % (base, tu.rel))
    return {b: v.pop() for b, v in out.items()}


def r11_table_extent(L, tu, tag):
    """C06.R11 - every DLCI has a slot.  Decides a premise of `any DLCI ... is delivered to the handler registered
    for its DLCI` and of `without corrupting memory`: sercomm_register_rx_cb() refuses and dispatch_rx_msg()
    drops every DLCI >= the extent of rx.dlci_handler[], and sercomm_sendmsg() indexes tx.dlci_queues[] with the
    DLCI unchecked (C06.R4/R5).  So (a) every enumerator of enum sercomm_dlci - the DLCIs of the link the rest
    of the tree registers and sends on - must be a valid index of both tables; the one value allowed besides is
    the extent itself (an enumerator that counts the DLCIs, as _SC_DLCI_MAX does, is no DLCI); (b) every DLCI
    that folds to a constant at a call site of sercomm_register_rx_cb() / sercomm_sendmsg() in sercomm.c must be
    below the extent of the table that call indexes (the echo handler sercomm_init() registers is otherwise
    never installed).  Values are the ones clang resolves (explicit initialisers folded, implicit ones previous
    + 1), extents the array types of the members - not the spelling of either declaration."""
    R = "C06.R11"
    ext = table_extents(tu)
    limit = min(ext.values())
    tables = "%s[%d] / %s[%d]" % (HANDLERS.split(".")[-1], ext[HANDLERS], QUEUES.split(".")[-1], ext[QUEUES])
    decl = None
    for d in kids(tu.ast):
        if kind(d) == "EnumDecl" and d.get("name") == DLCI_ENUM and kids(d):
            decl = d
    if decl is None:
        # the enumeration was renamed / made anonymous: it is the one whose enumerators the file's own call sites
        # pass as DLCI
        found = {}
        for fn in own_functions(tu).values():
            for callee in (REG, SEND):
                for c in calls_to(fn, callee):
                    a = strip(call_args(c)[0], casts=True) if call_args(c) else None
                    rd = a.get("referencedDecl", {}) if kind(a) == "DeclRefExpr" else {}
                    par = tu.parent.get(id(tu.by_id.get(rd.get("id")))) if rd.get("kind") == "EnumConstantDecl" else None
                    if kind(par) == "EnumDecl":
                        found[id(par)] = par
        if len(found) != 1:
            raise AnalysisError("enum %s vanished and the enumeration of the DLCIs cannot be identified from the call sites "
                                "in %s" % (DLCI_ENUM, tu.rel))
        decl = list(found.values())[0]
    hfile = HELPER_FILES.get(os.path.basename(decl.get("_file") or ""), HDR)
    L.unit(hfile)
    names = [c for c in kids(decl) if kind(c) == "EnumConstantDecl"]
    ename = decl.get("name") or "<anonymous DLCI enumeration>"
    counters = []
    for c in names:
        v = tu.enums.get(c.get("name"))
        if v is None:
            raise AnalysisError("enumerator %s of enum %s does not fold" % (c.get("name"), ename))
        if v == limit:
            counters.append(c.get("name"))      # the number of DLCIs, not a DLCI (call sites: below)
            continue
        L.ob(R, hfile, "enum " + ename, "DLCI enumerator %s has a slot in the per-DLCI tables of sercomm.c (handler table and "
             "transmit queues are indexed by the DLCI)" % c.get("name"), "0 <= %s < %d" % (c.get("name"), limit),
             "%s = %d; tables %s" % (c.get("name"), v, tables), 0 <= v < limit, tu.line(c))
    L.floor(R, "enumerators of the DLCI enumeration (%s build)" % tag, len(names), 2)
    L.extra.setdefault("dlci_tables", {})[tag] = {"extents": tables, "enumerators equal to the extent (count, no DLCI)": counters}
    nsites = 0
    for name, fn in sorted(own_functions(tu).items()):
        for callee, base in ((REG, HANDLERS), (SEND, QUEUES)):
            for c in calls_to(fn, callee):
                args = call_args(c)
                v = tu.fold(args[0]) if args else None
                if v is None:
                    continue            # a DLCI that is not a constant here: index bounds C06.R4, origin C06.R5
                nsites += 1
                L.fn(F, name)
                L.ob(R, F, name, "constant DLCI `%s` passed to %s() is a valid index of %s[]%s" % (
                    ctext(args[0]), callee, base.split(".")[-1],
                    " (else the registration is refused and the handler never installed)" if callee == REG else ""),
                    "0 <= %s < %d" % (ctext(args[0]), ext[base]), v, 0 <= v < ext[base], tu.line(c))
    L.floor(R, "constant DLCIs at %s / %s call sites in sercomm.c (%s build)" % (REG, SEND, tag), nsites, 1)
    return ext


# ------------------------------------------- C06.R12 fold of the receiver over witness streams

FREE_FNS = ("_talloc_free", "talloc_free")
INIT_FN = "sercomm_init"


class RxFold(MsgbEval):
    """MsgbEval extended to what the receive step needs.  File-scope objects of sercomm.c without initialiser
    (zero-initialised, e.g. `sercomm`) are a store member-path -> value that lives across calls; switch
    statements are executed (case arms in order, fall through, break); the octets written into the data area are
    kept; talloc_free() of the buffer and a call through a registered handler release it (pointers that still
    refer to it become 'dead': non-NULL, anything done through them has no verdict), so the next allocation is a
    new buffer; a call through a value ('@', 'handler', d) is recorded as a delivery."""

    def __init__(self, tus, zero):
        MsgbEval.__init__(self, tus)
        self.zero = zero
        self.glob, self.mem, self.envs = {}, {}, {}
        self.delivered = []
        self.released = 0
        self.switches = {}         # id(SwitchStmt) -> [(labels, statement)]
        self.preset = {}           # table index -> function sercomm_init() left in a table of the state object

    # -- the state object
    def groot(self, e, env):
        while True:
            e = strip(e)
            k = kind(e)
            if k == "DeclRefExpr":
                rd = e.get("referencedDecl", {})
                return rd.get("kind") == "VarDecl" and rd.get("id") not in env and rd.get("name") in self.zero
            if k in ("MemberExpr", "ArraySubscriptExpr") and not e.get("isArrow"):
                e = kids(e)[0]
            else:
                return False

    def gpath(self, tu, e, env, depth):
        e = strip(e)
        k = kind(e)
        if k == "DeclRefExpr":
            return e.get("referencedDecl", {}).get("name")
        base = self.gpath(tu, kids(e)[0], env, depth)
        if k == "MemberExpr":
            return None if base is None else "%s.%s" % (base, e.get("name"))
        i = self.ev(tu, kids(e)[1], env, depth)
        if base is None or not isinstance(i, int):
            return None
        ext = array_extent(strip(kids(e)[0]).get("type", {}).get("qualType"))
        if ext is None:
            return None         # indexing through a pointer object, not a member array
        if not 0 <= i < ext:
            raise AnalysisError("receive fold: `%s` evaluated with index %d outside its extent %d" % (ctext(e), i, ext))
        return "%s[%d]" % (base, i)

    def lv(self, tu, e, env, depth):
        e = strip(e)
        if self.groot(e, env):
            p = self.gpath(tu, e, env, depth)
            return ("unk",) if p is None else ("g", p)
        if kind(e) == "MemberExpr" and e.get("isArrow"):
            bv = self.ev(tu, kids(e)[0], env, depth)
            if _sym(bv) and bv[1].startswith("g:") and bv[2] == 0:
                return ("g", "%s.%s" % (bv[1][2:], e.get("name")))
            if bv == ("@", "obj", 0):
                return ("field", e.get("name"))
            if isinstance(bv, int) and bv == 0:
                raise AnalysisError("receive fold: member `%s` read through a null pointer" % ctext(e))
            return ("unk",)
        if kind(e) == "UnaryOperator" and e.get("opcode") == "*":
            # *p with p the address of a member of the state object (a helper handed `&sercomm.rx.dlci`)
            pv = self.ev(tu, kids(e)[0], env, depth)
            if _sym(pv) and pv[1].startswith("g:") and pv[2] == 0:
                return ("g", pv[1][2:])
        return MsgbEval.lv(self, tu, e, env, depth)

    def load(self, loc, env):
        if loc[0] == "g":
            return self.glob.get(loc[1], 0)
        if loc[0] == "mem":
            return self.mem.get(loc[1][2])
        if loc[0] == "field" and self.obj is None:
            raise AnalysisError("receive fold: a released buffer is read")
        return MsgbEval.load(self, loc, env)

    def store(self, loc, v, qt, env, what):
        if loc[0] == "g":
            self.glob[loc[1]] = self.wrap(v, qt)
            return
        if loc[0] == "mem":
            self.mem[loc[1][2]] = self.wrap(v, qt)
        if loc[0] == "field" and self.obj is None:
            raise AnalysisError("receive fold: a released buffer is written: `%s`" % _what(what))
        MsgbEval.store(self, loc, v, qt, env, what)

    def release(self):
        gen, self.released = self.released, self.released + 1
        for d in [self.glob] + list(self.envs.values()):
            for k2, v in d.items():
                if _sym(v) and v[1] in ("obj", "buf"):
                    d[k2] = ("@", "dead", gen)
        self.obj, self.alloc, self.mem, self.stores = None, None, {}, []

    def payload(self):
        o = self.obj
        d, t, n = o.get("data", 0), o.get("tail", 0), o.get("len", 0)
        if not (_sym(d) and _sym(t) and d[1] == t[1] == "buf" and isinstance(n, int) and t[2] - d[2] == n and n >= 0):
            return ("data=%s tail=%s len=%s" % (_vtext(d), _vtext(t), _vtext(n)),)
        return tuple(self.mem.get(i) for i in range(d[2], t[2]))

    def deliver(self, h, args):
        if len(args) != 2:
            raise AnalysisError("receive fold: DLCI handler called with %d arguments" % len(args))
        if args[1] == ("@", "obj", 0) and self.obj is not None:
            self.delivered.append((h, args[0], self.payload()))
            self.release()          # the handler owns the buffer now
        elif isinstance(args[1], int) and args[1] == 0:
            self.delivered.append((h, args[0], ("NULL buffer",)))
        else:
            raise AnalysisError("receive fold: DLCI handler called with `%s`, not the receive buffer" % _vtext(args[1]))

    # -- evaluation
    def call(self, name, args, depth=0):
        if name in FREE_FNS:
            p = args[0] if args else None
            if p == ("@", "obj", 0) and self.obj is not None:
                self.release()
                return 0
            if isinstance(p, int) and p == 0:
                return None
            raise AnalysisError("receive fold: %s(%s) is not the live receive buffer" % (name, _vtext(p)))
        return MsgbEval.call(self, name, args, depth)

    def fnval(self, tu, e, env, depth):
        s = strip(e, casts=True)
        if kind(s) == "UnaryOperator" and s.get("opcode") == "*":
            return self.fnval(tu, kids(s)[0], env, depth)
        return self.ev(tu, e, env, depth)

    def ev(self, tu, e, env, depth):
        k = kind(e) if e else None
        if k == "BinaryOperator" and all(kind(strip(c)) == "UnaryExprOrTypeTraitExpr" for c in kids(e)):
            v = tu.fold(e)          # ARRAY_SIZE(): sizeof of a type the evaluation has no size for
            if v is not None:
                return v
        if k == "UnaryOperator" and e.get("opcode") == "&":
            s = strip(kids(e)[0])
            if kind(s) == "DeclRefExpr" and s.get("referencedDecl", {}).get("kind") == "FunctionDecl":
                return ("@", "fn:" + s["referencedDecl"].get("name", "?"), 0)
            loc = self.lv(tu, s, env, depth)
            if loc[0] == "g":
                return ("@", "g:" + loc[1], 0)
            if loc[0] == "mem":
                return loc[1]
            return ("@", "buf", 0) if loc == ("field", "_data") else None
        if k == "CallExpr":
            ks = kids(e)
            callee = strip(ks[0], casts=True)
            rd = callee.get("referencedDecl", {}) if kind(callee) == "DeclRefExpr" else {}
            if rd.get("kind") != "FunctionDecl":
                fv = self.fnval(tu, ks[0], env, depth)
                args = [self.ev(tu, a, env, depth) for a in ks[1:]]
                if _sym(fv) and fv[2] == 0 and fv[1][3:] in self.preset.values() and fv[1].startswith("fn:"):
                    self.deliver(fv[1][3:], args)       # handler sercomm_init() registered itself: not followed
                    return None
                if not (_sym(fv) and fv[1] == "handler"):
                    raise AnalysisError("receive fold: call through `%s` = %s, which is not a registered witness handler"
                                        % (ctext(ks[0]), _vtext(fv)))
                self.deliver(fv[2], args)
                return None
        return MsgbEval.ev(self, tu, e, env, depth)

    @staticmethod
    def binop(op, a, b):
        if op in CMP:       # any address (state object, handler, released buffer) against NULL
            if _sym(a) and a[1] != "S" and isinstance(b, int) and b == 0:
                a = 1
            elif _sym(b) and b[1] != "S" and isinstance(a, int) and a == 0:
                b = 1
        return MsgbEval.binop(op, a, b)

    @staticmethod
    def switch_arms(tu, body):
        seq = []
        for x in kids(body):
            labels = []
            while kind(x) in ("CaseStmt", "DefaultStmt"):
                ks = kids(x)
                if kind(x) == "CaseStmt":
                    c = tu.fold(ks[0]) if len(ks) == 2 else None
                    if c is None:
                        raise AnalysisError("receive fold: case label does not fold")
                    labels.append(c)
                else:
                    labels.append("default")
                x = ks[-1]
            seq.append((labels, x))

        def nested(n):
            return any(kind(c) in ("CaseStmt", "DefaultStmt") or (kind(c) != "SwitchStmt" and nested(c)) for c in kids(n))
        if any(nested(x) for _, x in seq):
            raise AnalysisError("receive fold: case label inside a nested statement")
        return seq

    def run_switch(self, tu, st, env, depth):
        raw = [x for x in st.get("inner", []) if x]
        v = self.ev(tu, raw[-2], env, depth) if len(raw) >= 2 else None
        if not isinstance(v, int) or kind(raw[-1]) != "CompoundStmt":
            raise AnalysisError("receive fold: switch on `%s` does not evaluate" % (ctext(raw[-2]) if len(raw) >= 2 else "?"))
        seq = self.switches.get(id(st))
        if seq is None:
            seq = self.switches[id(st)] = self.switch_arms(tu, raw[-1])
        start = next((i for i, (ls, _) in enumerate(seq) if v in ls), None)
        if start is None:
            start = next((i for i, (ls, _) in enumerate(seq) if "default" in ls), None)
        if start is None:
            return None
        for _, x in seq[start:]:
            r = self.run(tu, x, env, depth)
            if r == ("break",):
                return None
            if r is not None:
                return r
        return None

    def run(self, tu, st, env, depth):
        self.envs[id(env)] = env
        k = kind(st) if st else None
        if k == "SwitchStmt":
            return self.run_switch(tu, st, env, depth)
        if k == "DeclStmt" and any(d.get("storageClass") == "static" for d in kids(st)):
            raise AnalysisError("receive fold: function-local static object")
        return MsgbEval.run(self, tu, st, env, depth)

    def step(self, octet):
        self.envs = {}
        try:
            self.call(RX_FN, [octet])
        except _Abort as e:
            raise AnalysisError("receive fold: %s() reached on a witness stream (C06.R1 / C06.R7 decide the bounds)" % e)


def preset_handlers(ev):
    """index -> name of the function sercomm_init() stored in an array member of the state object."""
    out = {}
    for p, v in ev.glob.items():
        if _sym(v) and v[1].startswith("fn:") and v[2] == 0 and p.endswith("]"):
            out[int(p[p.rindex("[") + 1:-1])] = v[1][3:]
    return out


def emitted_ctrl(tu, mtu, d):
    """The control octet sercomm_sendmsg(d, .) writes behind the address octet (evaluated, TxFold)."""
    tx = fold_start(TxFold, tu, mtu, (SEND, RX_ALLOC_FN, "msgb_put"))
    try:
        m = tx.call(RX_ALLOC_FN, [1])
        at = tx.call("msgb_put", [m, 1]) if m == ("@", "obj", 0) else None
        if not (_sym(at) and at[1] == "buf"):
            raise AnalysisError("receive fold: %s(): the evaluation does not arrive at a witness message" % SEND)
        tx.mem[at[2]] = 0x41
        tx.call(SEND, [d, m])
    except _Abort as e:
        raise AnalysisError("receive fold: %s(): %s() reached on a witness message" % (SEND, e))
    f = tx.message(at[2]) if tx.obj is not None else None
    if not (f and len(f[0]) == 2 and f[0][0] == d and isinstance(f[0][1], int)):
        raise AnalysisError("receive fold: the control octet %s() emits on DLCI %d does not evaluate (C06.R3 decides the header)"
                            % (SEND, d))
    return f[0][1]


def rx_fold_start(tu, mtu):
    """Evaluator in the state sercomm_init() leaves behind (run on the zero-initialised objects of sercomm.c)."""
    zero = set(n for n, d in tu.vars.items() if not d.get("init") and d.get("storageClass") != "extern"
               and os.path.basename(d.get("_file") or "sercomm.c") == "sercomm.c")
    ev = RxFold((tu, mtu), zero)
    if ev.find(RX_FN) is None:
        raise AnalysisError("anchor function %s() vanished" % RX_FN)
    if ev.find(INIT_FN) is not None:
        try:
            ev.call(INIT_FN, [])
        except _Abort as e:
            raise AnalysisError("receive fold: %s() ends in %s()" % (INIT_FN, e))
    ev.preset = preset_handlers(ev)
    return ev


def r12_rx_fold(L, tu, mtu, tag, size, K):
    """C06.R12 - the receiver, run.  Decides the clause `delivered to the handler registered for its DLCI with
    identical DLCI and payload, exactly once each` (and `flag-free noise between frames is ignored`) on witness
    streams: sercomm_init(), sercomm_register_rx_cb(d, handler_d) and then sercomm_drv_rx_char() for every octet
    of the stream are EVALUATED (RxFold: the state object, dispatch_rx_msg and whatever helpers are called, the
    msgb allocation / tailroom / put on a concrete buffer) - however the step is written.  A stream is what the
    transmitter tables of C06.R2 put on the wire for a message list: flag, DLCI, the control octet the evaluated
    sercomm_sendmsg() writes for that DLCI, payload (escaped set and XOR constant as extracted from
    sercomm_drv_pull), flag.  Witnesses: the empty payload, one octet,
    flag / escape / zero octets in the payload, empty payloads between other messages with noise between the
    frames, the longest payload the property promises (receive size - 1), and a message on every DLCI whose handler
    sercomm_init() registered itself (`all DLCIs with a registered handler`: the echo DLCI; a call through that
    function is recorded, not followed).  Required: the recorded handler
    calls are exactly the message list, in order.  Every witness is an input of the property's quantifier, so a
    mismatch is a counterexample; a step the evaluation cannot follow is no verdict."""
    R = "C06.R12"
    L.fn(F, RX_FN)
    probe = rx_fold_start(tu, mtu)
    if probe.find(REG) is None:
        raise AnalysisError("anchor function %s() vanished" % REG)
    free = [d for d in range(256) if probe.call(REG, [d, ("@", "handler", d)]) == 0]
    if len(free) < 3:
        raise AnalysisError("receive fold: %s() accepts fewer than 3 DLCIs" % REG)
    d0, d1, d2 = free[0], free[len(free) // 2], free[-1]
    own = {d: n for d, n in sorted(probe.preset.items()) if d not in free and 0 <= d < 256}    # registered by sercomm_init()
    ctrl = {d: emitted_ctrl(tu, mtu, d) for d in [d0, d1, d2] + list(own)}
    if not all(isinstance(getattr(K, a, None), int) for a in ("flag", "esc", "xor")):
        raise AnalysisError("receive fold: flag / escape / XOR constants of the transmitter unknown")
    noise = [o for o in (0x00, 0x41, K.esc, 0xFF) if o != K.flag]
    witnesses = (
        ("one message with an empty payload", [(d1, [])], []),
        ("one message with a one-octet payload", [(d1, [0x41])], []),
        ("payload made of flag, escape, zero and ordinary octets", [(d0, [K.flag, K.esc, 0x00, 0x41, K.flag ^ K.xor, K.esc])], []),
        ("empty payloads between other messages, flag-free noise between the frames",
         [(d1, []), (d0, [1, 2, 3]), (d1, []), (d2, [K.esc]), (d0, []), (d2, [0x42])], noise),
        ("longest promised payload (%d octets) followed by a short message" % (size - 1),
         [(d1, [(7 * i + 1) & 0xFF for i in range(size - 1)]), (d0, [0x55])], []),
        # `all inter-frame garbage not containing the flag octet`: the escape octet as the LAST noise octet in front of
        # an opening flag, and in the middle of the noise (followed by an ordinary octet / by itself)
        ("flag-free noise that ends in the escape octet in front of every frame",
         [(d1, [0x41]), (d0, [K.esc, 0x42]), (d2, [])], [o for o in (0x41, 0x00, K.esc) if o != K.flag]),
        ("flag-free noise with escape octets in its middle in front of every frame",
         [(d2, [0x43, K.flag]), (d1, [])], [o for o in (K.esc, K.flag ^ K.xor, K.esc, K.esc, 0x41) if o != K.flag]),
    ) + tuple(("message on DLCI %d, whose handler %s() registered itself, between messages on other DLCIs" % (d, INIT_FN),
               [(d0, [0x42]), (d, [0x41, K.flag, 0x00]), (d2, [])], []) for d in own)

    def wire(o):
        return [K.esc, o ^ K.xor] if o in K.escaped else [o]

    def show(h, d, p):
        body = " ".join("??" if o is None else o if isinstance(o, str) else "%02X" % o for o in p[:8])
        return "handler[%s](dlci %s, %s)" % (h, _vtext(d), "[%s%s]" % (body, " .. %d octets" % len(p) if len(p) > 8 else ""))

    for title, msgs, gap in witnesses:
        ev = rx_fold_start(tu, mtu)
        for d in sorted({d for d, _ in msgs} - set(own)):
            if ev.call(REG, [d, ("@", "handler", d)]) != 0:
                raise AnalysisError("receive fold: %s(%d, .) refused" % (REG, d))
        stream = []
        for d, p in msgs:
            stream += gap + [K.flag] + wire(d) + wire(ctrl[d]) + [x for o in p for x in wire(o)] + [K.flag]
        for o in stream + gap:
            ev.step(o)
        want = [(own.get(d, d), d, tuple(p)) for d, p in msgs]
        L.ob(R, F, RX_FN, "receive fold [%s]: %s -- every frame of the stream is handed to the handler registered for its "
             "DLCI exactly once, with its DLCI and payload, in order" % (tag, title),
             "; ".join(show(*w) for w in want), "; ".join(show(*g) for g in ev.delivered) or "no handler call",
             ev.delivered == want, tu.line(tu.func(RX_FN)))
    L.floor(R, "witness streams folded through %s (%s build)" % (RX_FN, tag), len(witnesses), 7)


# ------------------------------------------- C06.R13 fold of the transmitter over witness messages

ENQ_FN, DEQ_FN = "msgb_enqueue", "msgb_dequeue"
PROP_FLAG = 0x7E            # `flag 0x7E`: the frame delimiter named by the property statement
PROP_ESC = 0x7D             # `escape 0x7D`


class TxFold(RxFold):
    """RxFold extended to what sercomm_sendmsg() / sercomm_drv_pull() need.  The octet cell the pull writes to is
    the address ('@', 'out', 0).  msgb_enqueue(q, m) / msgb_dequeue(q) on a queue head inside the state object
    are the FIFO primitives whose list discipline C06.R4 decides on their bodies; the head's next / prev members
    are kept as C would see them (the head itself when empty, else the address ('@', 'entry', 0) of the queued
    message's list member, through which nothing can be done), so llist_empty() on a head evaluates.  Statement
    expressions are executed; an asm statement (interrupt masking) changes no C object the fold tracks, local
    variables it names become unknown."""

    def __init__(self, tus, zero):
        RxFold.__init__(self, tus, zero)
        self.queues = {}
        self.out = None
        self.stack, self.narrowed = [], []      # functions being evaluated; integer conversions that changed a value
        self.enq_snap = []         # the message as it was each time msgb_enqueue() was reached
        self.cut = None            # offset of the first payload octet in the data area (set by the rule)

    def lv(self, tu, e, env, depth):
        s = strip(e)
        k = kind(s)
        if (k == "UnaryOperator" and s.get("opcode") == "*") or k == "ArraySubscriptExpr":
            if k == "UnaryOperator":
                pv = self.ev(tu, kids(s)[0], env, depth)
            elif self.groot(s, env):
                return RxFold.lv(self, tu, e, env, depth)
            else:
                cell = self.member_cell(tu, s, env, depth)
                if cell is not None:
                    return cell
                a, b = kids(s)
                pv = _vadd(self.ev(tu, a, env, depth), self.ev(tu, b, env, depth))
            if _sym(pv) and pv[1] == "buf":
                return ("mem", pv)
            return ("out",) if pv == ("@", "out", 0) else ("unk",)
        return RxFold.lv(self, tu, e, env, depth)

    def load(self, loc, env):
        return self.out if loc[0] == "out" else RxFold.load(self, loc, env)

    def store(self, loc, v, qt, env, what):
        if loc[0] == "out":
            self.out = self.wrap(v, qt)
            return
        RxFold.store(self, loc, v, qt, env, what)

    def message(self, was):
        """(octets prepended before offset `was` of the data area, octets from there to the tail) of the live
        message, None where data / tail do not evaluate; was=None: (), every octet."""
        d, t = self.obj.get("data", 0), self.obj.get("tail", 0)
        if not (_sym(d) and _sym(t) and d[1] == t[1] == "buf" and d[2] <= t[2]):
            return None
        cut = d[2] if was is None else was
        if not d[2] <= cut <= t[2]:
            return None
        octs = [self.mem.get(i) for i in range(d[2], t[2])]
        return (tuple(octs[:cut - d[2]]), tuple(octs[cut - d[2]:]))

    def relink(self, path):
        q = self.queues.get(path) or []
        self.glob[path + ".next"] = self.glob[path + ".prev"] = ("@", "entry", 0) if q else ("@", "g:" + path, 0)

    def queue_of(self, name, args, n):
        q = args[0] if len(args) == n else None
        if not (_sym(q) and q[1].startswith("g:") and q[2] == 0):
            raise AnalysisError("transmit fold: %s() on `%s`, which is not a queue head of the state object" % (name, _vtext(q)))
        return q[1][2:]

    def call(self, name, args, depth=0):
        if name == ENQ_FN:
            path = self.queue_of(name, args, 2)
            if args[1] != ("@", "obj", 0) or self.obj is None or self.queues.get(path):
                raise AnalysisError("transmit fold: %s() of `%s` -- not the one live witness message on an empty queue"
                                    % (name, _vtext(args[1])))
            self.queues[path] = [args[1]]
            self.relink(path)
            self.enq_snap.append(self.message(self.cut))
            return None
        if name == DEQ_FN:
            path = self.queue_of(name, args, 1)
            q = self.queues.get(path) or []
            m = q.pop(0) if q else 0
            self.relink(path)
            return m
        self.stack.append(name)
        try:
            return RxFold.call(self, name, args, depth)
        finally:
            self.stack.pop()

    @staticmethod
    def binop(op, a, b):
        if op in ("==", "!=") and _sym(a) and _sym(b) and a[1] != b[1]:
            ka, kb = a[1].startswith("g:"), b[1].startswith("g:")
            if ka != kb and (a[1] if kb else b[1]) in ("entry", "obj", "buf"):
                return int(op == "!=")      # a message is not a part of the state object
        return RxFold.binop(op, a, b)

    def ev(self, tu, e, env, depth):
        k = kind(e) if e else None
        if k == "StmtExpr":
            body = [x for x in kids(kids(e)[0])] if kids(e) and kind(kids(e)[0]) == "CompoundStmt" else None
            if body is None:
                raise AnalysisError("transmit fold: statement expression with an unexpected shape")
            for x in body[:-1]:
                if self.run(tu, x, env, depth) is not None:
                    raise AnalysisError("transmit fold: jump out of a statement expression")
            if body and "Stmt" not in (kind(body[-1]) or "Stmt"):
                return self.ev(tu, body[-1], env, depth)
            if body and self.run(tu, body[-1], env, depth) is not None:
                raise AnalysisError("transmit fold: jump out of a statement expression")
            return None
        if k in ("ImplicitCastExpr", "CStyleCastExpr") and e.get("castKind") == "IntegralCast":
            t = e.get("type", {})       # a typedef of a narrow type truncates like the type itself
            v = self.ev(tu, kids(e)[0], env, depth)
            qt = (t.get("desugaredQualType") or t.get("qualType", "")).replace("const ", "").strip()
            w = self.wrap(v, "unsigned char" if qt == "char" and tu.kind == "fw" else qt)      # plain char is unsigned on ARM
            if isinstance(v, int) and w != v:
                note = "%s(): `%s` = %d converted to %s reads %d" % (self.stack[-1] if self.stack else "?", ctext(kids(e)[0]), v,
                                                                    t.get("qualType", "?"), w)
                if note not in self.narrowed:
                    self.narrowed.append(note)
            return w
        return RxFold.ev(self, tu, e, env, depth)

    def run(self, tu, st, env, depth):
        if st and kind(st) == "GCCAsmStmt":
            for n in walk(st):
                rd = n.get("referencedDecl", {}) if kind(n) == "DeclRefExpr" else {}
                if rd.get("id") in env:
                    env[rd.get("id")] = None
            return None
        return RxFold.run(self, tu, st, env, depth)


def fold_start(cls, tu, mtu, anchors):
    """Evaluator in the state sercomm_init() leaves behind (run on the zero-initialised objects of sercomm.c)."""
    zero = set(n for n, d in tu.vars.items() if not d.get("init") and d.get("storageClass") != "extern"
               and os.path.basename(d.get("_file") or "sercomm.c") == "sercomm.c")
    ev = cls((tu, mtu), zero)
    for a in anchors:
        if ev.find(a) is None:
            raise AnalysisError("anchor function %s() vanished" % a)
    if ev.find(INIT_FN) is not None:
        try:
            ev.call(INIT_FN, [])
        except _Abort as e:
            raise AnalysisError("fold: %s() ends in %s()" % (INIT_FN, e))
    ev.preset = preset_handlers(ev)
    return ev


def raw_in_frame(run):
    """What one message pulled until idle looks like between its flags: None when the octets are not one frame
    opened and closed by the flag 0x7E of the property (the delivery obligation decides that), else '' or the first
    octet that is a flag, or a zero octet not announced by the escape octet 0x7D."""
    if len(run) < 2 or run[0] != PROP_FLAG or run[-1] != PROP_FLAG:
        return None
    a, b = 0, len(run) - 1
    while a + 1 < b and run[a + 1] == PROP_FLAG:
        a += 1          # repeated flags in front of / behind a frame are inter-frame fill
    while b - 1 > a and run[b - 1] == PROP_FLAG:
        b -= 1
    esc = False
    for i in range(a + 1, b):
        o = run[i]
        if o == PROP_FLAG:
            return "octet %d between the flags is a flag" % (i - a)
        if o == 0x00 and not esc:
            return "octet %d between the flags is an unescaped 00" % (i - a)
        esc = (o == PROP_ESC) and not esc
    return ""


def r13_tx_fold(L, tu, mtu, tag, size):
    """C06.R13 - the transmitter, run.  Decides the clause `any sequence of messages queued for transmission and
    fed octet by octet into a receiver is delivered ... with identical DLCI and payload, exactly once each` for
    the transmit side: for every witness message a buffer is obtained from sercomm_alloc_msgb(n), filled through
    msgb_put(), handed to sercomm_sendmsg(dlci, msg), and sercomm_drv_pull() is EVALUATED (TxFold: the state
    object, every helper called with its parameter and return TYPES - an integer conversion truncates as in C -,
    the msgb header push on the concrete buffer, the release of the message) until it reports idle; the octets
    it produced are fed, one by one, to the evaluated receive step of C06.R12.  Witnesses: empty and one-octet
    payloads, flag / escape / zero octets, messages of 255, 256 and 257 octets including address and control
    octet (every count of octets still to be sent from there down to 0 occurs - the values at which a count kept
    in 8 bits wraps), and the longest payload the property promises (receive size - 1; in the host build every
    count up to 2049), and a message on every DLCI whose handler sercomm_init() registered itself (the echo DLCI;
    the receiver gets the control octet the transmitter emitted for it), and messages in buffers a caller made
    itself with msgb_alloc_headroom() (evaluated) that have exactly the HDR_OCTETS of headroom the address /
    control header needs, and one more: sercomm_sendmsg() has to queue every message with room for its header
    (seed c06-27: a guard refusing headroom 2).  Required: the handler calls are exactly
    the messages queued.  Each witness is an input
    of the property's quantifier, so a mismatch is a counterexample; a step the evaluation cannot follow is no
    verdict."""
    R = "C06.R13"
    for fn in (SEND, PULL):
        L.fn(F, fn)
    probe = fold_start(RxFold, tu, mtu, (RX_FN, REG))
    free = [d for d in range(256) if probe.call(REG, [d, ("@", "handler", d)]) == 0]
    if len(free) < 3:
        raise AnalysisError("transmit fold: %s() accepts fewer than 3 DLCIs" % REG)
    d0, d1, d2 = free[0], free[len(free) // 2], free[-1]
    own = {d: n for d, n in sorted(probe.preset.items()) if d not in free and 0 <= d < 256}    # registered by sercomm_init()

    def ramp(n):
        return [(7 * i + 1) & 0xFF for i in range(n)]
    longest = sorted({253, 254, 255, size - 1})
    witnesses = [
        ("empty payload, one octet, then flag / escape / zero octets",
         [(d1, []), (d2, [0x41]), (d0, [0x7E, 0x7D, 0x00, 0x41, 0x5E, 0x5D, 0x20, 0x7D, 0x7E])]),
    ] + [("message of %d octets (address + control + %d payload octets) followed by a short message" % (n + 2, n),
          [(d1, ramp(n)), (d0, [0x55])]) for n in longest if n < size] + [
        ("message on DLCI %d, whose handler %s() registered itself, between messages on other DLCIs" % (d, INIT_FN),
         [(d0, [0x42]), (d, [0x41, 0x7E, 0x00]), (d2, [])]) for d in own] + [
        ("messages in buffers from %s() with exactly %d (all the header needs) and %d octets of headroom, then one from %s()"
         % (HEADROOM_ALLOC, HDR_OCTETS, HDR_OCTETS + 1, RX_ALLOC_FN),
         [(d1, [0x41, 0x7E], HDR_OCTETS), (d0, [0x00, 0x42, 0x43], HDR_OCTETS + 1), (d2, [0x55])])]
    # DLCIs whose NUMBER is an octet the frame format has to escape (the address octet is framed like the payload),
    # with payloads free of such octets: whatever decides about escaping has to look at the header as well
    special = [d for d in (0x7D, 0x7E, 0x00) if d in free]
    if special:
        witnesses.append(("messages with payloads free of flag / escape / zero octets on DLCI %s, whose number needs escaping"
                          % ", ".join(hx(d) for d in special),
                          [(d, [0x41 + i, 0x51 + i][:2 - i % 2]) for i, d in enumerate(special)] + [(d1, [0x55])]))
    nroom, nframes = 0, 0

    def show(h, d, p):
        body = " ".join("??" if o is None else o if isinstance(o, str) else "%02X" % o for o in p[:8])
        return "handler[%s](dlci %s, %s)" % (h, _vtext(d), "[%s%s]" % (body, " .. %d octets" % len(p) if len(p) > 8 else ""))

    for title, msgs in witnesses:
        tx = fold_start(TxFold, tu, mtu, (SEND, PULL, RX_ALLOC_FN, "msgb_put"))
        rx = fold_start(RxFold, tu, mtu, (RX_FN, REG))
        for d in sorted({m[0] for m in msgs} - set(own)):
            if rx.call(REG, [d, ("@", "handler", d)]) != 0:
                raise AnalysisError("transmit fold: %s(%d, .) refused" % (REG, d))
        pulled, raw = 0, []
        try:
            for d, p, *hr in msgs:
                tx.envs = {}
                run = []
                if hr:
                    # a caller's own buffer: msgb_alloc_headroom(payload + headroom, headroom, .), evaluated
                    m = tx.call(HEADROOM_ALLOC, [len(p) + hr[0], hr[0], 0])
                    if m == ("@", "obj", 0) and tx.obj is not None and tx.call("msgb_headroom", [m]) != hr[0]:
                        raise AnalysisError("transmit fold: %s(., %d, .) does not leave %d octets of headroom" % (
                            HEADROOM_ALLOC, hr[0], hr[0]))
                    nroom += 1
                else:
                    m = tx.call(RX_ALLOC_FN, [len(p)])
                if m != ("@", "obj", 0) or tx.obj is None:
                    raise AnalysisError("transmit fold: %s(%d) does not arrive at a buffer from %s()" % (
                        HEADROOM_ALLOC if hr else RX_ALLOC_FN, len(p), ALLOC_FN))
                at = tx.call("msgb_put", [m, len(p)])
                if not (_sym(at) and at[1] == "buf"):
                    raise AnalysisError("transmit fold: msgb_put() of the payload does not return an address of the data area")
                for i, o in enumerate(p):
                    tx.mem[at[2] + i] = o
                tx.call(SEND, [d, m])
                for _ in range(2 * len(p) + 16):
                    tx.envs, tx.out = {}, None
                    r = tx.call(PULL, [("@", "out", 0)])
                    if not isinstance(r, int):
                        raise AnalysisError("transmit fold: the value returned by %s() does not evaluate" % PULL)
                    if r == 0:
                        break
                    if not isinstance(tx.out, int):
                        raise AnalysisError("transmit fold: %s() reports an octet without storing one (C06.R6)" % PULL)
                    pulled += 1
                    run.append(tx.out)
                    rx.step(tx.out)
                bad = raw_in_frame(run)
                if bad is not None:
                    nframes += 1
                    if bad:
                        raw.append("message (dlci %d, [%s]) goes out as %s: %s" % (
                            d, " ".join("%02X" % o for o in p[:8]), " ".join("%02X" % o for o in run[:12]), bad))
                # a transmitter that is still not idle has sent more than every octet escaped plus flags:
                # what it produced so far is compared below
        except _Abort as e:
            raise AnalysisError("transmit fold: %s() reached on a witness message" % e)
        want = [(own.get(m[0], m[0]), m[0], tuple(m[1])) for m in msgs]
        L.ob(R, F, PULL, "transmit fold [%s]: %s -- every message handed to %s() and pulled octet by octet until %s() "
             "is idle reaches the handler of its DLCI exactly once, with its DLCI and payload" % (tag, title, SEND, PULL),
             "; ".join(show(*w) for w in want),
             ("; ".join(show(*g) for g in rx.delivered) or "no handler call") + " (%d octets pulled%s)"
             % (pulled, "".join("; " + n for n in tx.narrowed[:3]) if rx.delivered != want else ""),
             rx.delivered == want, tu.line(tu.func(PULL)))
        L.ob(R, F, PULL, "transmit fold [%s]: %s -- between the opening and the closing flag of every frame pulled there is no "
             "unescaped flag (0x7E) or zero octet" % (tag, title), "none", "; ".join(raw[:3]) or "none", not raw,
             tu.line(tu.func(PULL)))
    L.floor(R, "witness message lists folded through %s / %s (%s build)" % (SEND, PULL, tag), len(witnesses), 5)
    L.floor(R, "pulled frames examined octet by octet between their flags (%s build)" % tag, nframes, 10)
    L.floor(R, "witness DLCIs whose number itself needs escaping (%s build)" % tag, len(special), 1)
    L.floor(R, "witness messages with just the headroom the header needs (%s build)" % tag, nroom, 2)


# ------------------------------------------- C06.R14 fold of the transmitter over interleaved histories



def _mid(v, what):
    """number of the message an address ('@', 'obj:k' | 'buf:k', off) belongs to, else None."""
    if _sym(v) and v[1].startswith(what + ":"):
        return int(v[1][len(what) + 1:])
    return None


class MultiTx(TxFold):
    """TxFold with ANY number of live messages: message k is the object ('@', 'obj:k', 0) with its own header
    fields and data area ('@', 'buf:k', i); every lvalue carries the number of the message it belongs to, so
    the message in transmission (sercomm.tx.msg / next_char) and messages sitting on queues or being handed to
    sercomm_sendmsg() never alias.  msgb_enqueue() appends to / msgb_dequeue() pops the head of the per-queue
    FIFO (their list discipline is decided by C06.R4 on their bodies); talloc_free() ends a message: what still
    points to it is 'dead'."""

    def __init__(self, tus, zero):
        TxFold.__init__(self, tus, zero)
        self.msgs = {}             # k -> {"obj": fields, "mem": octets, "alloc": size argument}
        self.nmsg = 0
        self.freed = []

    def live(self, k, what):
        m = self.msgs.get(k)
        if m is None:
            raise AnalysisError("history fold: a released message is accessed: `%s`" % _what(what))
        return m

    def lv(self, tu, e, env, depth):
        s = strip(e)
        k = kind(s)
        if self.groot(s, env):
            return RxFold.lv(self, tu, e, env, depth)
        if k == "MemberExpr":
            base = kids(s)[0]
            sb = strip(base)
            if s.get("isArrow"):
                bv = self.ev(tu, base, env, depth)
            elif kind(sb) == "UnaryOperator" and sb.get("opcode") == "*":
                bv = self.ev(tu, kids(sb)[0], env, depth)
            else:
                inner = self.lv(tu, sb, env, depth)
                if inner[0] == "field" and inner[1] != "_data":
                    return ("field", "%s.%s" % (inner[1], s.get("name")), inner[2])
                return ("glob", None) if inner[0] == "glob" else ("unk",)
            if _sym(bv) and bv[1].startswith("g:") and bv[2] == 0:
                return ("g", "%s.%s" % (bv[1][2:], s.get("name")))
            m = _mid(bv, "obj")
            if m is not None and bv[2] == 0:
                return ("field", s.get("name"), m)
            if isinstance(bv, int) and bv == 0:
                raise AnalysisError("history fold: member `%s` accessed through a null pointer" % ctext(s))
            if _sym(bv) and bv[1] == "dead":
                raise AnalysisError("history fold: member `%s` accessed through a released message" % ctext(s))
            return ("unk",)
        if (k == "UnaryOperator" and s.get("opcode") == "*") or k == "ArraySubscriptExpr":
            if k == "UnaryOperator":
                pv = self.ev(tu, kids(s)[0], env, depth)
            else:
                cell = self.member_cell(tu, s, env, depth)
                if cell is not None:
                    return cell
                a, b = kids(s)
                pv = _vadd(self.ev(tu, a, env, depth), self.ev(tu, b, env, depth))
            if _mid(pv, "buf") is not None:
                return ("mem", pv)
            if k == "UnaryOperator" and _sym(pv) and pv[1].startswith("g:") and pv[2] == 0:
                return ("g", pv[1][2:])
            if _sym(pv) and pv[1] == "dead":
                raise AnalysisError("history fold: `%s` accesses a released message" % ctext(s))
            return ("out",) if pv == ("@", "out", 0) else ("unk",)
        return MsgbEval.lv(self, tu, e, env, depth)

    def load(self, loc, env):
        if loc[0] == "field":
            return None if loc[1] == "_data" else self.live(loc[2], loc[1])["obj"].get(loc[1], 0)
        if loc[0] == "mem":
            return self.live(_mid(loc[1], "buf"), "data area")["mem"].get(loc[1][2])
        return TxFold.load(self, loc, env)

    def store(self, loc, v, qt, env, what):
        if loc[0] == "field":
            self.live(loc[2], what)["obj"][loc[1]] = self.wrap(v, qt)
        elif loc[0] == "mem":
            self.live(_mid(loc[1], "buf"), what)["mem"][loc[1][2]] = self.wrap(v, qt)
        else:
            TxFold.store(self, loc, v, qt, env, what)

    def release(self, k):
        del self.msgs[k]
        self.freed.append(k)
        for d in [self.glob] + list(self.envs.values()):
            for k2, v in d.items():
                if _mid(v, "obj") == k or _mid(v, "buf") == k:
                    d[k2] = ("@", "dead", k)

    def octets(self, k):
        """every octet of message k from data to tail, None where that does not evaluate."""
        o = self.msgs[k]["obj"]
        d, t = o.get("data", 0), o.get("tail", 0)
        if not (_mid(d, "buf") == _mid(t, "buf") == k and d[2] <= t[2]):
            return None
        return tuple(self.msgs[k]["mem"].get(i) for i in range(d[2], t[2]))

    def call(self, name, args, depth=0):
        if name == ALLOC_FN:
            if len(args) < 2:
                raise AnalysisError("history fold: %s() signature changed" % ALLOC_FN)
            k, self.nmsg = self.nmsg, self.nmsg + 1
            self.msgs[k] = {"obj": {}, "mem": {}, "alloc": args[1]}
            return ("@", "obj:%d" % k, 0)
        if name in FREE_FNS:
            p = args[0] if args else None
            k = _mid(p, "obj")
            if k is not None and p[2] == 0 and k in self.msgs:
                if any(p in q for q in self.queues.values()):
                    raise AnalysisError("history fold: %s() of a message that sits on a queue" % name)
                self.release(k)
                return 0
            if isinstance(p, int) and p == 0:
                return None
            raise AnalysisError("history fold: %s(%s) is not a live message" % (name, _vtext(p)))
        if name == ENQ_FN:
            path = self.queue_of(name, args, 2)
            k = _mid(args[1], "obj")
            if k is None or args[1][2] != 0 or k not in self.msgs or any(args[1] in q for q in self.queues.values()):
                raise AnalysisError("history fold: %s() of `%s` -- not a live message off every queue" % (name, _vtext(args[1])))
            self.queues.setdefault(path, []).append(args[1])
            self.relink(path)
            return None
        if name == DEQ_FN:
            path = self.queue_of(name, args, 1)
            q = self.queues.get(path) or []
            m = q.pop(0) if q else 0
            self.relink(path)
            return m
        if self.find(name) is None and name not in ABORT_FNS and any(
                _mid(a, "obj") is not None or _mid(a, "buf") is not None for a in args):
            raise AnalysisError("history fold: a message is handed to %s(), whose body is not available" % name)
        self.stack.append(name)
        try:
            return MsgbEval.call(self, name, args, depth)
        finally:
            self.stack.pop()

    @staticmethod
    def binop(op, a, b):
        if op in ("==", "!=") and _sym(a) and _sym(b) and a[1] != b[1]:
            ka, kb = a[1].startswith("g:"), b[1].startswith("g:")
            if ka != kb and (a[1] if kb else b[1]).split(":")[0] in ("entry", "obj", "buf"):
                return int(op == "!=")      # a message is not a part of the state object
        return RxFold.binop(op, a, b)

    def ev(self, tu, e, env, depth):
        k = kind(e) if e else None
        addr = k == "UnaryOperator" and e.get("opcode") == "&"
        if addr or (k in ("ImplicitCastExpr", "CStyleCastExpr") and e.get("castKind") == "ArrayToPointerDecay"):
            s = strip(kids(e)[0])
            if kind(s) == "StringLiteral":
                return None
            if not (kind(s) == "DeclRefExpr" and s.get("referencedDecl", {}).get("kind") == "FunctionDecl"):
                self.tick()
                loc = self.lv(tu, s, env, depth)
                if loc[0] == "field" and loc[1] == "_data":
                    return ("@", "buf:%d" % loc[2], 0)
                if addr and loc[0] == "g":
                    return ("@", "g:" + loc[1], 0)
                return loc[1] if addr and loc[0] == "mem" else None
        return TxFold.ev(self, tu, e, env, depth)


def r14_tx_histories(L, tu, mtu, tag, size):
    """C06.R14 - the transmitter, run on interleaved histories.  Decides the clause `FIFO per DLCI and lower
    DLCI numbers first` over `all interleavings of sendmsg and pull` on witness histories: sequences of
    sercomm_sendmsg(d, msg) and sercomm_drv_pull() calls with SEVERAL messages pending (MultiTx), among them
    histories in which a message on a lower DLCI is queued after the closing flag of one frame was pulled and
    before the next pull, and in the middle of a frame.  Every pulled octet goes to the evaluated receive step
    (C06.R12), whose handler calls give the order of the messages on the wire.  Reference: a message is chosen
    when its opening flag is pulled (a flag octet 0x7E pulled while no frame is open), and the one chosen is the
    oldest message of the lowest-numbered DLCI that has messages queued AT THAT MOMENT - a message queued later
    cannot be meant, one queued earlier on a lower DLCI must not wait for a frame that had not begun.  Each
    history is an input of the property's quantifier, so a different order (or a lost / duplicated message) is
    a counterexample; a step the evaluation cannot follow is no verdict.  Two histories are there for a scan that
    starts at a remembered index (C06.R4 leaves that start to these folds): a high DLCI pulled until idle / for
    one frame, then a lower and a higher DLCI queued - the index must be lowered by every enqueue below it, by the
    neighbouring DLCI too (lo and mid are neighbours), and must not move past a queue that still holds messages.
    Returns True when every history arrived in order."""
    R = "C06.R14"
    for fn in (SEND, PULL):
        L.fn(F, fn)
    probe = fold_start(RxFold, tu, mtu, (RX_FN, REG))
    free = [d for d in range(256) if probe.call(REG, [d, ("@", "handler", d)]) == 0]
    if len(free) < 3:
        raise AnalysisError("history fold: %s() accepts fewer than 3 DLCIs" % REG)
    lo, mid, hi = free[0], free[1], free[-1]       # two neighbours (an index kept one off shows between them) and a far one
    S, FRAME, ALL = "send", "pull until one more frame is delivered", "pull until idle"
    histories = (
        ("two messages pending on one DLCI, a lower DLCI queued between the closing flag of the first frame and the next pull",
         [(S, hi, [0xA1]), (S, hi, [0xA2]), (FRAME,), (S, lo, [0xA3]), (ALL,)]),
        ("messages pending on two DLCIs, a lower DLCI queued between two frames, twice",
         [(S, mid, [0xB1, 0x7E]), (S, hi, [0xB2]), (S, hi, []), (FRAME,), (S, lo, [0xB3]), (FRAME,), (S, lo, [0xB4, 0x00]), (ALL,)]),
        ("a lower DLCI and the same DLCI queued in the middle of a frame",
         [(S, hi, [0xC1, 0xC2, 0xC3, 0xC4]), (3,), (S, hi, [0xC5]), (S, lo, [0xC6]), (ALL,)]),
        ("six messages on three DLCIs queued before the first pull",
         [(S, hi, [0xD1]), (S, lo, [0xD2]), (S, hi, [0xD3]), (S, mid, []), (S, lo, [0xD5, 0x7D]), (S, mid, [0xD6]), (ALL,)]),
        ("queue, pull until idle, queue again in falling priority",
         [(S, mid, [0xE1]), (ALL,), (S, hi, [0xE2]), (S, mid, [0xE3]), (S, lo, [0xE4]), (ALL,), (S, hi, [0xE5]), (ALL,)]),
        # a scan that starts at a remembered index: the index has to follow every enqueue below it, and only those
        ("a high DLCI pulled until idle, then a lower and a higher DLCI queued",
         [(S, hi, [0xF1]), (ALL,), (S, lo, [0xF2]), (S, hi, [0xF3]), (ALL,), (S, mid, [0xF4]), (S, hi, [0xF5]), (ALL,)]),
        ("one frame of a high DLCI pulled, then a lower, a higher and the lowest DLCI queued before the next pull",
         [(S, mid, [0xF6]), (FRAME,), (S, lo, [0xF7]), (S, hi, [0xF8]), (FRAME,), (S, mid, [0xF9]), (S, lo, [0xFA]),
          (S, mid, []), (ALL,)]),
    )
    held = True

    def show(h, d, p):
        return "dlci %s [%s]" % (_vtext(d), " ".join("??" if o is None else o if isinstance(o, str) else "%02X" % o for o in p[:8]))

    for title, hist in histories:
        tx = fold_start(MultiTx, tu, mtu, (SEND, PULL, RX_ALLOC_FN, "msgb_put"))
        rx = fold_start(RxFold, tu, mtu, (RX_FN, REG))
        for d in (lo, mid, hi):
            if rx.call(REG, [d, ("@", "handler", d)]) != 0:
                raise AnalysisError("history fold: %s(%d, .) refused" % (REG, d))
        model = {lo: [], mid: [], hi: []}       # the reference queues
        want, state = [], {"open": False, "pulled": 0}

        def pull():
            tx.envs, tx.out = {}, None
            r = tx.call(PULL, [("@", "out", 0)])
            if not isinstance(r, int):
                raise AnalysisError("history fold: the value returned by %s() does not evaluate" % PULL)
            if r == 0:
                return False
            if not isinstance(tx.out, int):
                raise AnalysisError("history fold: %s() reports an octet without storing one (C06.R6)" % PULL)
            state["pulled"] += 1
            if tx.out == PROP_FLAG:
                state["open"] = not state["open"]
                if state["open"]:
                    d = min((d for d in model if model[d]), default=None)
                    if d is None:
                        raise AnalysisError("history fold: %s() opens a frame with no message queued" % PULL)
                    want.append((d, d, tuple(model[d].pop(0))))
            elif not state["open"]:
                raise AnalysisError("history fold: %s() sends an octet outside a frame (C06.R2 decides the flags)" % PULL)
            rx.step(tx.out)
            return True

        try:
            for op in hist:
                if op[0] == S:
                    _, d, p = op
                    tx.envs = {}
                    m = tx.call(RX_ALLOC_FN, [len(p)])
                    k = _mid(m, "obj")
                    if k is None or k not in tx.msgs:
                        raise AnalysisError("history fold: %s(%d) does not arrive at a buffer from %s()" % (RX_ALLOC_FN, len(p), ALLOC_FN))
                    at = tx.call("msgb_put", [m, len(p)])
                    if _mid(at, "buf") != k:
                        raise AnalysisError("history fold: msgb_put() of the payload does not return an address of the data area")
                    for i, o in enumerate(p):
                        tx.msgs[k]["mem"][at[2] + i] = o
                    tx.call(SEND, [d, m])
                    model[d].append(p)
                elif op[0] == FRAME:
                    n = len(rx.delivered)
                    for _ in range(64):
                        if len(rx.delivered) > n or not pull():
                            break
                elif op[0] == ALL:
                    for _ in range(256):
                        if not pull():
                            break
                else:
                    for _ in range(op[0]):
                        pull()
        except _Abort as e:
            raise AnalysisError("history fold: %s() reached on a witness history" % e)
        want += [(d, d, tuple(p)) for d in sorted(model) for p in model[d]]     # never sent
        L.ob(R, F, PULL, "history fold [%s]: %s -- the messages arrive exactly once each, in the order in which the lowest "
             "DLCI with messages queued is chosen whenever an opening flag is pulled, oldest message first" % (tag, title),
             "; ".join(show(*w) for w in want),
             ("; ".join(show(*g) for g in rx.delivered) or "no handler call") + " (%d octets pulled)" % state["pulled"],
             rx.delivered == want, tu.line(tu.func(PULL)))
        held = held and rx.delivered == want
    L.floor(R, "interleaved histories folded through %s / %s (%s build)" % (SEND, PULL, tag), len(histories), 7)
    return held


def r4_sendmsg(L, tu, mtu, tag):
    """C06.R3 / C06.R4 for sercomm_sendmsg(), evaluated (TxFold) instead of read off its spelling: a witness
    message of three payload octets is handed to sercomm_sendmsg(d, msg) for two DLCIs.  Observed when
    msgb_enqueue() is reached and again at the end: the octets between the new and the old start of the message
    (what msgb_push() prepended), the payload, the queue the message went to.  Required: two octets prepended -
    the DLCI argument and one constant, the first octets after the opening flag -; the message sits once on the
    queue indexed by the DLCI, and was complete when it got there (the pull may run at any moment after that:
    `all interleavings of sendmsg and pull`)."""
    R = "C06.R4"
    L.fn(F, SEND)
    probe = fold_start(RxFold, tu, mtu, (REG,))
    free = [d for d in range(256) if probe.call(REG, [d, ("@", "handler", d)]) == 0]
    if len(free) < 2:
        raise AnalysisError("%s() accepts fewer than 2 DLCIs" % REG)
    payload = [0xA1, 0xA2, 0xA3]
    seen = []
    for d in (free[0], free[-1]):
        tx = fold_start(TxFold, tu, mtu, (SEND, RX_ALLOC_FN, "msgb_put"))
        try:
            m = tx.call(RX_ALLOC_FN, [len(payload)])
            at = tx.call("msgb_put", [m, len(payload)]) if m == ("@", "obj", 0) else None
            if not (_sym(at) and at[1] == "buf"):
                raise AnalysisError("%s(): the evaluation does not arrive at a witness message" % SEND)
            for k, o in enumerate(payload):
                tx.mem[at[2] + k] = o
            tx.cut = at[2]
            tx.call(SEND, [d, m])
        except _Abort as e:
            raise AnalysisError("%s(): %s() reached on a witness message" % (SEND, e))
        if tx.obj is None:
            raise AnalysisError("%s(): the message is released while it is queued -- unclassifiable" % SEND)
        final = tx.message(at[2])
        queued = sorted((q, len(v)) for q, v in tx.queues.items() if v)
        seen.append((d, final, tx.enq_snap, queued))
    hdr = [(d, f[0] if f else None) for d, f, _, _ in seen]
    consts = {h[1] for _, h in hdr if h is not None and len(h) == 2}
    L.ob("C06.R3", F, SEND, "two octets are prepended to the payload: [address = DLCI argument, control "
         "constant], i.e. they are the first octets after the opening flag",
         "; ".join("dlci %d: [%s, c] + payload" % (d, hx(d)) for d, _ in hdr),
         "; ".join("dlci %d: %s" % (d, "header does not evaluate" if h is None else "[%s] + %s" % (
             ", ".join("??" if o is None else hx(o) for o in h), "payload" if f[1] == tuple(payload) else "altered payload"))
             for (d, h), (_, f, _, _) in zip(hdr, seen)),
         all(h is not None and len(h) == 2 and h[0] == d and isinstance(h[1], int) for d, h in hdr) and len(consts) == 1
         and all(f is not None and f[1] == tuple(payload) for _, f, _, _ in seen), tu.line(tu.func(SEND)))
    L.ob(R, F, SEND, "the message is enqueued once, after the header was written, on the queue indexed "
         "by the DLCI argument", "; ".join("dlci %d: complete message once on %s[%d]" % (d, QUEUES, d) for d, _, _, _ in seen),
         "; ".join("dlci %d: %s, %s" % (d, "complete" if snap == [f] else "%d enqueue(s), message %s at that time" % (
             len(snap), "differs" if snap else "absent"), ", ".join("%d on %s" % (n, q) for q, n in queued) or "on no queue")
             for d, f, snap, queued in seen),
         all(snap == [f] and queued == [("%s[%d]" % (QUEUES, d), 1)] for d, f, snap, queued in seen), tu.line(tu.func(SEND)))


# ------------------------------------------------------- C06.R5 (thorough)

SEARCH = (("fw", "src/target/firmware"), ("osmocon", "src/host/osmocon"))
COMMON_DEFINES = ('GIT_REVISION="analysis"', 'PACKAGE_VERSION="analysis"')
FILE_DEFINES = {"src/target/firmware/calypso/tpu.c": ("TPU_DEBUG",)}   # call site under #ifdef
FW_STUBS = {"sys/time.h": "#pragma once\nstruct timeval { long tv_sec; long tv_usec; };\n",
            "unistd.h": "#pragma once\n"}
SEND = "sercomm_sendmsg"
REG = "sercomm_register_rx_cb"


def ident_count(src, name):
    """Occurrences of an identifier outside comments and strings (used to
    locate call sites and to notice sites hidden by the preprocessor)."""
    clean = strip_comments(src)
    n, i = 0, 0
    while True:
        i = clean.find(name, i)
        if i < 0:
            return n
        before = clean[i - 1] if i else " "
        after = clean[i + len(name)] if i + len(name) < len(clean) else " "
        if not (before.isalnum() or before == "_" or after.isalnum() or after == "_"):
            line_start = clean.rfind("\n", 0, i) + 1
            if clean[line_start:i].count('"') % 2 == 0:
                n += 1
        i += len(name)


class Origin:
    def __init__(self, tu, limit):
        self.tu = tu
        self.limit = limit
        self.own = own_functions(tu)
        self.fn_of = {}
        for name, fn in self.own.items():
            for n in walk(fn):
                self.fn_of[id(n)] = name
        self.registered = set()
        for name, fn in self.own.items():
            for c in calls_to(fn, REG):
                a = strip(call_args(c)[1], casts=True)
                if kind(a) == "UnaryOperator" and a.get("opcode") == "&":
                    a = strip(kids(a)[0], casts=True)
                if kind(a) == "DeclRefExpr":
                    self.registered.add(a.get("referencedDecl", {}).get("name"))

    def of(self, fname, e, depth=0):
        """(ok, description) of the value of expression e in function fname."""
        tu = self.tu
        v = tu.fold(e)
        if v is not None:
            return (0 <= v < self.limit, "constant %d" % v)
        if depth > 3:
            raise AnalysisError("%s(): origin of DLCI `%s` deeper than 3 calls -- unclassifiable" % (fname, ctext(e)))
        e = strip(e, casts=True)
        fn = self.own[fname]
        if kind(e) == "DeclRefExpr":
            rd = e.get("referencedDecl", {})
            if rd.get("kind") == "ParmVarDecl":
                ids = [p.get("id") for p in tu.fparams(fn)]
                if rd.get("id") not in ids:
                    raise AnalysisError("%s(): parameter `%s` not found" % (fname, ctext(e)))
                i = ids.index(rd.get("id"))
                if any(ex[0] in ("store", "compound", "incdec") and ref_id(ex[1]) == rd.get("id")
                       for ex in effects(tu.body(fn))):
                    raise AnalysisError("%s(): DLCI parameter `%s` is modified -- unclassifiable" % (fname, ctext(e)))
                res = []
                if fname in self.registered:
                    if i != 0:
                        return (False, "parameter %d of handler %s" % (i, fname))
                    res.append((True, "handed over by dispatch_rx_msg to handler %s()" % fname))
                sites = []
                for cname, cfn in self.own.items():
                    for c in calls_to(cfn, fname):
                        sites.append((cname, c))
                if not sites and not res:
                    raise AnalysisError("%s(): no caller of this function is visible in %s -- the DLCI's origin is "
                                        "unclassifiable" % (fname, tu.rel))
                if fn.get("storageClass") != "static" and fname not in self.registered:
                    raise AnalysisError("%s() is not static: callers in other files are not visible" % fname)
                for cname, c in sites:
                    ok, d = self.of(cname, call_args(c)[i], depth + 1)
                    res.append((ok, "%s() passes %s" % (cname, d)))
                return (all(r[0] for r in res), "; ".join(sorted({r[1] for r in res})))
            if rd.get("kind") == "VarDecl":
                defs = []
                for ex in effects(tu.body(fn)):
                    if ex[0] == "decl" and ex[1].get("id") == rd.get("id") and ex[2] is not None:
                        defs.append(ex[2])
                    elif ex[0] == "store" and ref_id(ex[1]) == rd.get("id"):
                        defs.append(ex[2])
                    elif ex[0] in ("compound", "incdec") and ref_id(ex[1]) == rd.get("id"):
                        raise AnalysisError("%s(): DLCI variable `%s` is modified -- unclassifiable" % (fname, ctext(e)))
                if not defs:
                    raise AnalysisError("%s(): DLCI variable `%s` has no visible definition" % (fname, ctext(e)))
                res = [self.of(fname, d, depth + 1) for d in defs]
                return (all(r[0] for r in res), "; ".join(sorted({r[1] for r in res})))
        if kind(e) == "MemberExpr":
            mid = e.get("referencedMemberDecl")
            res = []
            for cname, cfn in self.own.items():
                for ex in effects(tu.body(cfn)):
                    if ex[0] in ("store", "compound", "incdec") and kind(ex[1]) == "MemberExpr" and \
                            ex[1].get("referencedMemberDecl") == mid:
                        if ex[0] != "store":
                            raise AnalysisError("%s(): field `%s` modified in place -- unclassifiable" % (cname, ctext(ex[1])))
                        ok, d = self.of(cname, ex[2], depth + 1)
                        res.append((ok, "field .%s set in %s() from %s" % (e.get("name"), cname, d)))
            if not res:
                raise AnalysisError("%s(): no assignment of field `%s` visible" % (fname, ctext(e)))
            return (all(r[0] for r in res), "; ".join(sorted({r[1] for r in res})))
        raise AnalysisError("%s(): DLCI expression `%s` unclassifiable" % (fname, ctext(e)))


def r5_callers(L, extents=None):
    """extents: build kind -> {table: extent} (C06.R11); the bound a DLCI must respect is the extent of the table it
    indexes in sercomm.c of the same build, not the value of an enumerator that happens to be visible here."""
    R = "C06.R5"
    located = []
    for kindname, top in SEARCH:
        root = os.path.join(L.repo, top)
        if not os.path.isdir(root):
            raise AnalysisError("directory %s vanished" % top)
        for dp, dn, fnames in os.walk(root):
            dn.sort()
            for fnm in sorted(fnames):
                if not fnm.endswith(".c"):
                    continue
                p = os.path.join(dp, fnm)
                try:
                    with open(p, encoding="utf-8", errors="replace") as fh:
                        src = fh.read()
                except OSError as e:
                    raise AnalysisError("cannot read %s: %s" % (p, e))
                n = ident_count(src, SEND)
                if n:
                    located.append((kindname, top, os.path.relpath(p, L.repo), n))
    L.floor(R, "files mentioning sercomm_sendmsg", len(located), 3)
    stub = tempfile.mkdtemp(prefix="vsa-c06-", dir=os.environ.get("TMPDIR") or "/var/tmp")
    nsites = 0
    try:
        for rel_, txt in FW_STUBS.items():
            os.makedirs(os.path.dirname(os.path.join(stub, rel_)), exist_ok=True)
            with open(os.path.join(stub, rel_), "w") as fh:
                fh.write(txt)
        for kindname, top, rel_, ntext in located:
            tu = TU(L.repo, kindname, os.path.relpath(rel_, top), L=L,
                    defines=COMMON_DEFINES + FILE_DEFINES.get(rel_, ()),
                    extra_flags=("-I", stub) if kindname == "fw" else ())
            limit = (extents or {}).get(kindname, {}).get(QUEUES)
            if limit is None:
                limit = tu.enums.get("_SC_DLCI_MAX")
            if limit is None:
                raise AnalysisError("_SC_DLCI_MAX not visible in %s" % rel_)
            org = Origin(tu, limit)
            nast = 0
            main = os.path.basename(rel_)
            for d in kids(tu.ast):
                if kind(d) == "FunctionDecl" and d.get("name") == SEND and os.path.basename(d.get("_file") or "") == main:
                    nast += 1
            for name, fn in sorted(org.own.items()):
                for n in walk(tu.body(fn)):
                    if kind(n) == "DeclRefExpr" and n.get("referencedDecl", {}).get("name") == SEND:
                        nast += 1
                        par = tu.parent.get(id(n))
                        while par is not None and kind(par) in ("ImplicitCastExpr", "ParenExpr"):
                            par = tu.parent.get(id(par))
                        if kind(par) == "CallExpr" and strip(kids(par)[0]) is n:
                            nsites += 1
                            L.fn(tu.rel, name)
                            arg = call_args(par)[0]
                            ok, d = org.of(name, arg)
                            L.ob(R, tu.rel, name, "DLCI argument `%s` of sercomm_sendmsg indexes tx.dlci_queues[] unchecked: "
                                 "it is a constant below _SC_DLCI_MAX or a DLCI handed over by dispatch_rx_msg" % ctext(arg),
                                 "< %d" % limit, d, ok, tu.line(par))
                        else:
                            # the function used as a value: only as a registered receive handler
                            while par is not None and kind(par) in ("UnaryOperator", "ImplicitCastExpr", "ParenExpr"):
                                par = tu.parent.get(id(par))
                            isreg = kind(par) == "CallExpr" and ctext(kids(par)[0]) == REG
                            L.ob(R, tu.rel, name, "sercomm_sendmsg used as a value: only as a receive handler (its DLCI then "
                                 "passed dispatch_rx_msg's bound)", "argument of %s" % REG,
                                 ctext(par) if par is not None else "?", isreg, tu.line(n))
            if nast < ntext:
                raise AnalysisError("%s mentions sercomm_sendmsg %d times but only %d references are visible in the parsed "
                                    "configuration (call site hidden by the preprocessor)" % (rel_, ntext, nast))
    finally:
        shutil.rmtree(stub, ignore_errors=True)
    full = os.path.isdir(os.path.join(L.repo, "src/target/firmware/apps"))
    L.floor(R, "sercomm_sendmsg call sites", nsites, 15 if full else 2)


# ------------------------------------------------- C06.R6 callers of the pull
#
# "Every octet handed out by the transmitter reaches the wire, in order."
# sercomm_drv_pull() hands the framed stream out one octet per successful
# call; the octet then lives in storage of the caller.  Each caller is
# executed abstractly on its statement CFG: integer locals are concrete, the
# outcome of every pull is followed both ways (0: nothing stored, 1: one
# octet stored through the argument), every other call result / non-local
# read is an opaque symbol whose tests are followed both ways under recorded
# path facts.  A pulled octet is a token that moves with assignments; it is
# "forwarded" when it (or a value computed from it) becomes a call argument,
# is stored into non-local memory or returned, or when its buffer cell is
# covered by write(fd, buf, n).  It is LOST when its storage is overwritten
# or goes out of scope (function return) while still pending -- whatever the
# surrounding code looks like, that octet never reaches the wire.

PULL = "sercomm_drv_pull"
WIRE_SINKS = {"write": (1, 2)}     # POSIX write(fd, buf, n) sends buf[0] .. buf[n-1] in index order (trusted)
R6_STATES_BASE, R6_STATES_PER_CELL = 2000, 40    # budget of the path exploration: base + per cell of the largest pull buffer
R6_SKIP_FILES = (F,)               # the definition itself


def c_wrap(v, qt, tukind):
    qt = (qt or "").replace("const ", "").replace("volatile ", "").strip()
    if qt in ("unsigned long", "size_t", "long", "ssize_t", "long long", "unsigned long long", "uint64_t", "int64_t"):
        bits = 32 if (tukind == "fw" and "long long" not in qt and "64" not in qt) else 64
        signed = qt in ("long", "ssize_t", "long long", "int64_t")
        v &= (1 << bits) - 1
        if signed and v >= 1 << (bits - 1):
            v -= 1 << bits
        return v
    if qt == "_Bool":
        return int(bool(v))
    return wrap_int(v, qt)


def key_deps(k):
    """Leaves (symbols, memory reads) an opaque key is built from."""
    if not isinstance(k, tuple):
        return frozenset()
    if k[0] in ("sym", "mem", "uninit"):
        return frozenset([k])
    out = frozenset()
    for x in k[1:]:
        out |= key_deps(x)
    return out


def key_text(k):
    if not isinstance(k, tuple):
        return str(k)
    if k[0] == "sym":
        return k[2] if len(k) > 2 and k[2] else "<value %d>" % k[1]
    if k[0] == "mem":
        return k[1]
    if k[0] == "uninit":
        return "<uninitialised>"
    if k[0] == "op":
        return "(%s %s %s)" % (key_text(k[2]), k[1], key_text(k[3]))
    if k[0] == "un":
        return "%s%s" % (k[1], key_text(k[2]))
    return "<%s>" % k[0]


class PState:
    __slots__ = ("env", "pending", "facts", "risk", "born")

    def __init__(self):
        self.env = {}          # (decl id, index | None) / ("mem", text) -> value
        self.pending = ()      # ascending seqs of octets pulled and not yet forwarded
        self.facts = {}        # opaque key -> (("eq", v) | ("ne", frozenset), stale)
        self.risk = None       # why the feasibility of this path is not decided
        self.born = {}         # seq -> (site index, witness text)

    def copy(self):
        s = PState()
        s.env = dict(self.env)
        s.pending = self.pending
        s.facts = dict(self.facts)
        s.risk = self.risk
        s.born = dict(self.born)
        return s

    def key(self, nid):
        return (nid, frozenset(self.env.items()), self.pending, frozenset(self.facts.items()), self.risk is not None)


class PullExec:
    """Abstract execution of one caller of sercomm_drv_pull()."""

    def __init__(self, tu, fname, fn):
        self.tu, self.fname, self.fn = tu, fname, fn
        self.g = CCFG(tu, fn)
        body = tu.body(fn)
        self.locals = {}
        for n in walk(fn):
            if kind(n) in ("VarDecl", "ParmVarDecl") and n.get("storageClass") not in ("static", "extern") and "id" in n:
                self.locals[n["id"]] = n
        self.sites = calls_to(body, PULL)
        self.site_ix = {id(c): i for i, c in enumerate(self.sites)}
        self.pulls = [0] * len(self.sites)        # successful pulls explored per site
        self.lost = {}                            # (site, how) -> witness
        self.disorder = set()
        self.sinks = 0
        self.undecided = []
        self.nstates = 0
        self.dests = set()
        for c in self.sites:
            for x in walk(call_args(c)[0]):
                if kind(x) == "DeclRefExpr" and x.get("referencedDecl", {}).get("id") in self.locals:
                    self.dests.add(x["referencedDecl"]["id"])
        self.relevant = self._relevant(body)
        ext = [array_extent(d.get("type", {}).get("qualType")) or 1 for d in self.locals.values()] or [1]
        self.max_states = R6_STATES_BASE + R6_STATES_PER_CELL * max(ext)

    # -- which locals steer control flow, indices or call arguments ------------
    def _relevant(self, body):
        def refs(n):
            return {x["referencedDecl"]["id"] for x in walk(n) if kind(x) == "DeclRefExpr" and
                    x.get("referencedDecl", {}).get("id") in self.locals}
        rel = set(self.dests)
        for n in self.g.nodes:
            if n.kind in ("cond", "switch") and n.cond is not None:
                rel |= refs(n.cond)
        defs = []
        for n in walk(body):
            k = kind(n)
            if k == "CallExpr":
                for a in kids(n):
                    rel |= refs(a)
            elif k == "ArraySubscriptExpr":
                rel |= refs(kids(n)[1])
            elif k == "ConditionalOperator":
                rel |= refs(kids(n)[0])
            elif k == "BinaryOperator" and n.get("opcode") in ("&&", "||"):
                rel |= refs(n)
            elif k == "BinaryOperator" and n.get("opcode") in ("+", "-") and "*" in n.get("type", {}).get("qualType", ""):
                rel |= refs(n)
            elif k == "UnaryOperator" and n.get("opcode") == "*":
                rel |= refs(n)
            elif k == "ReturnStmt":
                rel |= refs(n)
            elif k in ("BinaryOperator", "CompoundAssignOperator") and n.get("opcode", "").endswith("=") \
                    and n.get("opcode") not in CMP:
                lhs = strip(kids(n)[0])
                i = ref_id(lhs)
                if i is None:
                    rel |= refs(n)            # store through something else than a plain local
                else:
                    defs.append((i, refs(kids(n)[1])))
            elif k == "VarDecl" and n.get("init") and n.get("id") in self.locals:
                defs.append((n["id"], refs(n)))
        changed = True
        while changed:
            changed = False
            for (i, r) in defs:
                if i in rel and not r <= rel:
                    rel |= r
                    changed = True
        return rel

    # -- values ---------------------------------------------------------------
    def fresh(self, st, label=None):
        used = set()
        for v in st.env.values():
            if type(v) is tuple and v[0] == "opq" and v[1][0] not in ("spent", "uninit", "lit", "mem"):
                used |= {d[1] for d in key_deps(v[1]) if d[0] == "sym"}
        for k in st.facts:
            used |= {d[1] for d in key_deps(k) if d[0] == "sym"}
        n = 0
        while n in used:
            n += 1
        return ("opq", ("sym", n, label))

    def witness(self, st):
        parts = []
        for (k, v) in st.env.items():
            if isinstance(v, int) and k[0] != "mem" and k[1] is None and k[0] in self.locals:
                parts.append("%s = %d" % (self.locals[k[0]].get("name"), v))
        return ", ".join(sorted(parts))

    def holders(self, st, seq, but=None):
        return [k for k, v in st.env.items() if k != but and isinstance(v, tuple) and v[0] == "oct" and seq in v[1]]

    def die(self, st, val, cell, how):
        """The value of `cell` is destroyed: pending octets held nowhere else are lost."""
        if not (isinstance(val, tuple) and val[0] == "oct"):
            return
        for seq in sorted(val[1]):
            if seq in st.pending and not self.holders(st, seq, but=cell):
                site, wit = st.born.get(seq, (None, ""))
                msg = "octet pulled%s is %s" % (" with %s" % wit if wit else "", how)
                if st.risk:
                    self.undecided.append("%s (path feasibility undecided: %s)" % (msg, st.risk))
                else:
                    cur = self.lost.get((site, how))
                    if cur is None or (len(wit), wit) < (len(cur), cur):
                        self.lost[(site, how)] = wit
                st.pending = tuple(x for x in st.pending if x != seq)
                st.facts.pop(("octtest", seq), None)

    def consume(self, st, val):
        if not (isinstance(val, tuple) and val[0] == "oct"):
            return
        gone = val[1]
        if not (set(gone) & set(st.pending)):
            return
        st.pending = tuple(x for x in st.pending if x not in gone)
        for seq in gone:
            st.facts.pop(("octtest", seq), None)
        for k, v in list(st.env.items()):
            if isinstance(v, tuple) and v[0] == "oct" and v[1] & gone:
                rest = v[1] - gone
                st.env[k] = ("oct", rest) if rest else ("opq", ("spent",))
        if not st.pending:
            st.born = {}

    # -- facts ------------------------------------------------------------------
    def add_fact(self, st, key, con):
        dk = key_deps(key)
        for other in st.facts:
            if other == key or not (dk & key_deps(other)):
                continue
            a, b = key, other
            indep = (a[0] == "op" and b[0] == "op" and a[1] == "&" and b[1] == "&" and a[2] == b[2] and
                     isinstance(a[3], int) and isinstance(b[3], int) and not (a[3] & b[3]))
            if not indep and st.risk is None:
                st.risk = "tests of `%s` and `%s` may be correlated" % (key_text(other), key_text(key))
        st.facts[key] = (con, False)

    def decide_eq(self, st, key, k):
        """[(truth of key == k, state)]"""
        f = st.facts.get(key)
        if f is not None:
            con, stale = f
            if stale and st.risk is None:
                st.risk = "`%s` is tested again after a call that may have changed it" % key_text(key)
            if con[0] == "eq":
                return [(con[1] == k, st)]
            if k in con[1]:
                return [(False, st)]
            ne = con[1]
        else:
            ne = frozenset()
        s2 = st.copy()
        self.add_fact(st, key, ("eq", k))
        self.add_fact(s2, key, ("ne", ne | {k}))
        return [(True, st), (False, s2)]

    def truth(self, v, st):
        if isinstance(v, int):
            return [(v != 0, st)]
        if v[0] in ("ptr",):
            return [(True, st)]
        if v[0] == "oct":
            self.octet_tested(st, v)
            return [(True, st), (False, st.copy())]         # the octet's value is arbitrary
        return [(not t, s) for (t, s) in self.decide_eq(st, v[1], 0)]

    def octet_tested(self, st, v):
        """Tests of a pulled octet's value are followed both ways; a second test of the same octet may be
        correlated with the first one, which this analysis does not model."""
        for seq in v[1]:
            k = ("octtest", seq)
            if k in st.facts and st.risk is None:
                st.risk = "the value of a pulled octet is tested more than once"
            st.facts[k] = (("ne", frozenset()), False)

    def stale_all(self, st):
        for k, (con, stale) in list(st.facts.items()):
            if not stale and any(d[0] == "mem" for d in key_deps(k)):
                st.facts[k] = (con, True)

    # -- lvalues ------------------------------------------------------------------
    def lvalue(self, e, st):
        """[(location, state)]: ('cell', decl, index|None) | ('cellunk', decl) | ('mem', text)"""
        e = strip(e)
        k = kind(e)
        if k == "DeclRefExpr":
            rd = e.get("referencedDecl", {})
            if rd.get("id") in self.locals:
                return [(("cell", rd["id"], None), st)]
            return [(("mem", rd.get("name")), st)]
        if k == "ArraySubscriptExpr":
            out = []
            b, i = kids(e)
            for (bv, s1) in self.ev(b, st):
                for (iv, s2) in self.ev(i, s1):
                    out.append((self.element(bv, iv, e), s2))
            return out
        if k == "UnaryOperator" and e.get("opcode") == "*":
            return [(self.element(pv, 0, e), s1) for (pv, s1) in self.ev(kids(e)[0], st)]
        if k == "MemberExpr":
            if effects(e):
                raise AnalysisError("%s(): side effect inside the lvalue `%s` -- unclassifiable" % (self.fname, ctext(e)))
            return [(("mem", ctext(e)), st)]
        raise AnalysisError("%s(): lvalue `%s` (%s) is outside the vocabulary of the pull-caller analysis" % (
            self.fname, ctext(e), k))

    def element(self, bv, iv, e):
        if isinstance(bv, tuple) and bv[0] == "ptr":
            d, i0 = bv[1], bv[2]
            if i0 is None:
                if iv == 0:
                    return ("cell", d, None)
                raise AnalysisError("%s(): `%s` indexes a scalar -- unclassifiable" % (self.fname, ctext(e)))
            if not isinstance(iv, int):
                return ("cellunk", d)
            ext = array_extent(self.locals[d].get("type", {}).get("qualType"))
            if ext is None or not (0 <= i0 + iv < ext):
                raise AnalysisError("%s(): `%s` lies outside `%s` (index %d) -- outside the model of the pull-caller "
                                    "analysis" % (self.fname, ctext(e), self.locals[d].get("name"), i0 + iv))
            return ("cell", d, i0 + iv)
        return ("mem", ctext(e))

    def tracked(self, d):
        return d in self.relevant

    def has_octets(self, st, d):
        return any(k[0] != "mem" and k[0] == d and isinstance(v, tuple) and v[0] == "oct"
                   for k, v in st.env.items())

    def load(self, e, st):
        out = []
        for (loc, s) in self.lvalue(e, st):
            if loc[0] == "cell":
                v = s.env.get((loc[1], loc[2]))
                if v is None:
                    v = ("opq", ("uninit", loc[1], loc[2])) if self.tracked(loc[1]) else self.fresh(s)
            elif loc[0] == "cellunk":
                if loc[1] in self.dests or self.has_octets(s, loc[1]):
                    raise AnalysisError("%s(): `%s` reads the pull buffer at a position the analysis cannot resolve "
                                        "-- unclassifiable" % (self.fname, ctext(e)))
                v = self.fresh(s)
            else:
                v = s.env.get(loc)
                if v is None:
                    v = ("opq", loc)
            out.append((v, s))
        return out

    def store(self, loc, v, st, e):
        if loc[0] == "cell":
            cell = (loc[1], loc[2])
            if not self.tracked(loc[1]):
                return
            old = st.env.get(cell)
            if old is not None:
                self.die(st, old, cell, "overwritten by `%s` before it was forwarded" % ctext(e))
            st.env[cell] = v
        elif loc[0] == "cellunk":
            if loc[1] in self.dests or self.has_octets(st, loc[1]):
                raise AnalysisError("%s(): `%s` writes the pull buffer at a position the analysis cannot resolve "
                                    "-- unclassifiable" % (self.fname, ctext(e)))
        else:
            self.consume(st, v)                    # leaves the function's own storage
            for k in [k for k in st.facts if loc in key_deps(k)]:
                del st.facts[k]
            if isinstance(v, int) or (isinstance(v, tuple) and v[0] == "opq"):
                st.env[loc] = v
            else:
                st.env.pop(loc, None)

    # -- expressions -----------------------------------------------------------
    def arith(self, op, a, b, e):
        qt = e.get("type", {}).get("qualType")
        if isinstance(a, int) and isinstance(b, int):
            try:
                if op in ("/", "%"):
                    if b == 0:
                        raise AnalysisError("%s(): division by zero in `%s`" % (self.fname, ctext(e)))
                    q = abs(a) // abs(b) * (1 if (a < 0) == (b < 0) else -1)
                    r = q if op == "/" else a - b * q
                else:
                    r = {"+": a + b, "-": a - b, "*": a * b, "<<": a << b if 0 <= b < 64 else None,
                         ">>": a >> b if 0 <= b < 64 else None, "&": a & b, "|": a | b, "^": a ^ b,
                         "<": int(a < b), ">": int(a > b), "<=": int(a <= b), ">=": int(a >= b),
                         "==": int(a == b), "!=": int(a != b)}.get(op)
            except (ValueError, OverflowError):
                r = None
            if r is None:
                raise AnalysisError("%s(): `%s` does not fold" % (self.fname, ctext(e)))
            return c_wrap(r, qt, self.tu.kind)
        pa = isinstance(a, tuple) and a[0] == "ptr"
        pb = isinstance(b, tuple) and b[0] == "ptr"
        if pa and isinstance(b, int) and op in ("+", "-") and a[2] is not None:
            return ("ptr", a[1], a[2] + (b if op == "+" else -b))
        if pb and isinstance(a, int) and op == "+" and b[2] is not None:
            return ("ptr", b[1], b[2] + a)
        if pa or pb:
            if pa and pb and a[1] == b[1] and a[2] is not None and b[2] is not None and op in CMP + ("-",):
                return self.arith(op, a[2], b[2], {"type": {"qualType": "long"}})
            raise AnalysisError("%s(): pointer expression `%s` -- unclassifiable" % (self.fname, ctext(e)))
        oa = isinstance(a, tuple) and a[0] == "oct"
        ob = isinstance(b, tuple) and b[0] == "oct"
        if oa or ob:
            if op in CMP:
                return ("octcmp", (a[1] if oa else frozenset()) | (b[1] if ob else frozenset()))
            return ("oct", (a[1] if oa else frozenset()) | (b[1] if ob else frozenset()))
        ka = a if isinstance(a, int) else a[1]
        kb = b if isinstance(b, int) else b[1]
        if op in ("==", "!="):
            if ka == kb:
                return int(op == "==")
            if isinstance(kb, int) or isinstance(ka, int):
                return ("cmp", op, ka if isinstance(kb, int) else kb, kb if isinstance(kb, int) else ka)
        return ("opq", ("op", op, ka, kb))

    def ev(self, e, st):
        """[(value, state)] of an expression evaluated for value and side effects."""
        if e is None:
            return [(0, st)]
        k = kind(e)
        ks = kids(e)
        if k in ("ParenExpr", "ConstantExpr"):
            return self.ev(ks[0], st)
        if k in ("IntegerLiteral", "CharacterLiteral", "UnaryExprOrTypeTraitExpr"):
            v = self.tu.fold(e)
            if v is None:
                raise AnalysisError("%s(): `%s` does not fold" % (self.fname, ctext(e)))
            return [(v, st)]
        if k in ("StringLiteral", "FloatingLiteral", "PredefinedExpr", "CompoundLiteralExpr", "InitListExpr",
                 "ImplicitValueInitExpr"):
            return [(("opq", ("lit", ctext(e))), st)]
        if k in ("ImplicitCastExpr", "CStyleCastExpr"):
            ck = e.get("castKind")
            if ck == "LValueToRValue":
                return self.load(ks[-1], st)
            if ck == "ArrayToPointerDecay":
                sub = strip(ks[-1])
                if kind(sub) == "StringLiteral":
                    return [(("opq", ("lit", ctext(sub))), st)]
                out = []
                for (loc, s) in self.lvalue(sub, st):
                    if loc[0] == "cell" and loc[2] is None:
                        out.append((("ptr", loc[1], 0), s))
                    elif loc[0] == "mem":
                        out.append((("opq", ("mem", "&" + str(loc[1]))), s))
                    else:
                        raise AnalysisError("%s(): array `%s` -- unclassifiable" % (self.fname, ctext(sub)))
                return out
            if ck in ("FunctionToPointerDecay", "BuiltinFnToFnPtr"):
                return [(("opq", ("lit", ctext(ks[-1]))), st)]
            out = []
            qt = e.get("type", {}).get("qualType")
            for (v, s) in self.ev(ks[-1], st):
                if isinstance(v, int):
                    if ck == "IntegralToBoolean":
                        v = int(v != 0)
                    elif ck in ("IntegralCast", "NoOp", None) or k == "CStyleCastExpr":
                        v = c_wrap(v, qt, self.tu.kind)
                out.append((v, s))
            return out
        if k == "DeclRefExpr":
            rd = e.get("referencedDecl", {})
            if rd.get("kind") == "EnumConstantDecl":
                v = self.tu.fold(e)
                if v is not None:
                    return [(v, st)]
            if rd.get("kind") == "FunctionDecl":
                return [(("opq", ("lit", rd.get("name"))), st)]
            return self.load(e, st)                    # array / struct used as a value
        if k in ("MemberExpr", "ArraySubscriptExpr"):
            return self.load(e, st)
        if k == "UnaryOperator":
            op = e.get("opcode")
            if op == "&":
                out = []
                for (loc, s) in self.lvalue(ks[0], st):
                    if loc[0] == "cell":
                        d = loc[1]
                        isarr = array_extent(self.locals[d].get("type", {}).get("qualType")) is not None
                        out.append((("ptr", d, loc[2] if (loc[2] is not None or not isarr) else 0), s))
                    elif loc[0] == "cellunk":
                        raise AnalysisError("%s(): `%s` points into the buffer at a position the analysis cannot "
                                            "resolve -- unclassifiable" % (self.fname, ctext(e)))
                    else:
                        out.append((("opq", ("mem", "&" + str(loc[1]))), s))
                return out
            if op == "*":
                return self.load(e, st)
            if op in ("++", "--"):
                out = []
                for (loc, s) in self.lvalue(ks[0], st):
                    for (old, s2) in self.load(ks[0], s):
                        new = self.arith("+" if op == "++" else "-", old, 1, e)
                        self.store(loc, new, s2, e)
                        out.append((old if e.get("isPostfix") else new, s2))
                return out
            out = []
            for (v, s) in self.ev(ks[0], st):
                if op == "!":
                    for (t, s2) in self.truth(v, s):
                        out.append((int(not t), s2))
                elif isinstance(v, int):
                    r = {"-": -v, "+": v, "~": ~v}.get(op)
                    if r is None:
                        raise AnalysisError("%s(): operator `%s` -- unclassifiable" % (self.fname, op))
                    out.append((c_wrap(r, e.get("type", {}).get("qualType"), self.tu.kind), s))
                elif v[0] == "oct":
                    out.append((v, s))
                elif v[0] == "opq":
                    out.append((("opq", ("un", op, v[1])), s))
                else:
                    raise AnalysisError("%s(): `%s` -- unclassifiable" % (self.fname, ctext(e)))
            return out
        if k == "BinaryOperator":
            op = e.get("opcode")
            if op == "=":
                out = []
                for (v, s) in self.ev(ks[1], st):
                    for (loc, s2) in self.lvalue(ks[0], s):
                        self.store(loc, v, s2, e)
                        out.append((v, s2))
                return out
            if op == ",":
                out = []
                for (_, s) in self.ev(ks[0], st):
                    out += self.ev(ks[1], s)
                return out
            if op in ("&&", "||"):
                out = []
                for (a, s) in self.ev(ks[0], st):
                    for (ta, s2) in self.truth(a, s):
                        if ta == (op == "||"):
                            out.append((int(ta), s2))
                        else:
                            for (b, s3) in self.ev(ks[1], s2):
                                for (tb, s4) in self.truth(b, s3):
                                    out.append((int(tb), s4))
                return out
            out = []
            for (a, s) in self.ev(ks[0], st):
                for (b, s2) in self.ev(ks[1], s):
                    r = self.arith(op, a, b, e)
                    if isinstance(r, tuple) and r[0] == "octcmp":
                        self.octet_tested(s2, r)
                        out.append((self.fresh(s2), s2))
                    elif isinstance(r, tuple) and r[0] == "cmp":
                        for (t, s3) in self.decide_eq(s2, r[2], r[3]):
                            out.append((int(t == (r[1] == "==")), s3))
                    else:
                        out.append((r, s2))
            return out
        if k == "CompoundAssignOperator":
            op = e.get("opcode")[:-1]
            out = []
            for (b, s) in self.ev(ks[1], st):
                for (loc, s2) in self.lvalue(ks[0], s):
                    for (a, s3) in self.load(ks[0], s2):
                        r = self.arith(op, a, b, e)
                        if isinstance(r, tuple) and r[0] in ("cmp", "octcmp"):
                            r = self.fresh(s3)
                        self.store(loc, r, s3, e)
                        out.append((r, s3))
            return out
        if k == "ConditionalOperator":
            out = []
            for (c, s) in self.ev(ks[0], st):
                for (t, s2) in self.truth(c, s):
                    out += self.ev(ks[1] if t else ks[2], s2)
            return out
        if k == "CallExpr":
            return self.call(e, st)
        raise AnalysisError("%s(): expression `%s` (%s) is outside the vocabulary of the pull-caller analysis" % (
            self.fname, ctext(e), k))

    def call(self, e, st):
        ks = kids(e)
        callee = strip(ks[0])
        name = None
        if kind(callee) == "DeclRefExpr" and callee.get("referencedDecl", {}).get("kind") == "FunctionDecl":
            name = callee["referencedDecl"].get("name")
        states = [([], st)]
        if name is None:
            states = [([], s) for (_, s) in self.ev(ks[0], st)]
        for a in ks[1:]:
            nxt = []
            for (vals, s) in states:
                for (v, s2) in self.ev(a, s):
                    nxt.append((vals + [v], s2))
            states = nxt
        out = []
        for (vals, s) in states:
            out += self.apply_call(name, e, vals, s)
        return out

    def apply_call(self, name, e, vals, st):
        line = self.tu.line(e)
        if name == PULL:
            dst = vals[0] if vals else None
            if not (isinstance(dst, tuple) and dst[0] == "ptr" and dst[1] in self.locals):
                raise AnalysisError("%s(): the octet is pulled into `%s`, which is not a local object of the caller "
                                    "-- unclassifiable" % (self.fname, ctext(call_args(e)[0])))
            d, idx = dst[1], dst[2]
            if idx is not None:
                ext = array_extent(self.locals[d].get("type", {}).get("qualType"))
                if ext is None or not (0 <= idx < ext):
                    raise AnalysisError("%s(): %s(%s) stores outside `%s` (index %s) -- outside the model of the "
                                        "pull-caller analysis" % (self.fname, PULL, ctext(call_args(e)[0]),
                                                                  self.locals[d].get("name"), idx))
            self.stale_all(st)
            fail = st.copy()
            cell = (d, idx)
            old = st.env.get(cell)
            site = self.site_ix[id(e)]
            if old is not None:
                self.die(st, old, cell, "overwritten by the next %s(%s) before it was forwarded" % (
                    PULL, ctext(call_args(e)[0])))
            seq = (st.pending[-1] + 1) if st.pending else 0
            st.env[cell] = ("oct", frozenset([seq]))
            st.pending = st.pending + (seq,)
            st.born[seq] = (site, self.witness(st))
            self.pulls[site] += 1
            return [(0, fail), (1, st)]
        if name in WIRE_SINKS:
            bi, ni = WIRE_SINKS[name]
            buf = vals[bi] if bi < len(vals) else None
            n = vals[ni] if ni < len(vals) else None
            if isinstance(buf, tuple) and buf[0] == "ptr" and (buf[1] in self.dests or self.has_octets(st, buf[1])):
                d, i0 = buf[1], buf[2]
                if not isinstance(n, int) or i0 is None and n != 1:
                    raise AnalysisError("%s(): length `%s` of %s() is not a known number on this path -- unclassifiable"
                                        % (self.fname, ctext(call_args(e)[ni]), name))
                self.sinks += 1
                seqs = []
                for j in range(n):
                    v = st.env.get((d, None if i0 is None else i0 + j))
                    if not (isinstance(v, tuple) and v[0] == "oct" and len(v[1]) == 1):
                        # data that did not come from the framer: harmless between frames, fatal inside one -- no verdict
                        pre = "%s() sends `%s[" % (name, self.locals[d].get("name"))
                        if not any(m.startswith(pre) for m in self.undecided):
                            self.undecided.append("%s%d]`, which holds no pulled octet (%s) -- outside the model of the "
                                                  "pull-caller analysis" % (pre, (i0 or 0) + j,
                                                                            self.witness(st) or "no known locals"))
                        continue
                    seqs.append(list(v[1])[0])
                left = [p for p in st.pending if p not in seqs and seqs and p < max(seqs)]
                if seqs != sorted(seqs) or left:
                    msg = "%s(%s) sends octets in another order than they were pulled%s" % (
                        name, ", ".join(ctext(a) for a in call_args(e)),
                        " (an older octet is left behind)" if left else "")
                    if st.risk:
                        self.undecided.append(msg)
                    else:
                        self.disorder.add(msg)
                self.consume(st, ("oct", frozenset(seqs)))
                for i, v in enumerate(vals):
                    if i != bi:
                        self.consume(st, v)
                self.stale_all(st)
                return [(self.fresh(st, "%s()" % name), st)]
        for i, v in enumerate(vals):
            if isinstance(v, tuple) and v[0] == "oct":
                self.consume(st, v)
            elif isinstance(v, tuple) and v[0] == "ptr" and v[1] in self.locals:
                d = v[1]
                if any(k[0] != "mem" and k[0] == d and isinstance(x, tuple) and x[0] == "oct" and
                       (x[1] & set(st.pending)) for k, x in st.env.items()):
                    raise AnalysisError("%s(): the address of storage holding a pulled octet is handed to %s() -- "
                                        "unclassifiable" % (self.fname, name or ctext(kids(e)[0])))
                for k in [k for k in st.env if k[0] != "mem" and k[0] == d]:
                    del st.env[k]
                if array_extent(self.locals[d].get("type", {}).get("qualType")) is None and self.tracked(d):
                    st.env[(d, None)] = self.fresh(st)
        self.stale_all(st)
        return [(self.fresh(st, "%s()" % (name or ctext(kids(e)[0]))), st)]

    # -- statements / CFG -------------------------------------------------------
    def exec_stmt(self, a, st):
        k = kind(a)
        if a is None or k in ("DoHead", "BreakStmt", "ContinueStmt", "GotoStmt", "NullStmt"):
            return [st]
        if k == "DeclStmt":
            states = [st]
            for d in kids(a):
                if kind(d) != "VarDecl" or not d.get("init") or d.get("id") not in self.locals:
                    continue
                init = [c for c in kids(d) if "Attr" not in (kind(c) or "")][-1]
                nxt = []
                for s in states:
                    for (v, s2) in self.ev(init, s):
                        if array_extent(d.get("type", {}).get("qualType")) is None:
                            self.store(("cell", d["id"], None), v, s2, init)
                        nxt.append(s2)
                states = nxt
            return states
        if k == "ReturnStmt":
            out = []
            ks = kids(a)
            if not ks:
                return [st]
            for (v, s) in self.ev(ks[0], st):
                self.consume(s, v)
                out.append(s)
            return out
        return [s for (_, s) in self.ev(a, st)]

    def normalise(self, st):
        """Drop facts about symbols no variable holds any more and rename the live ones canonically."""
        live = []
        opq = [(k, v) for k, v in st.env.items() if type(v) is tuple and v[0] == "opq" and
               v[1][0] not in ("spent", "uninit", "lit", "mem")]
        if not opq and not st.facts:
            return
        for k, v in sorted(opq, key=str):
            for d in sorted(key_deps(v[1]), key=str):
                if d[0] == "sym" and d not in live:
                    live.append(d)
        ren = {d: ("sym", i, d[2]) for i, d in enumerate(live)}

        def rn(k):
            if not isinstance(k, tuple):
                return k
            if k[0] == "sym":
                return ren.get(k, k)
            if k[0] in ("mem", "uninit", "lit", "spent"):
                return k
            return (k[0],) + tuple(rn(x) for x in k[1:])
        for k in list(st.facts):
            deps = key_deps(k)
            if any(d[0] == "sym" and d not in ren for d in deps):
                del st.facts[k]
        if any(ren[d] != d for d in ren):
            for k, v in list(st.env.items()):
                if isinstance(v, tuple) and v[0] == "opq":
                    st.env[k] = ("opq", rn(v[1]))
            st.facts = {rn(k): f for k, f in st.facts.items()}

    def run(self):
        g = self.g
        work = [(g.entry, PState())]
        seen = set()
        while work:
            node, st = work.pop()
            self.normalise(st)
            key = st.key(node.id)
            if key in seen:
                continue
            seen.add(key)
            self.nstates += 1
            if self.nstates > self.max_states:
                raise AnalysisError("%s(): the state space of the pull-caller analysis does not close (more than %d "
                                    "states) -- unclassifiable" % (self.fname, self.max_states))
            if node is g.exit:
                for (cell, v) in list(st.env.items()):
                    if cell[0] != "mem":
                        st.env.pop(cell)
                        self.die(st, v, cell, "never forwarded before %s() returns (its storage goes out of scope)"
                                 % self.fname)
                continue
            if node is g.rexit:
                continue
            if node.kind == "cond":
                if node.cond is None:
                    for (t, l) in node.succ:
                        if l is not False:
                            work.append((t, st))
                            break
                    continue
                for (v, s) in self.ev(node.cond, st):
                    for (b, s2) in self.truth(v, s):
                        tgt = [t for (t, l) in node.succ if bool(l) == b]
                        if not tgt:
                            raise AnalysisError("%s(): branch of `%s` missing in the CFG" % (self.fname, ctext(node.cond)))
                        work.append((tgt[0], s2))
                continue
            if node.kind == "switch":
                cases = [(t, l[1]) for (t, l) in node.succ if isinstance(l, tuple)]
                dflt = [t for (t, l) in node.succ if l in ("default", "nodefault")]
                if any(not isinstance(c, int) for (_, c) in cases):
                    raise AnalysisError("%s(): case label does not fold" % self.fname)
                for (v, s) in self.ev(node.cond, st):
                    if isinstance(v, int):
                        tgt = [t for (t, c) in cases if c == v] or dflt
                        if tgt:
                            work.append((tgt[0], s))
                        continue
                    if v[0] != "opq":
                        for (t, _) in node.succ:
                            work.append((t, s.copy()))
                        continue
                    rest = s
                    for (t, c) in cases:
                        res = self.decide_eq(rest, v[1], c)
                        nxt = None
                        for (truth, s2) in res:
                            if truth:
                                work.append((t, s2))
                            else:
                                nxt = s2
                        if nxt is None:
                            rest = None
                            break
                        rest = nxt
                    if rest is not None and dflt:
                        work.append((dflt[0], rest))
                continue
            if node.kind == "stmt":
                if not node.succ:
                    raise AnalysisError("%s(): dead end in the CFG" % self.fname)
                for s in self.exec_stmt(node.ast, st):
                    work.append((node.succ[0][0], s))
                continue
            if not node.succ:
                raise AnalysisError("%s(): dead end in the CFG" % self.fname)
            work.append((node.succ[0][0], st))


def source_files(L):
    """(kind, top, relative path, text) of every C file of the firmware and of osmocon (read once per run)."""
    cache = L.__dict__.setdefault("_c06_sources", [])
    if cache:
        return cache
    for kindname, top in SEARCH:
        root = os.path.join(L.repo, top)
        if not os.path.isdir(root):
            raise AnalysisError("directory %s vanished" % top)
        for dp, dn, fnames in os.walk(root):
            dn.sort()
            for fnm in sorted(fnames):
                if not fnm.endswith(".c"):
                    continue
                p = os.path.join(dp, fnm)
                try:
                    with open(p, encoding="utf-8", errors="replace") as fh:
                        src = fh.read()
                except OSError as e:
                    raise AnalysisError("cannot read %s: %s" % (p, e))
                cache.append((kindname, top, os.path.relpath(p, L.repo), src))
    return cache


def locate_callers(L, name, skip=R6_SKIP_FILES):
    """[(kind, top, file, occurrences)] of the C files that mention the identifier outside comments and strings."""
    out = []
    for kindname, top, rel_, src in source_files(L):
        if rel_ in skip or name not in src:
            continue
        n = ident_count(src, name)
        if n:
            out.append((kindname, top, rel_, n))
    return out


def caller_tu(L, kindname, top, rel_):
    """Translation unit of a driver / application file, parsed with the include paths of its build plus
    on-the-fly stubs for the hosted headers the firmware tree lacks (one parse per run and file)."""
    cache = L.__dict__.setdefault("_c06_tus", {})
    if rel_ in cache:
        return cache[rel_]
    stub = tempfile.mkdtemp(prefix="vsa-c06-", dir=os.environ.get("TMPDIR") or "/var/tmp")
    try:
        for h, txt in FW_STUBS.items():
            os.makedirs(os.path.dirname(os.path.join(stub, h)), exist_ok=True)
            with open(os.path.join(stub, h), "w") as fh:
                fh.write(txt)
        tu = TU(L.repo, kindname, os.path.relpath(rel_, top), L=L,
                defines=COMMON_DEFINES + FILE_DEFINES.get(rel_, ()),
                extra_flags=("-I", stub) if kindname == "fw" else ())
    finally:
        shutil.rmtree(stub, ignore_errors=True)
    cache[rel_] = tu
    return tu


def r6_pull_contract(L, tu, tag, tx):
    """C06.R6 (callee side).  Callers tell 'an octet was handed out' from
    'nothing to send' by the return value alone: it is non-zero exactly on the
    paths that stored one octet through the argument."""
    R = "C06.R6"
    bad = set()
    n = 0
    for sig in list(set(tx.rows.values())) + [tx.sig(p) for p in tx.idle]:
        acts = sig[1]
        if any(a[0] == "loopcut" for a in acts):
            continue
        n += 1
        em = [a for a in acts if a[0] == "emit"]
        ret = [a[1] for a in acts if a[0] == "return"]
        if len(ret) != 1 or ret[0][0] != "const" or len(em) > 1 or (ret[0][1] != 0) != (len(em) == 1):
            bad.add(tx.describe(sig))
    L.floor(R, "walked paths of %s (%s build)" % (TX_FN, tag), n, 4)
    L.require(R, F, TX_FN, "the return value is non-zero exactly on the paths that stored one octet through the "
              "argument (what the callers forward), and 0 when nothing was stored", [], sorted(bad))


def r6_pull_callers(L):
    """C06.R6 (caller side).  Decides the clause 'queued for transmission and
    fed octet by octet into a receiver ... identical payload' at the hand-over
    from the framer to the wire: on every path of every caller, an octet
    obtained by a successful sercomm_drv_pull() is passed on before its storage
    is overwritten or goes out of scope, and a buffer handed to write() leaves
    in pull order.  An octet that dies in the caller is missing on the wire."""
    R = "C06.R6"
    located = locate_callers(L, PULL)
    full = os.path.isdir(os.path.join(L.repo, "src/target/firmware/calypso"))
    L.floor(R, "files calling %s" % PULL, len(located), 3 if full else 1)
    nsites = 0
    for kindname, top, rel_, ntext in located:
        tu = caller_tu(L, kindname, top, rel_)
        own = own_functions(tu)
        nast = 0
        for name, fn in sorted(own.items()):
            refs = [n for n in walk(tu.body(fn)) if kind(n) == "DeclRefExpr" and
                    n.get("referencedDecl", {}).get("name") == PULL]
            if not refs:
                continue
            nast += len(refs)
            sites = calls_to(tu.body(fn), PULL)
            if len(sites) != len(refs):
                raise AnalysisError("%s(): %s is used as a value (not called) -- its callers are not visible" % (name, PULL))
            L.fn(tu.rel, name)
            ex = PullExec(tu, name, fn)
            ex.run()
            nsites += len(sites)
            for i, c in enumerate(sites):
                arg = ctext(call_args(c)[0])
                L.floor(R, "explored successful %s(%s) in %s of %s" % (PULL, arg, name, tu.rel), ex.pulls[i], 1)
                found = sorted("%s%s" % (how, " [first: %s]" % wit if wit else "")
                               for (site, how), wit in ex.lost.items() if site == i)
                L.ob(R, tu.rel, name, "every octet obtained by a successful %s(%s) is passed on (call argument, or "
                     "a buffer cell covered by write()) before its storage is overwritten or goes out of scope, on "
                     "every path" % (PULL, arg), "no pulled octet is dropped",
                     found or "passed on on every path", not found, tu.line(c))
            if ex.sinks:
                L.require(R, tu.rel, name, "a buffer of pulled octets handed to write() leaves in the order the "
                          "octets were pulled, none left behind", [], sorted(ex.disorder))
            if ex.undecided:
                raise AnalysisError("%s(): %s" % (name, "; ".join(sorted(set(ex.undecided))[:2])))
        if nast < ntext:
            raise AnalysisError("%s mentions %s %d times but only %d references are visible in the parsed "
                                "configuration (call site hidden by the preprocessor)" % (rel_, PULL, ntext, nast))
    L.floor(R, "%s call sites outside sercomm.c" % PULL, nsites, 3 if full else 1)


# ------------------------------------- C06.R8 callers of the receive step keep feeding
#
# "an over-long frame is discarded ..., costing at most the one frame that follows it before reception is
# back in sync": sercomm_drv_rx_char() re-synchronises by itself, but only on octets it is given.  What its
# callers (the UART interrupt handlers, osmocon's read loop) do with its return value decides whether it is
# given any: the value that reports the discarded over-long frame (and every other value the function really
# returns) must not take the caller down a path that turns the source of received octets off.

RXCHAR = "sercomm_drv_rx_char"
RX_IRQ_FN, RX_IRQ_ENUM = "uart_irq_enable", "UART_IRQ_RX_CHAR"
RX_IRQ_ASSUMPTION = (
    "uart_irq_enable(uart, UART_IRQ_RX_CHAR, 0) masks the receive interrupt of the UART (driver API of include/uart.h): "
    "the sercomm interrupt handler, the only reader of the receive FIFO, is not entered again for received octets until "
    "some code calls uart_irq_enable(uart, UART_IRQ_RX_CHAR, <non-zero>); the files and functions that do so are "
    "collected by the rule (a handler that switches it on again itself, or a file outside the UART drivers that "
    "controls it, withholds the verdict)")


def rx_return_values(L, tu, tag, rx):
    """The values sercomm_drv_rx_char() really returns: the return terms of every walked path of the receive
    step (helpers followed), each with what the path did."""
    vals = {}
    for p in unique_paths(rx.tab):
        over = rx.room(p) is False
        for e in p.events:
            if e[0] != "return":
                continue
            t = e[1]
            if t[0] != "const":
                raise AnalysisError("%s() returns `%s`, not a constant -- the values its callers see are not enumerated"
                                    % (RX_FN, ctext_term(t)))
            vals.setdefault(t[1], set()).add("over-long frame discarded" if over else "octet taken")
    L.floor("C06.R8", "return values of %s (%s build)" % (RX_FN, tag), len(vals), 1)
    if not any("over-long frame discarded" in w for w in vals.values()):
        raise AnalysisError("%s(): no walked path discards an over-long frame -- unclassifiable" % RX_FN)
    return {v: "/".join(sorted(w)) for v, w in vals.items()}


def tv3(tu, e, env):
    """Three-valued truth of a C condition where the expressions whose text is a key of env have that value."""
    e = strip(e)
    if e is None:
        return None
    k, ks = kind(e), kids(e)
    if k == "UnaryOperator" and e.get("opcode") == "!":
        r = tv3(tu, ks[0], env)
        return None if r is None else (not r)
    if k == "BinaryOperator" and e.get("opcode") in ("&&", "||"):
        a, b = tv3(tu, ks[0], env), tv3(tu, ks[1], env)
        if e.get("opcode") == "&&":
            if a is False or b is False:
                return False
            return True if (a and b) else None
        if a is True or b is True:
            return True
        return False if (a is False and b is False) else None
    v = fold_env(tu, e, env)
    return None if v is None else bool(v)


def rx_irq_switches(tu, root, env):
    """[(what, text)] of the calls below root that switch the UART receive interrupt: uart_irq_enable() whose
    interrupt argument folds to UART_IRQ_RX_CHAR (or does not fold), what = mask (on == 0) / unmask / maybe."""
    rxc = tu.enums.get(RX_IRQ_ENUM)
    out = []
    if rxc is None:
        return out
    for e in effects(root):
        if e[0] != "call":
            continue
        cn = strip(kids(e[3])[0], casts=True)
        if kind(cn) != "DeclRefExpr" or cn.get("referencedDecl", {}).get("name") != RX_IRQ_FN or len(e[2]) != 3:
            continue
        irq, on = fold_env(tu, e[2][1], env), fold_env(tu, e[2][2], env)
        if irq is not None and irq != rxc:
            continue
        if irq is None or on is None:
            out.append(("maybe", ctext(e[3])))
        else:
            out.append(("mask" if on == 0 else "unmask", ctext(e[3])))
    return out


class RxCallerWalk:
    """One call site of a function whose return value set is known, in one caller: the caller's CFG is walked
    from the call once per value, branch conditions (and switch operands) that are functions of the result -
    directly or through integer locals it was assigned to - decided for that value, every other condition
    followed both ways, until the call is reached again or the function ends."""

    def __init__(self, tu, fname, fn, g, call, callee):
        self.tu, self.fname, self.fn, self.g, self.call, self.callee = tu, fname, fn, g, call, callee
        self.C = g.node_of(call)
        self.ctxt = ctext(call)
        self.own = own_functions(tu)
        self.loop = g.loop_of(self.C) if self.C.ast is not None else None
        self.locals = {n.get("name") for n in walk(fn) if kind(n) in ("VarDecl", "ParmVarDecl")
                       and n.get("storageClass") not in ("static", "extern")}
        par = tu.parent.get(id(call))
        while par is not None and kind(par) in ("ImplicitCastExpr", "ParenExpr", "CStyleCastExpr"):
            par = tu.parent.get(id(par))
        if par is not None and kind(par) == "CallExpr" and not any(x is call for x in walk(kids(par)[0])):
            cn = strip(kids(par)[0], casts=True)
            cn = cn.get("referencedDecl", {}).get("name") if kind(cn) == "DeclRefExpr" else None
            if cn is None or cn in self.own:
                raise AnalysisError("%s(): the result of %s() is passed on to %s -- what is done with it there is not "
                                    "followed" % (fname, callee, "%s()" % cn if cn else "a call through a pointer"))

    def inside(self, node):
        """is the CFG node part of the loop the call stands in?"""
        if self.loop is None or node.kind in ("exit", "raise", "entry"):
            return node.kind not in ("exit", "raise")
        a = node.ast
        if a is not None and kind(a) == "DoHead":
            return True
        while a is not None and a is not self.fn:
            if a is self.loop:
                return True
            a = self.tu.parent.get(id(a))
        return False

    def dep(self, e, env):
        """value of e when it is a function of the result (undetermined without env, determined with it)"""
        v = fold_env(self.tu, e, env)
        if v is None or fold_env(self.tu, e, {}) is not None:
            return None
        return v

    def mentions(self, e, env):
        return any(kind(x) in ("DeclRefExpr", "CallExpr") and ctext(x) in env for x in walk(e))

    def step_env(self, node, env):
        """env after the statement of a CFG node"""
        env = dict(env)
        for e in effects(node.ast) if (node.kind == "stmt" and node.ast is not None and kind(node.ast) != "DoHead") else []:
            if e[0] == "decl" and e[2] is not None:
                name, qt, rhs = e[1].get("name"), e[1].get("type", {}).get("qualType", ""), e[2]
            elif e[0] == "store" and kind(e[1]) == "DeclRefExpr" and ctext(e[1]) in self.locals:
                name, qt, rhs = ctext(e[1]), e[1].get("type", {}).get("qualType", ""), e[2]
            elif e[0] in ("compound", "incdec") and ctext(e[1]) in env:
                env.pop(ctext(e[1]))
                continue
            elif e[0] == "call":
                for a in e[2]:
                    for x in walk(a):
                        if kind(x) == "UnaryOperator" and x.get("opcode") == "&" and kids(x) and ctext(kids(x)[0]) in env:
                            env.pop(ctext(kids(x)[0]))
                continue
            else:
                continue
            v = self.dep(rhs, env)
            if v is not None:
                env[name] = c_wrap(v, qt, self.tu.kind)
            else:
                if self.mentions(rhs, env):
                    raise AnalysisError("%s(): `%s` is computed from the result of %s() by `%s` -- unclassifiable" % (
                        self.fname, name, self.callee, ctext(rhs)))
                env.pop(name, None)
        return env

    def succs(self, node, env, first=False):
        """[(successor, env, decided by the value?)]"""
        if node.kind in ("cond", "switch") and node.cond is not None and has_write(node.cond) and self.mentions(node.cond, env):
            raise AnalysisError("%s(): side effect in the condition `%s` -- unclassifiable" % (self.fname, ctext(node.cond)))
        nenv = self.step_env(node, env)
        if first:
            nenv.pop(self.ctxt, None)
        if node.kind == "cond" and node.cond is not None:
            r = tv3(self.tu, node.cond, env)
            if r is not None and tv3(self.tu, node.cond, {}) is None:
                out = [(s, nenv, True) for (s, l) in node.succ if bool(l) == r]
                if out:
                    return out
            elif r is None and self.mentions(node.cond, env) and len({id(s) for s, _ in node.succ}) > 1:
                self.mixed.add(ctext(node.cond))        # also depends on something else: both ways
        elif node.kind == "switch" and node.cond is not None:
            x = self.dep(node.cond, env)
            if x is not None:
                out = [(s, nenv, True) for (s, l) in node.succ if isinstance(l, tuple) and l[1] == x] or \
                      [(s, nenv, True) for (s, l) in node.succ if l in ("default", "nodefault")]
                if out:
                    return out
        return [(s, nenv, False) for (s, _) in node.succ]

    def rx_irq(self, node, env):
        """[(what, text)] of the receive-interrupt switches a node performs: what in mask / maybe / unmask"""
        root = node.cond if node.kind in ("cond", "switch") else (node.ast if node.kind == "stmt" else None)
        if root is None or kind(root) == "DoHead":
            return []
        return rx_irq_switches(self.tu, root, env)

    @staticmethod
    def base_name(lhs):
        """name of the variable an lvalue lives in / is reached through (`buf[i]`, `*p`, `s.f` -> buf, p, s)"""
        n = strip(lhs, casts=True)
        while n is not None and kind(n) != "DeclRefExpr":
            ks = kids(n)
            if kind(n) in ("ArraySubscriptExpr", "MemberExpr") or (kind(n) == "UnaryOperator" and n.get("opcode") == "*"):
                n = strip(ks[0], casts=True) if ks else None
            else:
                return None
        return None if n is None else n.get("referencedDecl", {}).get("name")

    def writes(self, effs):
        """names whose value / pointee a list of effects may change (None: cannot tell); calls reach memory
        through their pointer arguments, functions of this file also through the file's globals ('*globals*')"""
        out = set()
        for e in effs:
            if e[0] in ("store", "compound", "incdec"):
                out.add(self.base_name(e[1]))
            elif e[0] == "decl":
                out.add(e[1].get("name"))
            elif e[0] == "call":
                for a in e[2]:
                    qt = strip(a, casts=True).get("type", {}).get("qualType", "") if strip(a, casts=True) else ""
                    addr = any(kind(x) == "UnaryOperator" and x.get("opcode") == "&" for x in walk(a))
                    if addr or "*" in qt or "[" in qt:
                        out |= {x.get("referencedDecl", {}).get("name") for x in walk(a) if kind(x) == "DeclRefExpr"}
                cn = strip(kids(e[3])[0], casts=True)
                cn = cn.get("referencedDecl", {}).get("name") if kind(cn) == "DeclRefExpr" else None
                if cn is None or cn in self.own:
                    out.add("*globals*")
        return out

    def feeds_of(self, node, sites):
        """[(call, writes evaluated before it in the node)] of the feeding calls a CFG node contains"""
        root = node.cond if node.kind in ("cond", "switch") else (node.ast if node.kind == "stmt" else None)
        if root is None or kind(root) == "DoHead":
            return [], set()
        effs = effects(root)
        out = []
        for i, e in enumerate(effs):
            if e[0] == "call" and any(e[3] is s for s in sites):
                out.append((e[3], self.writes(effs[:i]), self.writes(effs[i + 1:])))
        return out, self.writes(effs)

    def same_octet(self, arg2, written):
        """True: the argument of a feeding call reached with these names written since the call under study
        denotes the octet that call was given; False: a later one; None: cannot tell."""
        arg1 = kids(self.call)[1]
        if has_write(arg1) or has_write(arg2) or any(kind(x) == "CallExpr" for x in list(walk(arg1)) + list(walk(arg2))):
            return False        # evaluating the argument itself takes the next octet
        names = {x.get("referencedDecl", {}).get("name") for a in (arg1, arg2) for x in walk(a) if kind(x) == "DeclRefExpr"}
        if (names & written) or ("*globals*" in written and (names - self.locals)):
            return False
        if None in written:
            return None
        if self.tu.fold(arg2) is not None:
            return None
        return True if ctext(arg1) == ctext(arg2) else None

    def refeed(self, v, sites):
        """Ways from the call, taken for the return value v, to the next feeding call of the function (any
        site): {'same' | 'next' | 'unknown' | 'end'} -> example text."""
        start = ("call", v, frozenset())
        mine, _ = self.feeds_of(self.C, sites)
        after = [w for (c, _, w) in mine if c is self.call]
        if len(mine) != 1 or not after:
            raise AnalysisError("%s(): %d feeding calls in one statement -- unclassifiable" % (self.fname, len(mine)))
        self.mixed = set()
        states = {start: (self.C, {self.ctxt: v}, frozenset(after[0]))}
        work, out = [start], {}
        while work:
            key = work.pop()
            node, env, wr = states[key]
            first = key == start
            if not first:
                if node.kind in ("exit", "raise"):
                    out.setdefault("end", "end of %s()" % self.fname)
                    continue
                feeds, allw = self.feeds_of(node, sites)
                if feeds:
                    c2, before, _ = feeds[0]
                    r = self.same_octet(kids(c2)[1], wr | before)
                    out.setdefault({True: "same", False: "next", None: "unknown"}[r],
                                   "`%s` (line %s)" % (ctext(c2), self.tu.line(c2)))
                    continue
                wr = wr | allw
            for (s, nenv, dec) in self.succs(node, env, first):
                k2 = (s.id, tuple(sorted(nenv.items())), wr)
                if k2 not in states:
                    if len(states) > 20000:
                        raise AnalysisError("%s(): too many states behind the call of %s()" % (self.fname, self.callee))
                    states[k2] = (s, nenv, wr)
                    work.append(k2)
        return out

    def run(self, v):
        """Walk for the return value v.  Returns (nodes visited, transitions leaving the read loop, texts of the
        conditions that read the result, {mask text: 'must' | 'may'}, values returned by the caller as a function of v)."""
        self.mixed = set()
        start = ("call", v)
        states = {start: (self.C, {self.ctxt: v})}
        edges, work, decided, exits, rets = {}, [start], set(), set(), set()
        ends = set()
        while work:
            key = work.pop()
            node, env = states[key]
            first = key == start
            if not first and (node is self.C or node.kind in ("exit", "raise")):
                ends.add(key)
                continue
            if node.kind == "stmt" and node.ast is not None and kind(node.ast) == "ReturnStmt" and kids(node.ast):
                rv = self.dep(kids(node.ast)[0], env)
                if rv is not None:
                    rets.add(rv)
                elif self.mentions(kids(node.ast)[0], env):
                    raise AnalysisError("%s(): returns `%s`, computed from the result of %s() -- unclassifiable" % (
                        self.fname, ctext(kids(node.ast)[0]), self.callee))
            for (s, nenv, dec) in self.succs(node, env, first):
                if dec:
                    decided.add(ctext(node.cond))
                k2 = (s.id, tuple(sorted(nenv.items())))
                edges.setdefault(key, set()).add(k2)
                if self.loop is not None and self.inside(node) and not self.inside(s):
                    exits.add((node.id, s.id))
                if k2 not in states:
                    if len(states) > 20000:
                        raise AnalysisError("%s(): too many states behind the call of %s()" % (self.fname, self.callee))
                    states[k2] = (s, nenv)
                    work.append(k2)
        decided |= self.mixed
        visited = {n.id for k, (n, _) in states.items() if k != start}
        masks = {}
        for key, (node, env) in states.items():
            if key == start and node.kind == "stmt":
                continue
            for what, txt in self.rx_irq(node, env):
                masks.setdefault((what, txt, self.tu.line(node.ast) if node.ast else None), set()).add(key)
        status = {}
        for (what, txt, line), keys in masks.items():
            # must: no way from the call to its next execution / the end of the function that avoids the switch
            seen, todo, escapes = {start}, [start], False
            while todo and not escapes:
                k = todo.pop()
                for k2 in edges.get(k, ()):
                    if k2 in seen or k2 in keys:
                        continue
                    if k2 in ends:
                        escapes = True
                        break
                    seen.add(k2)
                    todo.append(k2)
            status[(what, txt, line)] = "may" if escapes else "must"
        return visited, exits, decided, status, rets


def r8_once(L, tu, name, w, c, sites, cvals):
    """C06.R8 (each octet once) -- decides, for the clauses 'fed octet by octet into a receiver ... delivered
    ... exactly once each' and 'an over-long frame is discarded ..., costing at most the one frame that follows
    it', the premise that a caller hands every received octet to sercomm_drv_rx_char() once whatever it
    returned.  The receive step has consumed the octet on every path (0 = it reset itself to idle with a fresh
    buffer and counts on the octet being dropped): fed again, a closing flag refused by the overflow test opens
    a frame of its own, the next frame is parsed shifted by one octet and a follower of maximum length
    overflows in turn - two frames lost.  The caller's CFG is walked from the call once per value the step
    really returns (conditions on the result decided for it) up to the next feeding call of the function: when
    on every such way the argument denotes the octet already fed (same expression, none of its variables nor
    the memory behind them written in between, no call in it) the octet is passed twice.  Ways of which only
    some feed it again, or an argument written differently with nothing changed in between, give no verdict."""
    R = "C06.R8"
    key = ("every received octet is handed to %s() once, whatever it returns: the next feeding call reached "
           "from this one is given a later octet" % RXCHAR)
    vtxt = ", ".join("%d: %s" % (v, cvals[v]) for v in sorted(cvals))
    bad, unknown = [], []
    for v in sorted(cvals):
        out = w.refeed(v, sites)
        if "same" in out and not (set(out) - {"same"}):
            bad.append("after return value %d (%s) the octet `%s` is fed again by %s" % (
                v, cvals[v], ctext(kids(c)[1]), out["same"]))
        elif "same" in out or "unknown" in out:
            unknown.append("after return value %d the octet `%s` %s" % (v, ctext(kids(c)[1]), (
                "is fed again by %s on some of the ways only" % out["same"]) if "same" in out else
                "and the argument of %s cannot be told apart" % out["unknown"]))
    if unknown and not bad:
        raise AnalysisError("%s(): %s -- unclassifiable" % (name, unknown[0]))
    L.ob(R, tu.rel, name, key, "a later octet after each of {%s}" % vtxt,
         "; ".join(bad) if bad else "a later octet (or the end of the function) on every way", not bad, tu.line(c))


def r8_rx_callers(L, rxvals):
    """C06.R8 -- decides, for the clause 'an over-long frame is discarded ..., costing at most the one frame
    that follows it before reception is back in sync' (and 'fed octet by octet into a receiver ... delivered'
    for every later frame), the premise that the receiver keeps being fed whatever sercomm_drv_rx_char()
    returned.  The value set is not read off the header comment but enumerated from the walked paths of the
    receive step of the same build ({0: over-long frame discarded, 1: octet taken} today).  In every caller
    (located by identifier over the firmware and osmocon sources, parsed with the flags of their build) the
    CFG is walked from the call once per such value, with the branch conditions that are functions of the
    result decided for it: a receive-interrupt mask - uart_irq_enable(., UART_IRQ_RX_CHAR, 0), arguments
    folded - that lies on EVERY way from the call to its next execution / the end of the handler for a value
    the function really returns means no octet after that return reaches the receiver: every later frame is
    lost, not at most one.  A test no actual value satisfies (`< 0`) guards dead code and is not judged.
    A mask reached only on some of the ways, a read loop that is left (break / return / goto) for some values
    only, or a result that is passed on unexamined are not judged (ANALYSIS-ERROR); a caller that returns a
    function of the result is treated as one more function with a known value set and its callers are walked."""
    R = "C06.R8"
    L.assume(RX_IRQ_ASSUMPTION)
    full = os.path.isdir(os.path.join(L.repo, "src/target/firmware/calypso"))
    located = locate_callers(L, RXCHAR)
    L.floor(R, "files calling %s" % RXCHAR, len(located), 3 if full else 1)
    irq_files = sorted(rel_ for _, _, rel_, src in source_files(L) if RX_IRQ_ENUM in src and ident_count(src, RX_IRQ_ENUM))
    nsites = 0
    for kindname, top, rel_, ntext in located:
        vals = rxvals.get(kindname)
        if not vals:
            raise AnalysisError("no return value set of %s() for the %s build" % (RXCHAR, kindname))
        tu = caller_tu(L, kindname, top, rel_)
        own = own_functions(tu)
        nast = 0
        work, done = [(RXCHAR, dict(vals))], set()
        while work:
            callee, cvals = work.pop(0)
            if callee in done:
                continue
            done.add(callee)
            for name, fn in sorted(own.items()):
                refs = [n for n in walk(tu.body(fn)) if kind(n) == "DeclRefExpr" and
                        n.get("referencedDecl", {}).get("name") == callee]
                if not refs:
                    continue
                sites = calls_to(tu.body(fn), callee)
                if callee == RXCHAR:
                    nast += len(refs)
                if len(sites) != len(refs):
                    raise AnalysisError("%s(): %s is used as a value (not called) -- its callers are not visible" % (name, callee))
                L.fn(tu.rel, name)
                g = CCFG(tu, fn)
                unmask_here = sorted({txt for what, txt in rx_irq_switches(tu, tu.body(fn), {}) if what != "mask"})
                enablers = sorted(f2 for f2, fd in own.items() if f2 != name and any(
                    what != "mask" for what, _ in rx_irq_switches(tu, tu.body(fd), {})))
                for c in sites:
                    nsites += 1
                    w = RxCallerWalk(tu, name, fn, g, c, callee)
                    res = {v: w.run(v) for v in sorted(cvals)}
                    vtxt = ", ".join("%d: %s" % (v, cvals[v]) for v in sorted(cvals))
                    if callee == RXCHAR:
                        r8_once(L, tu, name, w, c, sites, cvals)
                    key = ("after every value %s() really returns the receiver is still fed: no way the caller takes "
                           "for such a value switches the receive interrupt off" % callee)
                    req = "receive interrupt left enabled after each of {%s}" % vtxt
                    line = tu.line(c)
                    tests = sorted(set().union(*[r[2] for r in res.values()]))
                    wrapped = set().union(*[r[4] for r in res.values()])
                    if wrapped:
                        if fn.get("storageClass") != "static":
                            raise AnalysisError("%s() hands a function of the result of %s() to its callers in other files "
                                                "-- not followed" % (name, callee))
                        nv = {}
                        for v, r in res.items():
                            for x in r[4]:
                                nv[x] = "/".join(sorted(set(filter(None, [nv.get(x), cvals[v]]))))
                        work.append((name, nv))
                    bad, undecided = [], []
                    for v, (visited, exits, decided, status, rets) in sorted(res.items()):
                        for (what, txt, ln), st in sorted(status.items(), key=str):
                            if what == "unmask":
                                continue
                            same = all((what, txt, ln) in r[3] and r[3][(what, txt, ln)] == st for r in res.values())
                            if same:
                                continue        # whatever was returned: not a reaction to the return value
                            if what == "mask" and st == "must":
                                bad.append("return value %d (%s): %s on every way that follows (line %s)" % (v, cvals[v], txt, ln))
                            else:
                                undecided.append("return value %d: %s is reached on some of the ways only / with arguments "
                                                 "that do not fold" % (v, txt))
                    exsets = {frozenset(r[1]) for r in res.values()}
                    if len(exsets) > 1 and not bad:
                        undecided.append("the read loop is left for some return values only (%s)" % ", ".join(
                            "%d: %d way(s) out" % (v, len(r[1])) for v, r in sorted(res.items())))
                    if bad:
                        others = [f for f in irq_files if f != tu.rel and not any(f == l[2] for l in located)]
                        if unmask_here or others:
                            raise AnalysisError("%s(): %s; but the receive interrupt is also switched by %s -- whether it "
                                                "stays off is not decided" % (name, bad[0], unmask_here or others))
                        L.ob(R, tu.rel, name, key, req, "%s; it is switched on again by: %s" % (
                            "; ".join(bad), ", ".join("%s()" % f for f in enablers) or "nothing in this file"), False, line)
                        continue
                    if undecided:
                        raise AnalysisError("%s(): %s -- unclassifiable" % (name, undecided[0]))
                    L.ob(R, tu.rel, name, key, req, "tests of the result: %s" % (
                        ", ".join("`%s`" % t for t in tests) if tests else "none"), True, line)
        if nast < ntext:
            raise AnalysisError("%s mentions %s %d times but only %d references are visible in the parsed "
                                "configuration (call site hidden by the preprocessor)" % (rel_, RXCHAR, ntext, nast))
    L.floor(R, "%s call sites outside sercomm.c" % RXCHAR, nsites, 3 if full else 1)


def load_tu(L, kindname, relfile):
    tu = TU(L.repo, kindname, relfile, L=L)
    if tu.rel != F:
        raise AnalysisError("unexpected path of sercomm.c: %s" % tu.rel)
    return tu


def run(L, tier):
    for h in (HDR, MSGB_H, LLIST_H):
        L.unit(h)
    # every rule group runs as its own stage: an AnalysisError in one of them is deferred, so a violation
    # recognised by another group is still reported
    mtu = L.stage(load_msgb_tu, L)
    rxvals, exts = {}, {}
    for tag, kindname, relfile, size in BUILDS:
        tu = L.stage(load_tu, L, kindname, relfile)
        rx = L.stage(Rx, tu)
        tx = L.stage(Tx, tu)
        L.stage(r1_bounded_store, L, tu, tag, size, rx)
        L.stage(r1_capacity, L, tu, mtu, tag, size)
        L.stage(r7_msgb_algebra, L, tu, mtu, tag, size)
        L.stage(r10_overflow_buffer, L, tu, mtu, tag, size, rx)
        exts[kindname] = L.stage(r11_table_extent, L, tu, tag)
        L.stage(r4_index_bounds, L, tu, tag)
        L.stage(r4_dispatch, L, tu, tag)
        L.stage(r4_sendmsg, L, tu, mtu, tag)
        L.stage(r6_pull_contract, L, tu, tag, tx)
        rxvals[kindname] = L.stage(rx_return_values, L, tu, tag, rx)
        L.stage(r13_tx_fold, L, tu, mtu, tag, size)
        held = L.stage(r14_tx_histories, L, tu, mtu, tag, size)
        # (after R14: a scan that starts at a remembered index is decided by the histories)
        L.stage(r4_queue_scan, L, tu, tx, tag, held is True)
        K = L.stage(r2_tx, L, tu, tag, tx)
        if K is None:
            continue        # the transmitter's shape is already reported as violated
        L.stage(r12_rx_fold, L, tu, mtu, tag, size, K)
        chain = L.stage(r2_r3_rx, L, tu, tag, rx, K)
        if chain is None:
            continue
        L.stage(r4_frame_end, L, tu, tag, rx, K, chain)
    L.stage(r4_msgb, L, mtu)
    L.stage(r6_pull_callers, L)
    if any(v is STAGE_FAILED for v in rxvals.values()) or len(rxvals) < len(BUILDS):
        L.stage(r8_rx_callers, L, STAGE_FAILED)     # the value set of a build is not known (already recorded)
    else:
        L.stage(r8_rx_callers, L, rxvals)
    if tier == "thorough":
        L.stage(r5_callers, L, {k: v for k, v in exts.items() if v is not STAGE_FAILED})
