# C04 -- TRXD octets follow the protocol layout; Python and trxcon (C) agree.
#
# Layout of this module
#   r1_python_vs_spec        structural rules for data_msg.py (layout descriptors vs spec/trxd.json)
#   CMach                    closure compiler / evaluator for the C subset of trx_if.c's TRXD paths
#   trxcon_rx/tx_semantic    decisive layer for trxcon: the functions evaluated on datagram families
#   python_semantic          decisive layer for data_msg.py: gen_msg / parse_msg evaluated by rules/c16.Mach
#   trxcon_rx/tx_structural  structural rules for trx_if.c (recorded as structural proofs)
#   _group                   decision: semantic layer decides, structural proof recorded; fallback if not evaluable
#   r5_carriage              C04.R5: member value ranges vs the quantities' domains; scheduler -> PHYIF -> trx_if.c hand-over evaluated
#   r6_burst_storage         C04.R6: the storage the burst indication points into is not written before the delivery (calls made
#                            before it followed through the direct-call graph back into the TRXD transmit path, evaluated there)

import ast
import json
import operator as _o
import os

from report import AnalysisError, VERIF
from pyfront import Repo, canon, calls_in
from pyutil import rel, params
from consteval import Ev, fold, Unknown, Raised
from layout import Enc, Dec, bitfields, byte_ref, fold_field
import exprnf as X

EXPLANATION = (
    "Three rule groups, each decided semantically and documented by a structural proof. Decision: the code is "
    "evaluated from its source (never executed): data_msg.py's gen_msg()/parse_msg() by the concrete AST "
    "interpreter of rules/c16.py, trxcon's trx_data_rx_cb() / trx_if_handle_phyif_burst_req() by a closure "
    "compiler over the clang AST of trx_if.c (C integer semantics per node type, octet memory, pointers, local "
    "helpers, file-scope constant tables, goto). They are run on message / datagram families that are exhaustive "
    "along every finite axis of the layout (all 256 values of every header octet, every datagram length up to the "
    "buffer size, all 256 soft-bit octets at each of the 148 burst positions, all timeslots, attenuations, "
    "MTS combinations, sign-boundary grids of ToA256/C/I, frame-number octet walks and the hyperframe boundary) and "
    "every result (octets sent, fields and soft bits handed on, accept/reject) is compared with the reference "
    "layout spec/trxd.json and the toolkit's own usbit2sbit map read off parse_msg(); a mismatch is reported with "
    "the concrete datagram. Structural proofs (Ledger.structural): the layout descriptors extracted from "
    "data_msg.py by byte-layout abstract interpretation (see C01) compared with the reference layout, the MTS and "
    "soft-bit tables folded, trxcon's field <- octet expressions, guards, soft-bit loop body folded over all 256 "
    "octets (incl. constant look-up tables), FN guard and transmit stores read from the clang AST; they hold for "
    "all inputs when closed and never raise an alarm by themselves (an unfamiliar but correct shape leaves them "
    "open). If the code cannot be evaluated, a closed structural proof decides; otherwise there is no verdict. "
    "A fourth group (C04.R5) decides that a burst's values are carried unchanged between the scheduler, the PHYIF "
    "structures and trx_if.c: the domain of every quantity (frame number, timeslot, attenuation, burst length, RSSI, "
    "ToA256, hard / soft bits) is included in the value range of each integer member that carries it (resolved member "
    "types of the clang AST), and trxcon_shim.c's scheduler -> PHYIF conversion and trxcon_main.c's hand-over to "
    "trx_if.c are evaluated on request families with the integer conversions clang resolved at each store. "
    "A fifth group (C04.R6) decides that the soft bits are still in place when the burst indication is delivered: "
    "trx_data_rx_cb() is evaluated with and without a model of the calls it makes before the delivery (each resolved "
    "through the direct-call graph of trxcon's translation units; a chain that re-enters the TRXD transmit path of "
    "trx_if.c is evaluated there on the same transceiver instance with an uplink burst due) and what is handed on "
    "must not differ - a PDU buffer shared by both directions plus a transmission triggered before the delivery does. "
    "A sixth group (C04.R7) decides that the delivery does not depend on what the TRXC state machine is doing: every "
    "read of the FSM instance's state on the receive path is an input of the evaluation, folded over all enumerators "
    "of the FSM's state enum (values as clang folded them from trx_if.h); a well-formed datagram must be delivered "
    "with the reference values in every state but the one an instance starts in, and C04.R2/R6 are evaluated in "
    "each state in which the path is open.")
ASSUMPTIONS = [
    "osmo_load32be/16be(p), osmo_store32be/16be(v, p): big-endian load/store at p; memcpy/memmove/memset as in ISO C; read/recv/recvfrom deliver min(datagram length, capacity) octets; send/sendto/write emit the given octets",
    "external functions without a body in trx_if.c (logging, strerror_r, the rts indication) do not modify the local buffer or the burst indication, except through a chain of direct calls back into trx_if.c's transmit path, which C04.R6 follows and evaluates",
    "C04.R6: the RTS.ind of a transceiver instance is served by the trxcon instance that transmits on that same transceiver instance (trxcon->phyif / trx->priv as linked in trxcon_main.c); an uplink burst is assumed due for the frame",
    "a branch whose condition does not depend on the datagram (trx state) is skipped only if neither arm can touch local objects (no jump, stores only into objects reached through struct pointers / file-scope variables)",
    "C04.R7: the state of the transceiver's FSM instance takes the values of the enumerators of the enum whose enumerators trx_if.c passes to osmo_fsm_inst_state_chg() (below the num_states of its struct osmo_fsm); an instance starts in state 0 (osmo_fsm_inst_alloc) and no burst is due before the first TRXC command has left that state; it does not change while trx_data_rx_cb() runs unless the callback stores it itself",
    "the families are exhaustive per octet / per axis, not over the product of all axes; independence of the axes is what the structural proofs show when closed",
]
F = rel("data_msg")
FMT = {"u8": "B", "be_u32": ">L", "be_i16": ">h"}


def load_spec():
    with open(os.path.join(VERIF, "spec", "trxd.json")) as f:
        return json.load(f)


def bits_layout(fields, size):
    """[(name, shift, width)] from an MSB-first list of [name, width]"""
    out = []
    pos = size * 8
    for name, w in fields:
        pos -= w
        out.append((name, pos, w))
    return out


def r1_python_vs_spec(L, repo, spec):
    import importlib
    c01 = importlib.import_module("rules.c01")
    L.unit(F)
    mod = repo.mod("data_msg")
    known = list(fold(repo, mod, ast.parse("Msg.KNOWN_VERSIONS", mode="eval").body))
    n = 0
    for cls, key in (("TxMsg", "Tx"), ("RxMsg", "Rx")):
        ci = repo.need_class("data_msg", cls)
        for ver in known:
            sp = spec[key].get(str(ver))
            if sp is None:
                L.ob("C04.R1", F, cls, "header version %d of %s is described by the reference layout" % (ver, cls), "present", "missing", False)
                continue
            fn = "%s v%d" % (cls, ver)
            L.fn(F, cls + ".gen_msg")
            L.fn(F, cls + ".parse_msg")
            segs = Enc(repo, ci, ver, True, False).run()
            dec = Dec(repo, ci, ver, True)
            fields = dec.run()
            msg = dec.msg
            by_off = {s.off: s for s in segs if s.off is not None}
            hdr_len = sum(s.size for s in segs if s.kind in ("append", "pack"))
            L.require("C04.R1", F, cls + ".gen_msg", "%s: header length" % fn, sp["hdr_len"], hdr_len)
            for fd in spec["hdr_common"] + sp["fields"]:
                n += 1
                s = by_off.get(fd["off"])
                if s is None or s.size != fd["size"]:
                    L.ob("C04.R1", F, cls + ".gen_msg", "%s: a %d-octet field is written at octet %d (%s)" % (
                        fn, fd["size"], fd["off"], fd.get("name", "bits")), "segment", repr(s), False)
                    continue
                if fd["kind"] == "bits" and fd.get("name") != "mts":
                    ce = c01.classify_enc(s.expr)
                    want = [(nm, sh, w) for nm, sh, w in bits_layout(fd["fields"], fd["size"]) if nm]
                    got = ce[1] if ce[0] == "bits" else ce
                    okb = ce[0] == "bits" and [(g[0], g[1]) for g in got] == [(w_[0], w_[1]) for w_ in want] and \
                        all(g[2] is None or g[2] == w_[2] for g, w_ in zip(got, want))
                    L.ob("C04.R1", F, cls + ".gen_msg", "%s: octet %d packs %s (MSB first), reserved bits zero" % (
                        fn, fd["off"], fd["fields"]), want, got, okb, s.node.lineno if hasattr(s.node, "lineno") else None)
                    for nm, sh, w in want:
                        d = fields.get(nm)
                        cd = c01.classify_dec(d, msg) if d is not None else None
                        okd = cd is not None and cd[0] == "bits" and cd[1] == fd["off"] and cd[2] == sh and (
                            cd[3] == w or (cd[3] is None and sh + w == 8 * fd["size"]))
                        L.ob("C04.R1", F, cls + ".parse_msg", "%s: `%s` is read from octet %d bits %d..%d" % (
                            fn, nm, fd["off"], sh + w - 1, sh), ("bits", fd["off"], sh, w), cd, okd)
                elif fd["kind"] == "bits" and fd.get("name") == "mts":
                    ce = c01.classify_enc(s.expr)
                    L.require("C04.R1", F, cls + ".append_hdr_to", "%s: MTS octet is produced by gen_mts() at octet %d" % (fn, fd["off"]),
                              ("call", "self.gen_mts()"), ce)
                    calls = [(nm, [canon(a) for a in args]) for nm, args, _ in dec.calls if nm == "parse_mts"]
                    L.require("C04.R1", F, cls + ".parse_hdr", "%s: MTS octet is parsed from octet %d" % (fn, fd["off"]),
                              [("parse_mts", ["%s[%d]" % (msg, fd["off"])])], calls)
                else:
                    ce = c01.classify_enc(s.expr)
                    want = ("field", fd["name"], bool(fd.get("neg")))
                    L.require("C04.R1", F, cls + ".gen_msg", "%s: octet %d carries `%s`%s as %s" % (
                        fn, fd["off"], fd["name"], " negated" if fd.get("neg") else "", fd["kind"]),
                        (want, FMT[fd["kind"]]), (ce, s.fmt))
                    d = fields.get(fd["name"])
                    cd = c01.classify_dec(d, msg) if d is not None else None
                    if FMT[fd["kind"]] == "B":
                        wd = ("byte", fd["off"], bool(fd.get("neg")))
                    else:
                        wd = ("unpack", FMT[fd["kind"]], fd["off"], fd["off"] + fd["size"])
                    if cd is not None and cd != wd and cd[0] == "other" and fd["size"] <= 2:
                        ok_, info = fold_field(repo, mod, d, msg, fd["off"], fd["size"], FMT[fd["kind"]], bool(fd.get("neg")))
                        if ok_ is None:
                            raise AnalysisError("C04: decoder expression of `%s` unclassifiable (%s)" % (fd["name"], info))
                        L.ob("C04.R1", F, cls + ".parse_msg", "%s: `%s` is decoded from octet %d as %s%s (hand-written decoder folded over all %d octet values)" % (
                            fn, fd["name"], fd["off"], fd["kind"], " negated" if fd.get("neg") else "", 256 ** fd["size"]),
                            "equal for all octet values", info, ok_ is True)
                        continue
                    L.require("C04.R1", F, cls + ".parse_msg", "%s: `%s` is decoded from octet %d as %s%s" % (
                        fn, fd["name"], fd["off"], fd["kind"], " negated" if fd.get("neg") else ""), wd, cd)
            # nothing else in the header
            extra = sorted(set(by_off) - {fd["off"] for fd in spec["hdr_common"] + sp["fields"]} -
                           {s.off for s in segs if s.kind in ("extend", "pad")})
            L.ob("C04.R1", F, cls + ".gen_msg", "%s: no octet outside the documented header fields is written" % fn, [], extra, not extra)
            bs = [s for s in segs if s.kind == "extend"]
            L.require("C04.R1", F, cls + ".gen_msg", "%s: burst offset and coding" % fn,
                      (sp["burst"]["off"], "self.burst" if sp["burst"]["coding"] == "ubit" else "self.sbit2usbit(self.burst)"),
                      (bs[0].off, canon(bs[0].expr)) if bs else None)
    L.floor("C04.R1", "reference fields compared", n, 16)
    # MTS against the reference table
    rci = repo.need_class("data_msg", "RxMsg")
    mci = repo.need_class("data_msg", "Modulation")
    members = {m.name: m for m in Ev(repo, mod).enum_members(mci)}
    c, gen = repo.find_method(rci, "gen_mts")
    ms = spec["mts"]
    L.require("C04.R1", F, "Modulation", "modulation table (names)", sorted(ms["modulations"]), sorted(members))
    bad = []
    for name, sm in ms["modulations"].items():
        m = members.get(name)
        if m is None:
            continue
        if m.attrs.get("coding") != sm["coding"] or m.attrs.get("bl") != sm["burst_len"]:
            bad.append((name, m.attrs))
            continue
        for ts in range(1 << sm["set_bits"]):
            for tsc in range(1 << ms["tsc_width"]):
                r = Ev(repo, mod, env={"self.nope_ind": False, "self.tsc": tsc, "self.tsc_set": ts, "self.mod_type": m},
                       self_cls=rci).run_block(gen.body)
                want = ((sm["coding"] | ts) << ms["mod_shift"]) | tsc
                if r[1] != want:
                    bad.append((name, ts, tsc, r[1], want))
    L.ob("C04.R1", F, "RxMsg.gen_mts", "MTS octet = modulation code | TSC set in bits 6..3, TSC in bits 2..0 for every table entry", [], bad[:4], not bad)
    r = Ev(repo, mod, env={"self.nope_ind": True}, self_cls=rci).run_block(gen.body)
    L.require("C04.R1", F, "RxMsg.gen_mts", "NOPE indication sets bit 7 only", 1 << ms["nope_bit"], r[1])
    # soft-bit coding on the wire
    tabs = c01.r3_tables.__globals__  # noqa (documentation: tables are checked by C01.R3)
    mc = repo.need_class("data_msg", "Msg")
    c2, v = repo.find_attr(mc, "_tab_sbit2usbit")
    t = Ev(repo, mod, self_cls=mc).ev(v)
    bad = [s for s in range(-127, 128) if t[s & 0xff] != 127 - s]
    L.ob("C04.R1", F, "Msg", "soft bits go on the wire as 127 - s (0..254)", [], bad[:4], not bad)
    c2, v = repo.find_attr(mc, "_tab_usbit2sbit")
    us2s = Ev(repo, mod, self_cls=mc).ev(v)
    return us2s


from cfront import (TU, CCFG, kids, kind, strip, walk, ctext, calls_to, call_args, CLower, fold_env,
                    array_extent, wrap_int, KINDS)


# ---------------------------------------------------------------------------------------------
# Concrete evaluation of trxcon's TRXD paths (no execution of repository code: the clang AST of
# the function is compiled into Python closures and evaluated on one datagram at a time).
# Integer values are Python ints wrapped to the C type at every cast / store, pointers are
# ("ptr", base, offset), the address of a struct object is ("ref", key, frame), a value that
# cannot be determined is None (it propagates; a branch on it is an AnalysisError unless both
# arms cannot influence the decoded values).
# ---------------------------------------------------------------------------------------------
_ITYPES = {
    "char": (8, True), "signed char": (8, True), "unsigned char": (8, False), "int8_t": (8, True), "uint8_t": (8, False),
    "sbit_t": (8, True), "ubit_t": (8, False), "short": (16, True), "unsigned short": (16, False), "int16_t": (16, True),
    "uint16_t": (16, False), "int": (32, True), "unsigned int": (32, False), "unsigned": (32, False), "int32_t": (32, True),
    "uint32_t": (32, False), "long": (64, True), "unsigned long": (64, False), "long long": (64, True),
    "unsigned long long": (64, False), "int64_t": (64, True), "uint64_t": (64, False), "ssize_t": (64, True),
    "size_t": (64, False), "__ssize_t": (64, True),
}
_MISSING = object()
_UNKNOWN = "?"
_BRK, _CNT = "break", "continue"


def _qt(n):
    t = n.get("type") or {}
    return t.get("desugaredQualType") or t.get("qualType") or ""


def _clean(qt):
    return " ".join(w for w in qt.replace("*", " * ").split() if w not in ("const", "volatile", "restrict", "__restrict"))


def _wrapper(qt):
    q = _clean(qt)
    if q == "_Bool":
        return lambda v: int(v != 0)
    m = _ITYPES.get(q)
    if m is None:
        return None
    bits, signed = m
    mask, half, full = (1 << bits) - 1, 1 << (bits - 1), 1 << bits
    if signed:
        def w(v):
            v &= mask
            return v - full if v >= half else v
        return w
    return lambda v: v & mask


def _tsize(qt):
    q = _clean(qt)
    if q.endswith("*"):
        return 8
    if q in ("void", "_Bool"):
        return 1
    m = _ITYPES.get(q)
    return m[0] // 8 if m else None


def _pointee(qt):
    q = _clean(qt)
    if q.endswith("*"):
        return q[:-1].strip()
    import re
    m = re.fullmatch(r"(.+?)\s*\[\d*\](.*)", q)
    if m:
        return (m.group(1) + m.group(2)).strip()
    return None


def _init_elems(tu, il):
    """integer elements of an array initialiser list in index order (clang's JSON lists them under `array_filler`,
    after the filler itself, when the list is shorter than the array; the tail is zero); None if one does not fold"""
    els = il.get("array_filler")
    els = [c for c in els[1:] if c] if els else kids(il)
    out = []
    for c in els:
        if kind(strip(c)) == "ImplicitValueInitExpr":
            out.append(0)
            continue
        v = tu.fold(c)
        if v is None:
            return None
        out.append(v)
    return out


def _isptr(v):
    return type(v) is tuple and v[0] == "ptr"


def _owner(tu, member_expr):
    d = tu.by_id.get(member_expr.get("referencedMemberDecl"))
    p_ = tu.parent.get(id(d)) if d is not None else None
    return d, (p_ if kind(p_ or {}) == "RecordDecl" else None)


def _fsm_state_read(tu, n):
    """MemberExpr that reads `state` of a struct osmo_fsm_inst (resolved member declaration, not the spelling of the
    access path).  Where the instance is itself taken from a member (`x->fi->state`), the record holding it must be the
    one that owns the sockets (a member of type struct osmo_fd): the transceiver instance the datagram callback is
    registered for - the FSM instance of some other object is not folded."""
    d, rec = _owner(tu, n)
    if d is None or rec is None or d.get("name") != "state" or rec.get("name") != "osmo_fsm_inst":
        return False
    b = strip(kids(n)[0]) if kids(n) else None
    while b is not None and kind(b) in ("ParenExpr", "ImplicitCastExpr", "CStyleCastExpr") and kids(b):
        b = kids(b)[0]
    if b is not None and kind(b) == "MemberExpr":
        _, brec = _owner(tu, b)
        if brec is None:
            return False
        return any(_clean(_qt(c)) == "struct osmo_fd" for c in kids(brec) if kind(c) == "FieldDecl")
    return True


def _fsm_domain(tu):
    """the states of the FSM this translation unit defines: the enumerators (values as clang folded them from the header)
    of the one enum whose enumerators are passed as new state to osmo_fsm_inst_state_chg(), restricted to the
    `num_states` of the unit's struct osmo_fsm definition (a trailing counter enumerator is not a state).  An instance
    starts in state 0 (osmo_fsm_inst_alloc)."""
    if getattr(tu, "_c04_fsm", None) is not None:
        return tu._c04_fsm
    enums = {}
    for fn_ in tu.functions.values():
        for c in walk(fn_):
            if kind(c) != "CallExpr" or len(kids(c)) < 3:
                continue
            cal = strip(kids(c)[0])
            if not (cal.get("referencedDecl") or {}).get("name", "").endswith("osmo_fsm_inst_state_chg"):
                continue
            for y in walk(kids(c)[2]):
                rd = y.get("referencedDecl") or {}
                if kind(y) == "DeclRefExpr" and rd.get("kind") == "EnumConstantDecl":
                    ed = tu.parent.get(id(tu.by_id.get(rd.get("id")) or {}))
                    if kind(ed or {}) == "EnumDecl":
                        enums[id(ed)] = ed
    if len(enums) != 1:
        raise AnalysisError("trx_if.c: the state enum of the transceiver FSM is not determined (%d enums named in osmo_fsm_inst_state_chg calls)" % len(enums))
    ed = list(enums.values())[0]
    n_states = None
    fsms = [v for v in tu.vars.values() if _clean(_qt(v)) == "struct osmo_fsm" and kids(v) and kind(strip(kids(v)[-1])) == "InitListExpr"]
    if len(fsms) == 1:
        try:
            iv = tu.init_value(strip(kids(fsms[0])[-1]))
            i = [nm for nm, _ in tu.record_fields("osmo_fsm")].index("num_states")
            if isinstance(iv, list) and isinstance(iv[i], int):
                n_states = iv[i]
        except (AnalysisError, ValueError, IndexError):
            pass
    by_val = {}
    for c in kids(ed):
        if kind(c) == "EnumConstantDecl" and isinstance(tu.enums.get(c.get("name")), int):
            v = tu.enums[c.get("name")]
            if v >= 0 and (n_states is None or v < n_states):
                by_val.setdefault(v, []).append(c.get("name"))
    if len(by_val) < 2 or 0 not in by_val:
        raise AnalysisError("trx_if.c: enum %s does not give the transceiver FSM an initial state 0 and at least one more state" % ed.get("name"))
    tu._c04_fsm = {"enum": ed.get("name") or "<anonymous>", "decl": kids(ed)[0], "num_states": n_states,
                   "states": [(v, "/".join(by_val[v])) for v in sorted(by_val)]}
    return tu._c04_fsm


class _Goto(Exception):
    def __init__(self, label):
        self.label = label


class CDone(Exception):
    """raised by a hook to end a run at the observation point"""


class CState:
    def __init__(self):
        self.env = {}       # current frame: locals by name, struct members by `obj.member` / `ptr->member` text
        self.mem = {}       # arrays: base -> list of octets (element size 1) or of typed values; None = never written
        self.esz = {}       # base -> element size
        self.recs = set()   # bases whose elements are struct objects ({member: value} per element)
        self.faults = []    # ("undef" | "oob", base, offset)
        self.steps = 0
        self.depth = 0
        self.out = {}


class CMach:
    def __init__(self, tu, hooks=None, max_steps=60000):
        self.tu, self.hooks, self.max_steps = tu, hooks or {}, max_steps
        self.watch = ()     # struct types whose objects carry the decoded values
        self.ext = None     # optional model of functions without a body in this TU: ext(M, st, name, values, node)
        self._x, self._s, self._loc, self._tabs, self._inert = {}, {}, {}, {}, {}

    # -- memory -----------------------------------------------------------------------------
    def tsz(self, qt):
        """size of an object type; struct types by the natural-alignment layout of the translation unit's target
        (x86-64 host build); None for unions, bit-fields, packed records and unresolved member types"""
        s = _tsize(qt)
        if s is None and _clean(qt).startswith("struct "):
            s = (self._layout(_clean(qt), 0) or (None,))[0]
        return s

    def _layout(self, q, depth):
        if q.endswith("*"):
            return 8, 8
        ext = array_extent(q) if q.endswith("]") else None
        if ext is not None:
            la = self._layout(_pointee(q) or "", depth)
            return la and (la[0] * ext, la[1])
        if not q.startswith("struct "):
            s = _tsize(q)
            return s and (s, s)
        r = self.tu.records.get(q[len("struct "):])
        if r is None or depth > 4 or r.get("tagUsed") != "struct" or any(kind(c).endswith("Attr") for c in kids(r)):
            return None
        off, al = 0, 1
        for c in kids(r):
            if kind(c) != "FieldDecl":
                continue
            la = None if c.get("isBitfield") else self._layout(_clean(_qt(c)), depth + 1)
            if not la:
                return None
            off = -(-off // la[1]) * la[1] + la[0]
            al = max(al, la[1])
        return (-(-off // al) * al, al) if off else None

    def elem(self, st, p):
        """the struct object a pointer into an array of structs designates: {member: value}"""
        if not _isptr(p) or p[1] not in st.recs:
            return None
        m = st.mem.get(p[1])
        if m is None or not 0 <= p[2] < len(m):
            if m is not None:
                st.faults.append(("oob", p[1], p[2]))
            return None
        if not isinstance(m[p[2]], dict):
            m[p[2]] = {}
        return m[p[2]]

    def fields(self, st, v):
        """member reader of the struct object at address v (`&obj`, or a pointer into an array of structs)"""
        if type(v) is tuple and v and v[0] == "ref":
            return lambda f: v[2].get("%s.%s" % (v[1], f))
        d = self.elem(st, v)
        return None if d is None else d.get

    def table(self, name):
        """file-scope const array with an initialiser list: its typed values"""
        if name not in self._tabs:
            t = None
            d = self.tu.vars.get(name)
            if d is not None and "const" in (d.get("type") or {}).get("qualType", "") and kids(d):
                il = strip(kids(d)[-1])
                ext = array_extent((d.get("type") or {}).get("qualType"))
                el = _pointee(_qt(d))
                w = _wrapper(el or "")
                if kind(il) == "InitListExpr" and ext is not None and w is not None:
                    vals = _init_elems(self.tu, il)
                    if vals is not None and len(vals) <= ext:
                        t = ([w(v) for v in vals] + [0] * (ext - len(vals)), _tsize(el))
            self._tabs[name] = t
        return self._tabs[name]

    def padd(self, st, p, i, ps):
        if not _isptr(p) or not isinstance(i, int) or ps is None:
            return None
        esz = st.esz.get(p[1])
        if esz is None:
            t = self.table(p[1])
            esz = t[1] if t else 1
        if ps % esz:
            return None
        return ("ptr", p[1], p[2] + i * (ps // esz))

    def load(self, st, p, w, size):
        if not _isptr(p):
            return None
        base, off = p[1], p[2]
        m = st.mem.get(base)
        if m is None:
            t = self.table(base)
            if t is None or t[1] != size:
                return None
            if 0 <= off < len(t[0]):
                return t[0][off]
            st.faults.append(("oob", base, off))
            return None
        if not 0 <= off < len(m):
            st.faults.append(("oob", base, off))
            return None
        if st.esz[base] != size:
            if st.esz[base] == 1 and size in (2, 4, 8) and w is not None:
                # wider access to octet memory: little-endian, the byte order of the translation unit's target (x86-64 host build)
                r = 0
                for i in range(size):
                    b = self.load(st, ("ptr", base, off + i), None, 1)
                    if b is None:
                        return None
                    r |= b << (8 * i)
                return w(r)
            return None
        v = m[off]
        if v is _UNKNOWN:
            return None
        if isinstance(v, dict):
            return ("struct", dict(v))
        if v is None:
            st.faults.append(("undef", base, off))
            v = 0
        if size == 1 and w is not None:
            return w(v)
        return v

    def store(self, st, p, v, w, size):
        if not _isptr(p):
            return
        base, off = p[1], p[2]
        m = st.mem.get(base)
        if m is None:
            if self.table(base) is not None:
                raise AnalysisError("C evaluation: store into the constant table %s" % base)
            return
        if not 0 <= off < len(m):
            st.faults.append(("oob", base, off))
            return
        if st.esz[base] != size:
            if st.esz[base] == 1 and size in (2, 4, 8):
                for i in range(size):
                    self.store(st, ("ptr", base, off + i), (v >> (8 * i)) & 0xff if isinstance(v, int) else None, None, 1)
                return
            raise AnalysisError("C evaluation: %d-octet store into %s (element size %d) is not modelled" % (size or 0, base, st.esz[base]))
        if base in st.recs:
            m[off] = dict(v[1]) if (isinstance(v, tuple) and v and v[0] == "struct") else _UNKNOWN
        elif not isinstance(v, int):
            m[off] = _UNKNOWN          # written, but with a value the evaluation does not determine
        else:
            m[off] = (v & 0xff) if size == 1 else (w(v) if w else v)

    def octets(self, st, p, n):
        """the n raw octets at p (None where never written / outside the array)"""
        if not _isptr(p) or not isinstance(n, int) or st.mem.get(p[1]) is None or st.esz[p[1]] != 1:
            return None
        m = st.mem[p[1]]
        return [m[i] if 0 <= i < len(m) else None for i in range(p[2], p[2] + n)]

    # -- expressions ------------------------------------------------------------------------
    def X(self, n):
        f = self._x.get(id(n))
        if f is None:
            f = self._x[id(n)] = self._cx(n)
        return f

    def _is_array(self, n):
        return _clean((n.get("type") or {}).get("qualType", "")).endswith("]")

    def _decay(self, n):
        while kind(n) in ("ParenExpr",):
            n = kids(n)[0]
        k = kind(n)
        if k == "DeclRefExpr":
            rd = n.get("referencedDecl", {})
            name = rd.get("name")
            d = self.tu.by_id.get(rd.get("id"))
            local = d is not None and kind(self.tu.parent.get(id(d)) or {}) == "DeclStmt"
            if local:
                return lambda st: ("ptr", name if st.depth == 0 else "%s@%d" % (name, st.depth), 0)
            qt = (n.get("type") or {}).get("qualType", "")
            ext, esz = array_extent(qt), _tsize(_pointee(_qt(n)) or "")
            if "const" not in qt and ext is not None and esz is not None:
                # a file-scope (static) buffer: what an earlier call left in it is not part of this datagram
                def f(st):
                    if name not in st.mem:
                        st.mem[name], st.esz[name] = [None] * ext, esz
                    return ("ptr", name, 0)
                return f
            return lambda st: ("ptr", name, 0)
        if k == "MemberExpr":
            loc = self.LOC(n)
            qt = (n.get("type") or {}).get("qualType", "")
            ext, esz = array_extent(qt), _tsize(_pointee(_qt(n)) or "")

            def f(st):
                l_ = loc(st)
                if l_ is None or l_[0] != "env":
                    return None
                key = l_[2] if l_[1] is st.env else "%s@%x" % (l_[2], id(l_[1]))
                if key not in st.mem and ext is not None and esz is not None:
                    st.mem[key], st.esz[key] = [None] * ext, esz      # a buffer that is a struct member (e.g. trx->rx_buf)
                return ("ptr", key, 0)
            return f
        return lambda st: None

    def LOC(self, n):
        f = self._loc.get(id(n))
        if f is None:
            f = self._loc[id(n)] = self._cloc(n)
        return f

    def _cloc(self, n):
        """lvalue -> function(st) -> ("env", frame, key) | ("mem", pointer) | None"""
        while kind(n) in ("ParenExpr",):
            n = kids(n)[0]
        k = kind(n)
        if k == "DeclRefExpr":
            name = n.get("referencedDecl", {}).get("name")
            return lambda st: ("env", st.env, name)
        if k == "MemberExpr":
            fld, base, txt = n.get("name"), kids(n)[0], ctext(n)
            if n.get("isArrow"):
                fb = self.X(base)

                def f(st):
                    b = fb(st)
                    if isinstance(b, tuple) and b[0] == "ref":
                        return ("env", b[2], "%s.%s" % (b[1], fld))
                    d = self.elem(st, b)
                    if d is not None:
                        return ("env", d, fld)
                    return ("env", st.env, txt)
                return f
            lb = self.LOC(base)

            def f(st):
                l_ = lb(st)
                if l_ is not None and l_[0] == "env":
                    return ("env", l_[1], "%s.%s" % (l_[2], fld))
                d = self.elem(st, l_[1]) if l_ is not None else None
                if d is not None:
                    return ("env", d, fld)
                return ("env", st.env, txt)
            return f
        if k == "ArraySubscriptExpr":
            a, b = kids(n)
            fa, fb = self.X(a), self.X(b)
            ps = self.tsz(_qt(n))

            def f(st):
                p, i = fa(st), fb(st)
                if isinstance(p, int) and _isptr(i):
                    p, i = i, p
                q = self.padd(st, p, i, ps)
                return None if q is None else ("mem", q)
            return f
        if k == "UnaryOperator" and n.get("opcode") == "*":
            fp = self.X(kids(n)[0])

            def f(st):
                p = fp(st)
                if type(p) is tuple and p[0] == "ref":
                    return ("env", p[2], p[1])
                return ("mem", p) if _isptr(p) else None
            return f
        if k in ("ImplicitCastExpr", "CStyleCastExpr") and n.get("castKind") in ("NoOp", "LValueBitCast"):
            return self.LOC(kids(n)[0])
        return lambda st: None

    def _getter(self, n):
        loc = self.LOC(n)
        w, size = _wrapper(_qt(n)), _tsize(_qt(n))
        cv = self.tu.fold(n) if kind(n) == "DeclRefExpr" else None
        if _clean(_qt(n)).startswith("struct ") and not _clean(_qt(n)).endswith("*"):
            try:                                  # the value of a struct object: its members
                fnames = [nm for nm, _ in self.tu.record_fields(_clean(_qt(n))[len("struct "):])]
            except AnalysisError:
                return lambda st: None

            ssz = self.tsz(_qt(n))

            def gs(st):
                l_ = loc(st)
                if l_ is not None and l_[0] == "mem" and _isptr(l_[1]) and l_[1][1] in st.recs:
                    return self.load(st, l_[1], None, ssz)
                if l_ is None or l_[0] != "env":
                    return None
                return ("struct", {f_: l_[1].get("%s.%s" % (l_[2], f_)) for f_ in fnames})
            return gs
        n1 = n
        while kind(n1) == "ParenExpr":
            n1 = kids(n1)[0]
        if kind(n1) == "DeclRefExpr":            # fast paths (same meaning as the generic getter below)
            name = n1.get("referencedDecl", {}).get("name")

            def g0(st):
                v = st.env.get(name, _MISSING)
                return cv if v is _MISSING else v
            return g0
        if kind(n1) == "MemberExpr" and not n1.get("isArrow") and kind(strip(kids(n1)[0])) == "DeclRefExpr" and \
                strip(kids(n1)[0]) is kids(n1)[0]:
            key = "%s.%s" % (kids(n1)[0].get("referencedDecl", {}).get("name"), n1.get("name"))
            return lambda st: st.env.get(key)
        if kind(n1) == "ArraySubscriptExpr":
            fa, fb = self.X(kids(n1)[0]), self.X(kids(n1)[1])
            load, padd = self.load, self.padd

            def g1(st):
                p, i = fa(st), fb(st)
                if type(p) is int and _isptr(i):
                    p, i = i, p
                q = padd(st, p, i, size)
                return None if q is None else load(st, q, w, size)
            return g1

        def g(st):
            l_ = loc(st)
            if l_ is None:
                return None
            if l_[0] == "env":
                v = l_[1].get(l_[2], _MISSING)
                if v is _MISSING:
                    return cv
                return v
            return self.load(st, l_[1], w, size)
        return g

    def _ambient(self, n):
        """read of the state of the transceiver's FSM instance: not part of the datagram and not written by the function
        under evaluation - the value is the one the caller folds over (st.out["fsm_state"]); a value the evaluated code
        stored itself wins.  Every such read is recorded with the expression it stands in (st.out["fsm_sites"])."""
        g = self._getter(n)
        top = n
        while True:
            p_ = self.tu.parent.get(id(top))
            if p_ is None or not (kind(p_).endswith("Expr") or kind(p_).endswith("Operator")) or kind(p_) == "CallExpr":
                break
            top = p_
        site = (ctext(top)[:100], self.tu.line(n))

        def ga(st):
            v = g(st)
            if v is None:
                st.out.setdefault("fsm_sites", set()).add(site)
                v = st.out.get("fsm_state")
            return v
        return ga

    def _lvalue(self, n):
        """(locate(st) -> l, read(st, l) -> value, write(st, l, v) -> value stored): an lvalue is located exactly once
        per evaluation (its sub-expressions may have side effects: `*p++ = x`, `burst[k++] = s`)"""
        loc = self.LOC(n)
        w, size = _wrapper(_qt(n)), self.tsz(_qt(n))
        cv = self.tu.fold(n) if kind(n) == "DeclRefExpr" else None

        def read(st, l_):
            if l_ is None:
                return None
            if l_[0] == "env":
                v = l_[1].get(l_[2], _MISSING)
                return cv if v is _MISSING else v
            return self.load(st, l_[1], w, size)

        def write(st, l_, v):
            if l_ is None:
                return v
            if l_[0] == "env":
                fr, key = l_[1], l_[2]
                if isinstance(v, tuple) and v and v[0] == "struct":
                    for f_, x in v[1].items():
                        fr["%s.%s" % (key, f_)] = x
                    return v
                if w is not None and isinstance(v, int):
                    v = w(v)
                fr[key] = v
                return v
            self.store(st, l_[1], v, w, size)
            if isinstance(v, int) and w is not None:
                return w(v)
            return v
        return loc, read, write

    def _struct_value(self, il, qt):
        """InitListExpr of a struct type -> ("struct", {field: value})"""
        q = _clean(qt)
        name = q[len("struct "):] if q.startswith("struct ") else q
        try:
            flds = self.tu.record_fields(name)
        except AnalysisError:
            return lambda st: None
        parts = []
        for (fn_, ft), c in zip(flds, kids(il)):
            parts.append((fn_, self.X(c) if kind(c) != "ImplicitValueInitExpr" else (lambda st: 0)))
        return lambda st: ("struct", {fn_: f(st) for fn_, f in parts})

    def _cx(self, n):
        k = kind(n)
        ks = kids(n)
        if k in ("ParenExpr", "ConstantExpr", "OpaqueValueExpr") and ks:
            return self.X(ks[0])
        if k in ("IntegerLiteral", "CharacterLiteral"):
            v = int(n["value"])
            return lambda st: v
        if k in ("ImplicitCastExpr", "CStyleCastExpr"):
            ck = n.get("castKind")
            if ck == "ArrayToPointerDecay":
                return self._decay(ks[0])
            f = self.X(ks[0])
            if ck == "IntegralCast":
                w = _wrapper(_qt(n))
                if w is None:
                    return f
                return lambda st: (lambda v: w(v) if isinstance(v, int) else v)(f(st))
            if ck in ("IntegralToBoolean", "PointerToBoolean"):
                return lambda st: (lambda v: None if v is None else int(bool(v)))(f(st))
            if ck == "NullToPointer":
                return lambda st: 0
            return f
        if k == "DeclRefExpr":
            rd = n.get("referencedDecl", {})
            if rd.get("kind") == "EnumConstantDecl":
                v = self.tu.enums.get(rd.get("name"))
                return lambda st: v
            if rd.get("kind") == "FunctionDecl":
                return lambda st: None
            if self._is_array(n):
                return self._decay(n)
            return self._getter(n)
        if k == "MemberExpr":
            if self._is_array(n):
                return self._decay(n)
            if _fsm_state_read(self.tu, n):
                return self._ambient(n)
            return self._getter(n)
        if k == "ArraySubscriptExpr":
            return self._getter(n)
        if k == "UnaryExprOrTypeTraitExpr":
            v = self.tu.fold(n)
            if v is None and n.get("name") == "sizeof":      # struct objects and arrays of them
                t = (n.get("argType") or (strip(ks[0]).get("type") if ks else None) or {})
                v = self.tsz(t.get("desugaredQualType") or t.get("qualType") or "")
            return lambda st: v
        if k == "UnaryOperator":
            op = n.get("opcode")
            if op == "&":
                loc = self.LOC(ks[0])

                def f(st):
                    l_ = loc(st)
                    if l_ is None:
                        return None
                    return ("ref", l_[2], l_[1]) if l_[0] == "env" else l_[1]
                return f
            if op == "*":
                return self._getter(n)
            if op in ("++", "--"):
                loc, rd, wr = self._lvalue(ks[0])
                d = 1 if op == "++" else -1
                post = n.get("isPostfix")
                ps = self.tsz(_pointee(_qt(n)) or "") if _clean(_qt(n)).endswith("*") else None

                def f(st):
                    l_ = loc(st)
                    v = rd(st, l_)
                    nv = self.padd(st, v, d, ps) if _isptr(v) else (v + d if isinstance(v, int) else None)
                    nv = wr(st, l_, nv)
                    return v if post else nv
                return f
            f0 = self.X(ks[0])
            w = _wrapper(_qt(n))
            fn_ = {"-": lambda v: -v, "+": lambda v: v, "~": lambda v: ~v, "!": lambda v: int(not v)}.get(op)
            if fn_ is None:
                return lambda st: None

            def f(st):
                v = f0(st)
                if op == "!" and v is not None:
                    return int(not v)
                if not isinstance(v, int):
                    return None
                r = fn_(v)
                return w(r) if w else r
            return f
        if k == "BinaryOperator":
            return self._cbin(n)
        if k == "CompoundAssignOperator":
            op = n.get("opcode")[:-1]
            loc, rd, wr = self._lvalue(ks[0])
            fr = self.X(ks[1])
            ct = (n.get("computeResultType") or {})
            wc = _wrapper(ct.get("desugaredQualType") or ct.get("qualType") or "")
            ps = self.tsz(_pointee(_qt(ks[0])) or "") if _clean(_qt(ks[0])).endswith("*") else None

            def f(st):
                l_ = loc(st)
                a, b = rd(st, l_), fr(st)
                if _isptr(a) and op in ("+", "-") and isinstance(b, int):
                    r = self.padd(st, a, b if op == "+" else -b, ps)
                else:
                    r = _arith(op, a, b)
                    if r is not None and wc is not None:
                        r = wc(r)
                return wr(st, l_, r)
            return f
        if k == "ConditionalOperator":
            fc, fa, fb = self.X(ks[0]), self.X(ks[1]), self.X(ks[2])

            def f(st):
                c = fc(st)
                if c is None:
                    return None
                return fa(st) if c else fb(st)
            return f
        if k == "CallExpr":
            return self._ccall(n)
        if k == "CompoundLiteralExpr" and ks:
            return self.X(ks[0])
        if k == "InitListExpr":
            if _clean(_qt(n)).startswith("struct "):
                return self._struct_value(n, _qt(n))
            return lambda st: None
        if k == "ImplicitValueInitExpr":
            return lambda st: 0
        return lambda st: None

    def _cbin(self, n):
        op = n.get("opcode")
        a, b = kids(n)
        if op == "=":
            loc, rd, wr = self._lvalue(a)
            fr = self.X(b)

            def f(st):
                v = fr(st)
                return wr(st, loc(st), v)
            return f
        fa, fb = self.X(a), self.X(b)
        if op == ",":
            return lambda st: (fa(st), fb(st))[1]
        if op == "&&":
            def f(st):
                x = fa(st)
                if x is not None and not x:
                    return 0
                y = fb(st)
                if y is not None and not y:
                    return 0
                return None if x is None or y is None else 1
            return f
        if op == "||":
            def f(st):
                x = fa(st)
                if x is not None and x:
                    return 1
                y = fb(st)
                if y is not None and y:
                    return 1
                return None if x is None or y is None else 0
            return f
        w = _wrapper(_qt(n))
        psa = self.tsz(_pointee(_qt(a)) or "") if _clean(_qt(a)).endswith("*") else None
        psb = self.tsz(_pointee(_qt(b)) or "") if _clean(_qt(b)).endswith("*") else None

        cmpop = op in ("<", ">", "<=", ">=", "==", "!=")
        fast = _FAST.get(op)

        def f(st):
            x, y = fa(st), fb(st)
            if type(x) is int and type(y) is int:
                r = fast(x, y) if fast is not None else _arith(op, x, y)
                if r is not None and w is not None and not cmpop:
                    r = w(r)
                return r
            if _isptr(x) or _isptr(y):
                if op == "+":
                    return self.padd(st, x, y, psa) if _isptr(x) else self.padd(st, y, x, psb)
                if op == "-" and _isptr(x) and isinstance(y, int):
                    return self.padd(st, x, -y, psa)
                if _isptr(x) and _isptr(y) and x[1] == y[1]:
                    if op == "-":
                        return x[2] - y[2]
                    return _arith(op, x[2], y[2])
                if op in ("==", "!=") and (x == 0 or y == 0):
                    return int(op == "!=")
                return None
            r = _arith(op, x, y)
            if r is not None and w is not None and op not in ("<", ">", "<=", ">=", "==", "!="):
                r = w(r)
            return r
        return f

    def _ccall(self, n):
        ks = kids(n)
        callee = strip(ks[0])
        name = callee.get("referencedDecl", {}).get("name") if kind(callee) == "DeclRefExpr" else None
        args = ks[1:]
        hook = self.hooks.get(name)
        if hook is not None:
            fargs = [self.X(a) for a in args]
            return lambda st: hook(self, st, [f(st) for f in fargs], n)
        fd = self.tu.functions.get(name) if name else None
        body = None
        if fd is not None:
            for c in kids(fd):
                if kind(c) == "CompoundStmt":
                    body = c
        if body is None:
            if self.ext is not None and name:
                fargs = [self.X(a) for a in args]
                return lambda st: self.ext(self, st, name, [f(st) for f in fargs], n)
            return lambda st: None        # external function without a model: no effect on the decoded values, value unknown
        fargs = [self.X(a) for a in args]
        pnames = [p.get("name") for p in self.tu.fparams(fd)]

        def f(st):
            vals = [f_(st) for f_ in fargs]
            if st.depth > 6:
                raise AnalysisError("C evaluation: call depth")
            saved = st.env
            st.env = dict(zip(pnames, vals))
            st.depth += 1
            try:
                r = self.S(body)(st)
            except _Goto as j:
                raise AnalysisError("C evaluation: goto %s into a nested block" % j.label)
            finally:
                st.env = saved
                st.depth -= 1
            return r[1] if isinstance(r, tuple) else None
        return f

    # -- statements -------------------------------------------------------------------------
    def S(self, n):
        f = self._s.get(id(n))
        if f is None:
            f = self._s[id(n)] = self._cs(n)
        return f

    def inert(self, n):
        """True if executing or skipping n cannot change what the function decodes / emits: no jump, stores only
        through member expressions rooted at a pointer parameter / file-scope object, calls only of functions
        without a body whose arguments do not mention a local array or pointer"""
        r = self._inert.get(id(n))
        if r is not None:
            return r

        def root_ok(lv):
            lv = strip(lv, casts=True)
            while kind(lv) in ("MemberExpr",):
                if lv.get("isArrow"):
                    b = strip(kids(lv)[0], casts=True)
                    t = (b.get("type") or {}).get("qualType", "")
                    return kind(b) in ("DeclRefExpr", "MemberExpr") and "struct " in t and not any(w_ in t for w_ in self.watch)
                lv = strip(kids(lv)[0], casts=True)
            if kind(lv) == "DeclRefExpr":
                d = self.tu.by_id.get(lv.get("referencedDecl", {}).get("id"))
                return d is not None and kind(self.tu.parent.get(id(d)) or {}) == "TranslationUnitDecl" and \
                    "const" not in (d.get("type") or {}).get("qualType", "")
            return False
        ok = True
        for x in walk(n):
            k = kind(x)
            if k in ("ReturnStmt", "BreakStmt", "ContinueStmt", "GotoStmt", "LabelStmt", "CaseStmt", "DefaultStmt", "DeclStmt"):
                ok = False
            elif (k == "BinaryOperator" and x.get("opcode") == "=") or k == "CompoundAssignOperator" or \
                    (k == "UnaryOperator" and x.get("opcode") in ("++", "--")):
                if not root_ok(kids(x)[0]):
                    ok = False
            elif k == "CallExpr":
                c = strip(kids(x)[0])
                nm = c.get("referencedDecl", {}).get("name") if kind(c) == "DeclRefExpr" else None
                if nm is None or nm in self.hooks:
                    ok = False
                else:
                    fd = self.tu.functions.get(nm)
                    if fd is not None and any(kind(c_) == "CompoundStmt" for c_ in kids(fd)):
                        ok = False
                    for a in kids(x)[1:]:
                        for y in walk(a):
                            if kind(y) == "DeclRefExpr" and y.get("referencedDecl", {}).get("kind") == "VarDecl":
                                t = _clean((y.get("type") or {}).get("qualType", ""))
                                d = self.tu.by_id.get(y.get("referencedDecl", {}).get("id"))
                                loc = d is not None and kind(self.tu.parent.get(id(d)) or {}) == "DeclStmt"
                                if loc and (t.endswith("]") or t.endswith("*")):
                                    ok = False
            if not ok:
                break
        self._inert[id(n)] = ok
        return ok

    def _cond(self, c, arms):
        fc = self.X(c)
        txt = ctext(c)
        arms = [a for a in arms if a]

        def f(st):
            v = fc(st)
            if v is None:
                if arms and all(self.inert(a) for a in arms):
                    return None
                raise AnalysisError("C evaluation: condition is not determined by the datagram: %s" % txt[:120])
            return 1 if v else 0
        return f

    def _cs(self, n):
        k = kind(n)
        if k == "CompoundStmt":
            fs = [self.S(x) for x in kids(n)]
            labels = {x.get("declId"): i for i, x in enumerate(kids(n)) if kind(x) == "LabelStmt"}
            if not labels:
                def f(st):
                    for g in fs:
                        r = g(st)
                        if r is not None:
                            return r
                    return None
                return f

            def f(st):
                i = 0
                while i < len(fs):
                    try:
                        r = fs[i](st)
                    except _Goto as j:
                        if j.label not in labels:
                            raise
                        st.steps += 1
                        if st.steps > self.max_steps:
                            raise AnalysisError("C evaluation: step limit")
                        i = labels[j.label]         # a label of this block: continue there
                        continue
                    if r is not None:
                        return r
                    i += 1
                return None
            return f
        if k == "DeclStmt":
            acts = []
            for d in kids(n):
                if kind(d) != "VarDecl":
                    continue
                name = d.get("name")
                qt = (d.get("type") or {}).get("qualType", "")
                init = kids(d)[-1] if kids(d) else None
                if _clean(qt).endswith("]"):
                    ext, el = array_extent(qt), _pointee(_qt(d))
                    esz, w = self.tsz(el or ""), _wrapper(el or "")
                    ivals = None
                    if _clean(el or "").startswith("struct ") and not _clean(el).endswith("*"):
                        # an array of struct objects: one {member: value} per element (None: never written)
                        parts = None
                        if init is not None:
                            il = strip(init)
                            els = il.get("array_filler") if kind(il) == "InitListExpr" else None
                            els = [c for c in els[1:] if c] if els else (kids(il) if kind(il) == "InitListExpr" else None)
                            if els is not None and all(kind(strip(c)) in ("InitListExpr", "ImplicitValueInitExpr") for c in els):
                                parts = [self._struct_value(strip(c), el) if kind(strip(c)) == "InitListExpr" else None for c in els]

                        def act(st, name=name, ext=ext, esz=esz, parts=parts, has_init=init is not None):
                            key = name if st.depth == 0 else "%s@%d" % (name, st.depth)
                            st.recs.discard(key)
                            if ext is None or esz is None or (has_init and parts is None):
                                st.mem.pop(key, None)
                                return
                            vals = [None] * ext
                            if parts is not None:
                                for i in range(ext):
                                    v = parts[i](st) if i < len(parts) and parts[i] is not None else None
                                    vals[i] = dict(v[1]) if v else {}
                                    if v is None and i < len(parts) and parts[i] is not None:
                                        vals[i] = _UNKNOWN
                            st.mem[key], st.esz[key] = vals, esz
                            st.recs.add(key)
                        acts.append(act)
                        continue
                    if init is not None and kind(strip(init)) == "InitListExpr":
                        ivals = _init_elems(self.tu, strip(init))
                        if ivals is None:
                            ivals = "?"
                    elif init is not None:
                        ivals = "?"

                    def act(st, name=name, ext=ext, esz=esz, ivals=ivals, w=w):
                        key = name if st.depth == 0 else "%s@%d" % (name, st.depth)
                        if ext is None or esz is None or ivals == "?":
                            st.mem.pop(key, None)
                            return
                        st.esz[key] = esz
                        if ivals is None:
                            st.mem[key] = [None] * ext
                        else:
                            vals = [(v or 0) for v in ivals] + [0] * (ext - len(ivals))
                            st.mem[key] = [(v & 0xff) if esz == 1 else (w(v) if w else v) for v in vals]
                    acts.append(act)
                elif init is not None:
                    fi = self.X(init)
                    w = _wrapper(_qt(d))

                    def act(st, name=name, fi=fi, w=w):
                        v = fi(st)
                        if isinstance(v, tuple) and v and v[0] == "struct":
                            for f_, x in v[1].items():
                                st.env["%s.%s" % (name, f_)] = x
                        else:
                            st.env[name] = w(v) if (w is not None and isinstance(v, int)) else v
                    acts.append(act)
                else:
                    acts.append(lambda st, name=name: st.env.__setitem__(name, None))

            def f(st):
                for a in acts:
                    a(st)
                return None
            return f
        if k == "IfStmt":
            inner = n["inner"]
            has_else = n.get("hasElse", False)
            cond = inner[-3] if has_else else inner[-2]
            then = inner[-2] if has_else else inner[-1]
            els = inner[-1] if has_else else None
            fc = self._cond(cond, [then, els])
            ft = self.S(then)
            fe = self.S(els) if els else None

            def f(st):
                c = fc(st)
                if c is None:
                    return None
                if c:
                    return ft(st)
                return fe(st) if fe else None
            return f
        if k == "SwitchStmt":
            inner = n["inner"]
            fv = self.X(inner[-2])
            flat = []

            def flatten(x):
                if kind(x) in ("CaseStmt", "DefaultStmt"):
                    flat.append(("label", x))
                    flatten(x["inner"][-1])
                else:
                    flat.append(("stmt", x))
            for x in kids(inner[-1]):
                flatten(x)
            labels, default = [], None
            for i, (t, x) in enumerate(flat):
                if t == "label" and kind(x) == "CaseStmt":
                    vs = [self.tu.fold(c) for c in x["inner"][:-1] if c]
                    labels.append((i, vs))
                elif t == "label":
                    default = i
            code = [(i, self.S(x)) for i, (t, x) in enumerate(flat) if t == "stmt"]

            def f(st):
                v = fv(st)
                if v is None:
                    raise AnalysisError("C evaluation: switch value is not determined by the datagram")
                start = None
                for i, vs in labels:
                    if None in vs:
                        raise AnalysisError("C evaluation: case label does not fold")
                    if (len(vs) == 1 and vs[0] == v) or (len(vs) == 2 and vs[0] <= v <= vs[1]):
                        start = i
                        break
                if start is None:
                    start = default
                if start is None:
                    return None
                for i, g in code:
                    if i < start:
                        continue
                    r = g(st)
                    if r == _BRK:
                        return None
                    if r is not None:
                        return r
                return None
            return f
        if k == "ReturnStmt":
            ks = kids(n)
            fv = self.X(ks[0]) if ks else (lambda st: None)
            return lambda st: ("ret", fv(st))
        if k == "BreakStmt":
            return lambda st: _BRK
        if k == "ContinueStmt":
            return lambda st: _CNT
        if k in ("ForStmt", "WhileStmt", "DoStmt"):
            inner = n["inner"]
            if k == "ForStmt":
                init, cond, inc, body = inner[0], inner[2], inner[3], inner[4]
            elif k == "WhileStmt":
                init, cond, inc, body = None, inner[-2], None, inner[-1]
            else:
                init, cond, inc, body = None, inner[1], None, inner[0]
            fi = (self.S(init) if kind(init) == "DeclStmt" else self.X(init)) if init else None
            fc = self._cond(cond, []) if cond else None
            fx = self.X(inc) if inc else None
            fb = self.S(body)
            post = k == "DoStmt"

            def f(st):
                if fi:
                    fi(st)
                first = True
                while True:
                    st.steps += 1
                    if st.steps > self.max_steps:
                        raise AnalysisError("C evaluation: step limit")
                    if fc and not (post and first):
                        if not fc(st):
                            return None
                    first = False
                    r = fb(st)
                    if r == _BRK:
                        return None
                    if r is not None and r != _CNT:
                        return r
                    if fx:
                        fx(st)
            return f
        if k == "NullStmt":
            return lambda st: None
        if k == "LabelStmt":
            return self.S(n["inner"][-1])
        if k == "GotoStmt":
            name = n.get("targetLabelDeclId")

            def f(st):
                if name is None:
                    raise AnalysisError("C evaluation: goto without a resolvable label")
                raise _Goto(name)
            return f
        if k == "IndirectGotoStmt":
            def f(st):
                raise AnalysisError("C evaluation: computed goto")
            return f
        if k in ("CaseStmt", "DefaultStmt"):
            return self.S(n["inner"][-1])
        fe = self.X(n)

        def f(st):
            fe(st)
            return None
        return f

    def run(self, fdecl, st, args=None):
        names = [p.get("name") for p in self.tu.fparams(fdecl)]
        for i, nm in enumerate(names):
            st.env[nm] = (args or {}).get(nm)
        try:
            return self.S(self.tu.body(fdecl))(st)
        except _Goto as j:
            raise AnalysisError("C evaluation: goto %s into a nested block" % j.label)


_FAST = {"+": _o.add, "-": _o.sub, "*": _o.mul, "&": _o.and_, "|": _o.or_, "^": _o.xor,
         "<": lambda a, b: int(a < b), ">": lambda a, b: int(a > b), "<=": lambda a, b: int(a <= b),
         ">=": lambda a, b: int(a >= b), "==": lambda a, b: int(a == b), "!=": lambda a, b: int(a != b)}


def _arith(op, a, b):
    if not isinstance(a, int) or not isinstance(b, int):
        return None
    f = _FAST.get(op)
    if f is not None:
        return f(a, b)
    try:
        if op == "+":
            return a + b
        if op == "-":
            return a - b
        if op == "*":
            return a * b
        if op == "/":
            if b == 0:
                return None
            q = abs(a) // abs(b)
            return q if (a < 0) == (b < 0) else -q
        if op == "%":
            if b == 0:
                return None
            q = abs(a) // abs(b)
            q = q if (a < 0) == (b < 0) else -q
            return a - b * q
        if op == "<<":
            return a << b if 0 <= b < 64 else None
        if op == ">>":
            return a >> b if 0 <= b < 64 else None
        if op == "&":
            return a & b
        if op == "|":
            return a | b
        if op == "^":
            return a ^ b
        if op == "<":
            return int(a < b)
        if op == ">":
            return int(a > b)
        if op == "<=":
            return int(a <= b)
        if op == ">=":
            return int(a >= b)
        if op == "==":
            return int(a == b)
        if op == "!=":
            return int(a != b)
    except (ValueError, OverflowError):
        return None
    return None


# ---------------------------------------------------------------------------------------------
# trxcon: decisive layer = the receive / transmit functions evaluated on datagram families
# ---------------------------------------------------------------------------------------------
H_FRAMES = 2715648


def _be(octs):
    r = 0
    for o in octs:
        r = (r << 8) | o
    return r


def _hex(d, n=12):
    return "".join("%02x" % x for x in d[:n]) + (".." if len(d) > n else "") + "/%d" % len(d)


def _bswap(nbytes):
    def h(M, st, a, n):
        v = a[0] if a else None
        if not isinstance(v, int):
            return None
        v &= (1 << (8 * nbytes)) - 1
        return int.from_bytes(v.to_bytes(nbytes, "little"), "big")     # little-endian target: network order = swapped
    return h


_SWAPS = {"ntohl": _bswap(4), "htonl": _bswap(4), "ntohs": _bswap(2), "htons": _bswap(2),
          "osmo_ntohl": _bswap(4), "osmo_htonl": _bswap(4), "osmo_ntohs": _bswap(2), "osmo_htons": _bswap(2),
          "__builtin_bswap32": _bswap(4), "__builtin_bswap16": _bswap(2)}


def _rx_hooks(names, ftypes):
    def h_read(M, st, a, n):
        if len(a) < 3 or not _isptr(a[1]) or not isinstance(a[2], int):
            raise AnalysisError("trx_data_rx_cb: receive call with an undetermined buffer or capacity")
        p, cap = a[1], a[2]
        m = st.mem.get(p[1])
        if m is None or st.esz.get(p[1]) != 1:
            raise AnalysisError("trx_data_rx_cb: receive buffer is not a local octet array")
        d = st.out["dgram"]
        k = min(len(d), cap)
        for i in range(k):
            if 0 <= p[2] + i < len(m):
                m[p[2] + i] = d[i]
            else:
                st.faults.append(("oob", p[1], p[2] + i))
        st.out["cap"], st.out["ext"] = cap, len(m) - p[2]
        return k

    def h_load(nbytes, big):
        def h(M, st, a, n):
            if not a or not _isptr(a[0]):
                return None
            vs = [M.load(st, M.padd(st, a[0], i, 1), None, 1) for i in range(nbytes)]
            if any(v is None for v in vs):
                return None
            return _be(vs if big else vs[::-1])
        return h

    def h_ind(M, st, a, n):
        ref = a[1] if len(a) > 1 else None
        if not (isinstance(ref, tuple) and ref[0] == "ref"):
            raise AnalysisError("trx_data_rx_cb: the burst indication handed on is not the address of a local object")
        fr, key = ref[2], ref[1]
        snap = {f_: fr.get("%s.%s" % (key, f_)) for f_ in names}
        bp, bl = snap.get("burst"), snap.get("burst_len")
        soft = None
        if _isptr(bp) and isinstance(bl, int) and 0 <= bl <= 4096:
            w = _wrapper(_pointee(ftypes.get("burst") or "") or "")
            soft = [M.load(st, M.padd(st, bp, i, 1), w, 1) for i in range(bl)]
        st.out["ind"] = (snap, soft)
        raise CDone()
    return {**_SWAPS, "read": h_read, "recv": h_read, "recvfrom": h_read,
            "osmo_load32be": h_load(4, True), "osmo_load16be": h_load(2, True),
            "osmo_load32le": h_load(4, False), "osmo_load16le": h_load(2, False),
            "trxcon_phyif_handle_burst_ind": h_ind}


def _tx_hooks():
    def h_store(nbytes, big):
        def h(M, st, a, n):
            if len(a) < 2 or not _isptr(a[1]):
                raise AnalysisError("trx_if_handle_phyif_burst_req: store through an undetermined pointer")
            v = a[0]
            for i in range(nbytes):
                sh = 8 * (nbytes - 1 - i) if big else 8 * i
                M.store(st, M.padd(st, a[1], i, 1), None if not isinstance(v, int) else (v >> sh) & 0xff, None, 1)
            return None
        return h

    def h_memcpy(M, st, a, n):
        if len(a) < 3 or not _isptr(a[0]) or not isinstance(a[2], int) or not 0 <= a[2] <= 8192:
            raise AnalysisError("trx_if_handle_phyif_burst_req: memcpy with an undetermined destination or length")
        vals = [M.load(st, M.padd(st, a[1], i, 1), None, 1) if _isptr(a[1]) else None for i in range(a[2])]
        for i, v in enumerate(vals):
            M.store(st, M.padd(st, a[0], i, 1), v, None, 1)
        return a[0]

    def h_memset(M, st, a, n):
        if len(a) < 3 or not _isptr(a[0]) or not isinstance(a[2], int) or not 0 <= a[2] <= 8192:
            raise AnalysisError("trx_if_handle_phyif_burst_req: memset with an undetermined destination or length")
        for i in range(a[2]):
            M.store(st, M.padd(st, a[0], i, 1), a[1], None, 1)
        return a[0]

    def h_send(pi, ni):
        def h(M, st, a, n):
            p, ln = (a[pi] if len(a) > pi else None), (a[ni] if len(a) > ni else None)
            octs = M.octets(st, p, ln) if isinstance(ln, int) and 0 <= ln <= 8192 else None
            if octs is None:
                raise AnalysisError("trx_if_handle_phyif_burst_req: send with an undetermined buffer or length")
            st.out.setdefault("sent", []).append(octs)
            st.out["ext"] = len(st.mem[p[1]]) - p[2]
            return ln
        return h

    def h_sendmsg(M, st, a, n, who="trx_if_handle_phyif_burst_req: sendmsg with "):
        """sendmsg(fd, &msg, flags): ONE datagram - the iov_len octets at iov_base of each of the msg_iovlen elements of
        msg_iov, in order (gather output); it counts as the datagram of the burst request like send() / write()"""
        mh = M.fields(st, a[1]) if len(a) > 1 else None
        if mh is None:
            raise AnalysisError(who + "an undetermined message header")
        iov, cnt = mh("msg_iov"), mh("msg_iovlen")
        if any(mh(f) not in (None, 0) for f in ("msg_name", "msg_control")):
            raise AnalysisError(who + "a destination address or ancillary data is not modelled")
        return gather(M, st, iov, cnt, who)

    def h_writev(M, st, a, n):
        """writev(fd, iov, iovcnt): on a datagram socket one datagram gathered from the iovcnt elements"""
        return gather(M, st, a[1] if len(a) > 1 else None, a[2] if len(a) > 2 else None, "trx_if_handle_phyif_burst_req: writev with ")

    def gather(M, st, iov, cnt, who):
        if not _isptr(iov) or iov[1] not in st.recs or not isinstance(cnt, int) or not 0 <= cnt <= 64:
            raise AnalysisError(who + "an undetermined iovec array / element count")
        octs, room = [], 0
        for i in range(cnt):
            el = M.fields(st, M.padd(st, iov, i, st.esz[iov[1]]))
            if el is None:
                raise AnalysisError(who + "an element count beyond the iovec array")
            p, ln = el("iov_base"), el("iov_len")
            if ln == 0:
                continue
            o = M.octets(st, p, ln) if isinstance(ln, int) and 0 < ln <= 8192 else None
            if o is None:
                raise AnalysisError(who + "an undetermined iov_base / iov_len in element %d" % i)
            octs += o
            room += len(st.mem[p[1]]) - p[2]
        st.out.setdefault("sent", []).append(octs)
        st.out["ext"] = room          # octets the storage the datagram is gathered from can hold
        return len(octs)
    return {**_SWAPS, "osmo_store32be": h_store(4, True), "osmo_store16be": h_store(2, True), "osmo_store32le": h_store(4, False),
            "osmo_store16le": h_store(2, False), "memcpy": h_memcpy, "memmove": h_memcpy, "memset": h_memset,
            "send": h_send(1, 2), "sendto": h_send(1, 2), "write": h_send(1, 2), "sendmsg": h_sendmsg, "writev": h_writev}


def _rx_model(spec, us2s):
    """reference decoding of a TRXDv0 Rx datagram (spec/trxd.json + the toolkit's usbit2sbit table) and a datagram builder"""
    sp = spec["Rx"]["0"]
    hl, pad = sp["hdr_len"], sp["burst"]["legacy_pad"]
    bits0 = {nm: (sh, w) for nm, sh, w in bits_layout(spec["hdr_common"][0]["fields"], 1) if nm}
    off = {fd.get("name"): fd for fd in spec["hdr_common"] + sp["fields"] if fd.get("name")}
    o_fn, o_rssi, o_toa = off["fn"]["off"], off["rssi"]["off"], off["toa256"]["off"]
    want = {}
    for bl in sp["burst"]["lengths"]:
        want[hl + bl] = bl
        want[hl + bl + pad] = bl
    H = H_FRAMES
    rsv0 = 0xff
    for nm, (sh, w) in bits0.items():
        rsv0 &= ~(((1 << w) - 1) << sh)

    def ref(d):
        bl = want.get(len(d))
        if bl is None or (d[0] >> bits0["ver"][0]) & ((1 << bits0["ver"][1]) - 1) != 0:
            return None
        fn = _be(d[o_fn:o_fn + 4])
        if fn >= H:
            return None
        toa = _be(d[o_toa:o_toa + 2])
        return {"optional": bool(d[0] & rsv0),     # reserved bits set: no toolkit message; may be refused, else decoded per the layout
                "tn": (d[0] >> bits0["tn"][0]) & ((1 << bits0["tn"][1]) - 1), "fn": fn, "rssi": -d[o_rssi],
                "toa256": toa - 65536 if toa >= 32768 else toa, "burst_len": bl,
                "soft": [us2s[d[hl + i]] for i in range(bl)]}

    def mk(o0=0x02, fn=0x00123456, rssi=60, toa=(0x12, 0x34), bl=148, padded=False, pay=lambda i: (i * 7 + 3) & 0xff, ln=None):
        d = [0] * hl
        d[0] = o0
        d[o_fn:o_fn + 4] = [(fn >> 24) & 255, (fn >> 16) & 255, (fn >> 8) & 255, fn & 255]
        d[o_rssi] = rssi
        d[o_toa], d[o_toa + 1] = toa
        if ln is not None:
            d = (d + [pay(i) for i in range(max(0, ln - hl))])[:ln]
        else:
            d += [pay(i) for i in range(bl)] + ([0] * pad if padded else [])
        return d
    return sp, hl, pad, want, ref, mk


def trxcon_rx_semantic(L, repo, spec, us2s, tier, tu, fsm=None):
    """trx_data_rx_cb evaluated on datagram families; every result is compared with the reference decoding
    (spec/trxd.json + the toolkit's usbit2sbit table)"""
    FC = tu.rel
    f = tu.func("trx_data_rx_cb")
    L.fn(FC, "trx_data_rx_cb")
    flds = tu.record_fields("trxcon_phyif_burst_ind")
    names = [nm for nm, _ in flds]
    if not {"tn", "fn", "rssi", "toa256", "burst", "burst_len"} <= set(names):
        raise AnalysisError("struct trxcon_phyif_burst_ind: anchor members tn/fn/rssi/toa256/burst/burst_len not found")
    M = CMach(tu, _rx_hooks(names, dict(flds)))
    M.watch = ("trxcon_phyif_burst_ind",)
    sp, hl, pad, want, ref, mk = _rx_model(spec, us2s)
    H = H_FRAMES
    rmin, rmax = 47, 120
    try:
        rci = repo.need_class("data_msg", "RxMsg")
        ev = Ev(repo, repo.mod("data_msg"), self_cls=rci)
        a_, b_ = ev.ev(repo.find_attr(rci, "RSSI_MAX")[1]), ev.ev(repo.find_attr(rci, "RSSI_MIN")[1])
        if isinstance(a_, int) and isinstance(b_, int) and 0 <= -a_ <= -b_ <= 255:
            rmin, rmax = -a_, -b_
    except Exception:
        pass
    bad = {k: [] for k in ("len", "ver", "fnb", "acc", "tn", "fn", "rssi", "toa256", "burst_len", "soft", "fault")}
    cnt = {"runs": 0, "delivered": 0}
    info = {}

    def one(tag, d):
        # the decoding must not depend on what the TRXC state machine is doing: a run that read the FSM state is repeated
        # in every state in which C04.R7 found the burst path open
        r = None
        for sv, sname in (fsm or [(None, None)]):
            st = CState()
            st.out["dgram"], st.out["fsm_state"] = d, sv
            try:
                M.run(f, st)
            except CDone:
                pass
            r = _judge(tag, d, st, (lambda d_, n=12, t=sname: "%s [FSM state %s]" % (_hex(d_, n), t)) if sname else _hex)
            if not st.out.get("fsm_sites"):
                break
        return r

    def _judge(tag, d, st, _hex):
        cnt["runs"] += 1
        if "cap" in st.out:
            info.setdefault("caps", set()).add(st.out["cap"])
            info.setdefault("exts", set()).add(st.out["ext"])
        got = st.out.get("ind")
        exp = ref(d)
        flt = sorted({x for x in st.faults if x[0] == "oob" or got is not None})
        if flt:
            # an access outside the buffer, or a delivered value that depends on an octet which is not part of the datagram
            bad["fault"].append((_hex(d), flt[:3]))
            return got, exp
        if got is not None:
            cnt["delivered"] += 1
            und = [k for k in ("tn", "fn", "rssi", "toa256", "burst_len") if not isinstance(got[0].get(k), int)]
            if und or got[1] is None or any(not isinstance(x, int) for x in got[1]):
                raise AnalysisError("trx_data_rx_cb: the evaluation does not determine the %s handed on in the burst indication" % (
                    ", ".join("`%s`" % k for k in und) or "soft bits"))
        if (got is None) != (exp is None):
            if got is None and exp.get("optional"):
                return got, exp
            bad[tag if tag in ("len", "ver", "fnb") else "acc"].append((_hex(d), "delivered" if got else "rejected"))
            return got, exp
        if got is None:
            return got, exp
        snap, soft = got
        for k in ("tn", "fn", "rssi", "toa256", "burst_len"):
            if snap.get(k) != exp[k]:
                bad[k].append((_hex(d), snap.get(k), exp[k]))
        if soft != exp["soft"]:
            i = next((i for i in range(min(len(soft or []), len(exp["soft"]))) if soft[i] != exp["soft"][i]), None)
            bad["soft"].append((_hex(d), "length %s/%d" % (None if soft is None else len(soft), len(exp["soft"])) if i is None else
                                ("position %d octet %d" % (i, d[hl + i]), soft[i], exp["soft"][i])))
        return got, exp
    # (1) every datagram length
    one("len", mk(ln=1))
    caps = info.get("caps") or set()
    if len(caps) != 1:
        raise AnalysisError("trx_data_rx_cb: receive capacity not determined (%s)" % sorted(caps))
    cap = min(caps)
    ext = min(info["exts"])
    top = max(ext, cap, max(want) + 8)
    accepted = {}
    for ln in range(1, top + 1):
        if ln > cap and ln not in want:
            continue            # longer than the receive capacity and not a legal length: outside the property (arrives truncated)
        got, exp = one("len", mk(ln=ln))
        if got is not None:
            accepted[ln] = got[0].get("burst_len")
    # (2) all values of octet 0
    for v in range(256):
        one("ver", mk(o0=v))
    # (3) header octets and soft bits: run j puts j-dependent values everywhere
    for j in range(256):
        one("main", mk(o0=j & 0x0f, fn=(j << 8) | (255 - j), rssi=rmin + j % (rmax - rmin + 1), toa=(j, (j * 37 + 11) & 0xff),
                       padded=bool(j & 1), pay=lambda i, j=j: (i + j) & 0xff))
    # (4) frame number: octet walks and the hyperframe boundary
    for j in range(256):
        if tier == "thorough" or j < 4 or j & (j - 1) == 0 or j in (0x29, 0x2a, 0x55, 0x7f, 0xaa, 0xfe, 0xff):
            one("fnb", mk(fn=j << 24))          # every such FN is far beyond the hyperframe: a sample suffices in the quick tier
        one("fnb", mk(fn=(j << 16) | 0x6fff))
    for fn in (0, 1, 255, 256, 65535, 65536, H - 2, H - 1, H, H + 1, 0x00ffffff, 0x01000000, 0x7fffffff, 0x80000000, 0xffffffff):
        one("fnb", mk(fn=fn))
    # (5) ToA256 sign boundary
    edge = (0, 1, 0x7f, 0x80, 0xfe, 0xff, 0x55, 0xaa)
    for a_ in edge:
        for b_ in edge:
            one("toa", mk(toa=(a_, b_)))
    # (6) the long burst
    longs = [bl for bl in sp["burst"]["lengths"] if bl != 148]
    for bl in longs:
        for j in range(256 if tier == "thorough" else 16):
            step = 1 if tier == "thorough" else 16
            one("long", mk(bl=bl, padded=bool(j & 1), o0=j & 7, pay=lambda i, j=j, step=step: (i + j * step) & 0xff))
    line = tu.line(f)
    R, fn_ = "C04.R2", "trx_data_rx_cb"
    L.floor(R, "datagrams evaluated through trx_data_rx_cb", cnt["runs"], 1000)
    L.floor(R, "datagrams delivered as burst indication", cnt["delivered"], 200)
    L.require(R, FC, fn_,
              "accepted datagram lengths and the burst length handed on (header + {148, 444}, with or without the 2 legacy octets which are stripped; a datagram longer than the receive capacity arrives truncated); every other length 1..%d is rejected" % top,
              want, accepted, line=line)
    L.ob(R, FC, fn_, "no delivered value depends on an octet outside the received datagram and no access leaves the buffer (every datagram length, every family)",
         [], bad["fault"][:4], not bad["fault"], line)
    L.ob(R, FC, fn_, "only header version 0 is accepted (octet 0 bits 7..4), all 256 values of octet 0 (a datagram with the reserved bit set may be refused)", [], bad["ver"][:4], not bad["ver"], line)
    L.ob(R, FC, fn_, "a datagram of legal length, version 0 and FN < 2715648 is delivered, whatever its other octets", [], bad["acc"][:4], not bad["acc"], line)
    L.ob(R, FC, fn_, "timeslot is taken from octet 0 bits 2..0 (all 16 values of the low nibble)", [], bad["tn"][:4], not bad["tn"], line)
    L.ob(R, FC, fn_, "frame number is the 32-bit big-endian value at octets 1..4 (every value of each octet)", [], bad["fn"][:4], not bad["fn"], line)
    L.ob(R, FC, fn_, "RSSI is the negated octet 5 for every valid RSSI octet (%d..%d)" % (rmin, rmax), [], bad["rssi"][:4], not bad["rssi"], line)
    L.ob(R, FC, fn_, "ToA256 is the signed 16-bit big-endian value at octets 6..7 (every value of each octet, sign boundary grid)",
         [], bad["toa256"][:4], not bad["toa256"], line)
    L.ob(R, FC, fn_, "burst length handed on is the validated payload length", [], bad["burst_len"][:4], not bad["burst_len"], line)
    L.ob(R, FC, fn_, "soft bits start right after the %d-octet v0 header and equal the toolkit's usbit2sbit table: all 256 octet values at each of the 148 positions, value/position sweeps of the 444-bit burst" % hl,
         [], bad["soft"][:4], not bad["soft"], line)
    L.ob(R, FC, fn_, "a burst is delivered exactly for FN < 2715648 (the toolkit's GSM_HYPERFRAME): octet walks and boundary 2715647 / 2715648",
         [], bad["fnb"][:4], not bad["fnb"], line)
    badr = [(u, us2s[u]) for u in range(255) if us2s[u] != 127 - u]
    L.ob(R, rel("data_msg"), "Msg", "soft bit = 127 - octet for 0..254, 255 -> -127 (reference) in the table trxcon is compared with", [], badr[:4],
         not badr and us2s[255] == -127)
    Hpy = fold(repo, repo.mod("gsm_shared"), ast.parse("GSM_HYPERFRAME", mode="eval").body)
    L.require(R, rel("gsm_shared"), "<module>", "toolkit's GSM_HYPERFRAME equals trxcon's GSM_TDMA_HYPERFRAME", H, Hpy)
    L.unit(rel("gsm_shared"))
    largest = hl + max(sp["burst"]["lengths"]) + pad
    L.ob("C04.R4", FC, fn_, "trxcon's receive buffer and receive capacity hold the largest v0 Rx datagram the toolkit sends (%d octets incl. legacy padding)" % largest,
         ">= %d" % largest, min(cap, ext), min(cap, ext) >= largest)
    L.extra["c04_rx_runs"] = cnt["runs"]
    return M


def trxcon_tx_semantic(L, repo, spec, tier, tu):
    """C04.R3 decides the clause `a Tx burst request leaves trxcon as ONE TRXDv0 datagram tn | FN big-endian | attenuation |
    hard bits`: the function is evaluated on witness requests and what the send call puts on the wire is compared with the
    reference layout.  The wire content is the buffer of send()/sendto()/write() or, for sendmsg(), the concatenation of
    the iovec elements (gather output) - how the octets were brought together (one stack buffer + memcpy, header array +
    the caller's hard bits) is not part of the decision.  C04.R4 (transmit side): the storage the LARGEST datagram is
    sent from holds header + the largest burst."""
    FC = tu.rel
    f2 = tu.func("trx_if_handle_phyif_burst_req")
    L.fn(FC, "trx_if_handle_phyif_burst_req")
    ps = tu.fparams(f2)
    brp = [p for p in ps if "trxcon_phyif_burst_req" in (p.get("type") or {}).get("qualType", "")]
    if len(brp) != 1:
        raise AnalysisError("trx_if_handle_phyif_burst_req: burst request parameter not found")
    P = brp[0].get("name")
    names = [nm for nm, _ in tu.record_fields("trxcon_phyif_burst_req")]
    if not {"tn", "fn", "pwr", "burst", "burst_len"} <= set(names):
        raise AnalysisError("struct trxcon_phyif_burst_req: anchor members tn/fn/pwr/burst/burst_len not found")
    M = CMach(tu, _tx_hooks())
    M.watch = ("trxcon_phyif_burst_req",)
    spt = spec["Tx"]["0"]
    hl = spt["hdr_len"]
    bits0 = {nm: (sh, w) for nm, sh, w in bits_layout(spec["hdr_common"][0]["fields"], 1) if nm}
    off = {fd.get("name"): fd for fd in spec["hdr_common"] + spt["fields"] if fd.get("name")}
    H = H_FRAMES
    bad, faults, nsent = [], [], []
    cnt = [0]
    exts = {}

    def one(tn, fn, pwr, bits):
        st = CState()
        st.mem["@bits"], st.esz["@bits"] = list(bits), 1
        for k, v in (("tn", tn), ("fn", fn), ("pwr", pwr), ("burst", ("ptr", "@bits", 0)), ("burst_len", len(bits))):
            st.env["%s->%s" % (P, k)] = v
        M.run(f2, st)
        cnt[0] += 1
        exp = [0] * hl
        exp[0] = tn << bits0["tn"][0]
        exp[off["fn"]["off"]:off["fn"]["off"] + 4] = [(fn >> 24) & 255, (fn >> 16) & 255, (fn >> 8) & 255, fn & 255]
        exp[off["pwr"]["off"]] = pwr
        exp += list(bits)
        sent = st.out.get("sent") or []
        if "ext" in st.out:
            exts.setdefault(len(bits), set()).add(st.out["ext"])
        if any(x is _UNKNOWN for o_ in sent for x in o_):
            raise AnalysisError("trx_if_handle_phyif_burst_req: the evaluation does not determine every octet that is sent")
        if len(sent) != 1:
            nsent.append((tn, fn, pwr, len(bits), len(sent)))
        elif sent[0] != exp:
            i = next((i for i in range(min(len(sent[0]), len(exp))) if sent[0][i] != exp[i]), None)
            bad.append(("tn=%d fn=%d pwr=%d burst_len=%d" % (tn, fn, pwr, len(bits)),
                        "length %d/%d" % (len(sent[0]), len(exp)) if i is None else ("octet %d" % i, sent[0][i], exp[i])))
        if st.faults:
            faults.append((tn, fn, pwr, len(bits), sorted(set(st.faults))[:3]))
    lens = spt["burst"]["lengths"]
    for j in range(256):
        fn = (j * 10601 + 7) % H
        one(j & 7, fn, j, [((i * i + i // 3 + j) >> 1) & 1 for i in range(lens[0])])
    for tn in range(8):
        for pwr in (0, 1, 0x7f, 0x80, 0xff):
            one(tn, 0x00123456, pwr, [(i ^ tn) & 1 for i in range(lens[0])])
    for fn in (0, 1, 255, 256, 65535, 65536, 0x00010203, 0x00203040, H - 1):
        one(3, fn, 10, [i & 1 for i in range(lens[0])])
    for bl in lens[1:]:
        for j in range(16):
            one(j & 7, (j * 170003 + 11) % H, (j * 17) & 0xff, [((i * 7 + j) % 5) & 1 for i in range(bl)])
    R, fn_ = "C04.R3", "trx_if_handle_phyif_burst_req"
    line = tu.line(f2)
    L.floor(R, "burst requests evaluated through trx_if_handle_phyif_burst_req", cnt[0], 300)
    L.ob(R, FC, fn_, "exactly one datagram is sent on the data socket per burst request", [], nsent[:4], not nsent, line)
    L.ob(R, FC, fn_, "the datagram is: octet 0 = timeslot (version nibble 0), frame number big-endian at octets 1..4, attenuation at octet 5, hard bits right after the %d-octet header, length = header + burst length (all timeslots, all attenuation values, frame-number sweep, both burst lengths)" % hl,
         [], bad[:4], not bad, line)
    L.ob(R, FC, fn_, "no octet that was never written is sent and no access leaves the buffers", [], faults[:4], not faults, line)
    largest_tx = hl + max(lens)
    ext2 = min(exts[max(lens)]) if exts.get(max(lens)) else None     # the storage the largest datagram is sent from
    L.ob("C04.R4", FC, fn_, "trxcon's transmit buffer holds header + the largest burst (%d)" % largest_tx,
         ">= %d" % largest_tx, ext2, ext2 is not None and ext2 >= largest_tx)
    L.extra["c04_tx_runs"] = cnt[0]


# ---------------------------------------------------------------------------------------------
# C04.R6: the storage the burst indication points to keeps the converted soft bits until the
# indication is delivered (aliasing / lifetime across the calls made before the delivery)
# ---------------------------------------------------------------------------------------------
_MAIN_STUB_DEFINES = ("LOG_FILENAME_BASENAME=0", "LOG_FILENAME_POS_LINE_END=0")


def _trxcon_tu(L, relfile):
    """translation unit of src/host/trxcon/<relfile>, parsed once per run (None if clang cannot parse it with the
    analysis stubs; the declaration-only stub of libosmocore's logging.h lacks two enumerators trxcon_main.c uses)"""
    cache = L.__dict__.setdefault("_c04_tus", {})
    if relfile not in cache:
        t = None
        for defs in ((), _MAIN_STUB_DEFINES):
            try:
                t = TU(L.repo, "trxcon", relfile, defines=defs, L=L)
                break
            except AnalysisError:
                t = None
        cache[relfile] = t
    return cache[relfile]


class _Calls:
    """Resolved direct-call graph over trxcon's own translation units, explored on demand: which functions defined
    (with a body) in the home translation unit can a function called from it reach through direct calls?  A callee is
    resolved to the FunctionDecl with a body in the clang AST of the file that defines it (the file is located by a
    scan of the sources, the definition is confirmed in its AST); calls through pointers, library functions and files
    clang cannot parse end a chain (no verdict is derived from them)."""
    MAX_FUNCS = 64

    def __init__(self, L, home):
        self.L, self.home = L, home
        self._src = None
        self._def = {}
        self._re = {}

    def _sources(self):
        if self._src is None:
            self._src = {}
            d = os.path.join(self.L.repo, KINDS["trxcon"]["cwd"], "src")
            try:
                names = sorted(os.listdir(d))
            except OSError:
                names = []
            for fn_ in names:
                if fn_.endswith(".c"):
                    try:
                        with open(os.path.join(d, fn_), encoding="utf-8", errors="replace") as f:
                            self._src["src/" + fn_] = f.read()
                    except OSError:
                        pass
        return self._src

    @staticmethod
    def _body(fd):
        for c in kids(fd or {}):
            if kind(c) == "CompoundStmt":
                return c
        return None

    def definition(self, name):
        """(tu, FunctionDecl with body) | None"""
        if name in self._def:
            return self._def[name]
        r = None
        if self._body(self.home.functions.get(name)) is not None:
            r = (self.home, self.home.functions[name])
        else:
            from cfront import slice_function
            home_rel = os.path.relpath(self.home.rel, KINDS["trxcon"]["cwd"])
            for relfile, text in self._sources().items():
                if relfile == home_rel or name not in text:
                    continue
                try:
                    slice_function(text, name)
                except AnalysisError:
                    continue
                t = _trxcon_tu(self.L, relfile)
                if t is not None and self._body(t.functions.get(name)) is not None:
                    r = (t, t.functions[name])
                    break
        self._def[name] = r
        return r

    def callees(self, fd):
        out = []
        for n in walk(self._body(fd)):
            if kind(n) == "CallExpr":
                c = strip(kids(n)[0])
                rd = c.get("referencedDecl", {}) if kind(c) == "DeclRefExpr" else {}
                if rd.get("kind") == "FunctionDecl" and rd.get("name") and rd["name"] not in out:
                    out.append(rd["name"])
        return out

    def reentries(self, name):
        """[(function of the home TU, call chain from `name`)] reachable from the external function `name`"""
        if name in self._re:
            return self._re[name]
        found, seen, queue = [], {name}, [(name, (name,))]
        while queue and len(seen) <= self.MAX_FUNCS:
            cur, path = queue.pop(0)
            d = self.definition(cur)
            if d is None:
                continue
            if d[0] is self.home:
                if cur != name:
                    found.append((cur, path))
                continue                      # what it calls inside the home TU is evaluated with it
            for c in self.callees(d[1]):
                if c not in seen:
                    seen.add(c)
                    queue.append((c, path + (c,)))
        self._re[name] = found
        return found


def _mem_name(base):
    """readable name of a CMach memory object (`<object>.<member>@<frame id>` for a buffer inside a struct object)"""
    b = str(base)
    i = b.rfind("@")
    if i > 0 and all(ch in "0123456789abcdef" for ch in b[i + 1:]) and len(b) - i > 6:
        b = b[:i]
    return b


def r6_burst_storage(L, repo, spec, tier, tu, fsm=None):
    """C04.R6 -- decides a necessary condition of the clause `every version-0 burst the toolkit sends towards L1 is
    decoded by trxcon to the same ... soft bits` at its observation point (the trxcon_phyif_burst_ind handed to the
    scheduler): the object the indication's `burst` member points into still holds the soft bits converted from the
    received datagram when trxcon_phyif_handle_burst_ind() is called.  trx_data_rx_cb() is evaluated (closure compiler
    over the clang AST) on valid datagrams twice: with every function that has no body in trx_if.c treated as having no
    effect, and with each such call that is executed before the delivery resolved through the direct-call graph of
    trxcon's translation units - when a chain of direct calls leads back into a function of trx_if.c whose parameters
    are the transceiver instance and a PHYIF burst request (the TRXD transmit path), that function is evaluated at the
    call, on the same transceiver instance, with an uplink burst due.  What is handed to the delivery hook must be the
    same in both evaluations; a difference means that the transmit path writes the storage the indication still points
    to (shared PDU buffer + a call that transmits before the delivery).  Separate buffers, the delivery made first, or
    the burst copied out before the call leave both evaluations equal - the rule never looks at names, declaration
    sites or statement order."""
    R, FC, fn_ = "C04.R6", tu.rel, "trx_data_rx_cb"
    f = tu.func(fn_)
    L.fn(FC, fn_)
    flds = tu.record_fields("trxcon_phyif_burst_ind")
    names = [nm for nm, _ in flds]
    if not {"tn", "fn", "rssi", "toa256", "burst", "burst_len"} <= set(names):
        raise AnalysisError("struct trxcon_phyif_burst_ind: anchor members tn/fn/rssi/toa256/burst/burst_len not found")
    rnames = [nm for nm, _ in tu.record_fields("trxcon_phyif_burst_req")]
    if not {"tn", "fn", "pwr", "burst", "burst_len"} <= set(rnames):
        raise AnalysisError("struct trxcon_phyif_burst_req: anchor members tn/fn/pwr/burst/burst_len not found")
    # the transceiver instance: the object the callback's osmo_fd carries in `data`
    ofd = [p for p in tu.fparams(f) if _clean((p.get("type") or {}).get("qualType", "")) == "struct osmo_fd *"]
    inst_t = None
    if len(ofd) == 1:
        for n in walk(tu.body(f)):
            init = None
            if kind(n) == "VarDecl" and kids(n):
                init, qt = kids(n)[-1], _clean((n.get("type") or {}).get("qualType", ""))
            elif kind(n) == "BinaryOperator" and n.get("opcode") == "=":
                init, qt = kids(n)[1], _clean((kids(n)[0].get("type") or {}).get("qualType", ""))
            if init is None or not (qt.startswith("struct ") and qt.endswith("*")):
                continue
            src = strip(init, casts=True)
            if kind(src) == "MemberExpr" and src.get("name") == "data" and src.get("isArrow") and \
                    kind(strip(kids(src)[0])) == "DeclRefExpr" and \
                    strip(kids(src)[0]).get("referencedDecl", {}).get("name") == ofd[0].get("name"):
                inst_t = qt
                break
    G = _Calls(L, tu)
    sp, spt = spec["Rx"]["0"], spec["Tx"]["0"]
    hl, pad = sp["hdr_len"], sp["burst"]["legacy_pad"]
    off = {fd.get("name"): fd for fd in spec["hdr_common"] + sp["fields"] if fd.get("name")}
    tlens = spt["burst"]["lengths"]
    stat = {"resolved": set(), "modelled": 0, "skipped": set()}

    def quiet_send(M, st, a, n):
        return a[2] if len(a) > 2 and isinstance(a[2], int) else None

    def plan(fd):
        """how to bind the parameters of a re-entered function: instance pointer / witness burst request; None if the
        function takes anything else (not the TRXD transmit path: not modelled)"""
        out = []
        for p in tu.fparams(fd):
            qt = _clean((p.get("type") or {}).get("qualType", ""))
            if inst_t is not None and qt == inst_t:
                out.append("inst")
            elif qt == "struct trxcon_phyif_burst_req *":
                out.append("req")
            else:
                return None
        return out if "req" in out and "inst" in out else None

    def ext(M, st, name, vals, node):
        if not st.out.get("model") or st.out.get("busy"):
            return None
        targets = G.reentries(name)
        stat["resolved"].add(name)
        for g, path in targets:
            fd = tu.functions[g]
            pl = plan(fd)
            if pl is None:
                stat["skipped"].add(g)
                continue
            j = st.out["j"]
            bl = tlens[j % len(tlens)]
            ul = {"@ul.tn": j & 7, "@ul.fn": (j * 10601 + 9) % H_FRAMES, "@ul.pwr": (j * 29) & 0xff,
                  "@ul.burst": ("ptr", "@ulbits", 0), "@ul.burst_len": bl}
            st.mem["@ulbits"], st.esz["@ulbits"] = [((i * i + i // 3 + j) >> 1) & 1 for i in range(bl)], 1
            vals_ = [st.out["inst"] if k == "inst" else ("ref", "@ul", ul) for k in pl]
            before = {b: list(m) for b, m in st.mem.items()}
            saved = st.env
            st.env = dict(zip([p.get("name") for p in tu.fparams(fd)], vals_))
            st.depth += 1
            st.out["busy"] = True
            try:
                M.S(tu.body(fd))(st)
            except _Goto as jmp:
                raise AnalysisError("C evaluation: goto %s into a nested block" % jmp.label)
            except AnalysisError as e:
                # not evaluable: undo what was evaluated of it; whether that matters is decided at the delivery (a local
                # array of the callback cannot be reached from the instance / request the function is given)
                for b_ in list(st.mem):
                    if b_ in before:
                        st.mem[b_][:] = before[b_]
                    else:
                        del st.mem[b_]
                st.out.setdefault("re_failed", []).append((name, g, str(e)[:120]))
                continue
            finally:
                st.env = saved
                st.depth -= 1
                st.out["busy"] = False
            stat["modelled"] += 1
            changed = sorted(b for b, m in st.mem.items() if b in before and m != before[b])
            st.out.setdefault("re", []).append((name, g, path, changed))
        return None
    hooks = dict(_tx_hooks())
    hooks.update(_rx_hooks(names, dict(flds)))
    hooks.update({"send": quiet_send, "sendto": quiet_send, "write": quiet_send, "sendmsg": lambda M, st, a, n: None, "writev": lambda M, st, a, n: None})
    M = CMach(tu, hooks)
    M.watch = ("trxcon_phyif_burst_ind", "trxcon_phyif_burst_req")
    M.ext = ext

    def run(j, d, model, sv=None):
        st = CState()
        frame = {}
        inst = ("ref", "(%s)" % inst_t[:-1].strip(), frame) if inst_t else None
        args = {}
        if inst is not None:
            frame["@ofd.data"] = inst
            args[ofd[0].get("name")] = ("ref", "@ofd", frame)
        st.out.update({"dgram": d, "model": model, "j": j, "inst": inst, "fsm_state": sv})
        try:
            M.run(f, st, args)
        except CDone:
            pass
        got = st.out.get("ind")
        if got is not None:
            got = ({k: v for k, v in got[0].items() if k != "burst"}, got[1], got[0].get("burst"))
        return got, st.out.get("re") or [], st.out.get("re_failed") or []

    def callback_local(base):
        """a memory object of the evaluation that is an automatic array of the callback (or of a helper it calls)"""
        import re
        m = re.fullmatch(r"([A-Za-z_]\w*)(@\d+)?", str(base))
        return m is not None and m.group(1) not in tu.vars
    fam = []
    for j in range(12):
        bl = sp["burst"]["lengths"][1 if (j % 4 == 3 and len(sp["burst"]["lengths"]) > 1) else 0]
        d = [0] * hl
        d[0] = j & 7
        fnv = (j * 170003 + 11) % H_FRAMES
        o = off["fn"]["off"]
        d[o:o + 4] = [(fnv >> 24) & 255, (fnv >> 16) & 255, (fnv >> 8) & 255, fnv & 255]
        d[off["rssi"]["off"]] = 60 + j
        d[off["toa256"]["off"]], d[off["toa256"]["off"] + 1] = j, (j * 37 + 11) & 0xff
        d += [(i * 7 + 3 + 19 * j) & 0xff for i in range(bl)] + ([0] * pad if j & 1 else [])
        fam.append(d)
    bad, delivered, reent = [], 0, 0
    for j, d, sv in [(j, d, sv) for j, d in enumerate(fam) for sv, _ in (fsm or [(None, None)])]:
        plain, _, _ = run(j, d, False, sv)
        if plain is not None:
            delivered += 1
        mod, re_, failed = run(j, d, True, sv)
        if failed and mod is not None and not (_isptr(mod[2]) and callback_local(mod[2][1])):
            x, g, err = failed[0]
            raise AnalysisError("trx_data_rx_cb: %s() is reached from the call of %s() made before the burst indication is delivered, the indication's `burst` points into `%s`, and %s() cannot be evaluated there (%s)" % (
                g, x, _mem_name(mod[2][1]) if _isptr(mod[2]) else "?", g, err))
        if failed:
            stat["skipped"].update(g for _, g, _ in failed)
        if not re_:
            continue
        reent += 1
        why = "; ".join("%s(), reached from the call of %s() made before the delivery, writes %s (direct calls %s)" % (
            g, x, ", ".join("`%s`" % _mem_name(b) for b in ch if not str(b).startswith("@ul")) or "nothing", " -> ".join(path))
            for x, g, path, ch in re_)
        if (plain is None) != (mod is None):
            bad.append((why, "burst indication %s" % ("no longer delivered" if mod is None else "delivered only then"), _hex(d)))
            continue
        if plain is None:
            continue
        diff = sorted(k for k in plain[0] if plain[0][k] != mod[0].get(k))
        if diff:
            bad.append((why, "fields handed on / decoded from the datagram: %s" % {k: (mod[0].get(k), plain[0][k]) for k in diff}, _hex(d)))
        elif plain[1] != mod[1]:
            a_, b_ = plain[1] or [], mod[1] or []
            pos = [i for i in range(min(len(a_), len(b_))) if a_[i] != b_[i]]
            base = _mem_name(mod[2][1]) if _isptr(mod[2]) else "?"
            bad.append((why, "the indication's `burst` points into `%s`: %d of %d soft bits handed on differ from those converted from the datagram (first: position %s handed on %s, converted %s)" % (
                base, len(pos) if pos else abs(len(a_) - len(b_)), len(a_), pos[0] if pos else None, b_[pos[0]] if pos else None,
                a_[pos[0]] if pos else None), _hex(d)))
    line = tu.line(f)
    L.floor(R, "burst indications observed at the delivery (valid datagrams, both burst lengths, with / without legacy padding)", delivered, 8)
    L.ob(R, FC, fn_, "the storage the burst indication's `burst` points into is not written between the reception of the datagram and the call of trxcon_phyif_handle_burst_ind(): a function called before the delivery whose direct-call chain re-enters the TRXD transmit path of trx_if.c (evaluated there on the same transceiver instance with an uplink burst due) leaves the fields and soft bits handed on unchanged",
         [], bad[:2], not bad, line)
    L.extra["c04_r6"] = {"datagrams": len(fam), "delivered": delivered, "runs_with_reentry_before_delivery": reent,
                         "external_callees_resolved": sorted(stat["resolved"]), "transmit_path_evaluations": stat["modelled"],
                         "reentered_not_modelled": sorted(stat["skipped"]), "instance_type": inst_t}


# ---------------------------------------------------------------------------------------------
# Python codec: decisive layer = gen_msg() / parse_msg() evaluated on message families by the
# concrete AST interpreter of rules/c16.py (Mach: never imports repository code) and compared
# with the reference layout spec/trxd.json
# ---------------------------------------------------------------------------------------------
def _s16(v):
    return v - 65536 if v >= 32768 else v


def r7_state_gate(L, repo, spec, us2s, tier, tu):
    """C04.R7 -- decides a necessary condition of the clause `every version-0 burst the toolkit sends towards L1 is decoded
    by trxcon to the same frame, timeslot, RSSI, ToA and soft bits`: the clause has no exception for what the TRXC state
    machine is doing when the datagram arrives, so trx_data_rx_cb() must hand a well-formed TRXDv0 burst datagram to
    trxcon_phyif_handle_burst_ind() in every state of the transceiver FSM in which the DATA socket is open and a burst can
    arrive: every state but the one an instance starts in (value 0, left with the first TRXC command; nothing has been
    powered on before it), the state `a command is pending` in particular.  Every read of the FSM instance's `state`
    (resolved member declaration of struct osmo_fsm_inst, through aliases, helpers, switch or comparison alike) is an
    input of the evaluation next to the datagram: trx_data_rx_cb() is evaluated (closure compiler over the clang AST) on
    well-formed datagrams of every legal length once per enumerator of the state enum, with the enumerator values clang
    folded from the header - not with literals, and not by looking at the operator or the enumerator named in the gate.
    A state in which the datagram is not delivered, or is delivered with other values than the reference decoding, is a
    violation naming the expressions that read the state.  A gate that only closes the initial state, a state read that
    decides nothing (log line), a reordered enum with an order-independent gate are silent."""
    R, FC, fn_ = "C04.R7", tu.rel, "trx_data_rx_cb"
    f = tu.func(fn_)
    L.fn(FC, fn_)
    flds = tu.record_fields("trxcon_phyif_burst_ind")
    names = [nm for nm, _ in flds]
    if not {"tn", "fn", "rssi", "toa256", "burst", "burst_len"} <= set(names):
        raise AnalysisError("struct trxcon_phyif_burst_ind: anchor members tn/fn/rssi/toa256/burst/burst_len not found")
    M = CMach(tu, _rx_hooks(names, dict(flds)))
    M.watch = ("trxcon_phyif_burst_ind",)
    sp, hl, pad, want, ref, mk = _rx_model(spec, us2s)
    fam = []
    for j, ln in enumerate(sorted(want) * 3):
        fam.append(mk(o0=j & 7, fn=(j * 170003 + 11) % H_FRAMES, rssi=60 + j, toa=(j * 29 & 0xff, (j * 37 + 11) & 0xff), ln=ln,
                      pay=lambda i, j=j: (i * 7 + 3 + 19 * j) & 0xff))
    dom, derr = None, None
    try:
        dom = _fsm_domain(tu)
    except AnalysisError as e:
        derr = e
    sites, res, runs = set(), {}, 0
    for d in fam:
        for sv, sname in (dom["states"] if dom else [(None, None)]):
            st = CState()
            st.out["dgram"], st.out["fsm_state"] = d, sv
            try:
                M.run(f, st)
            except CDone:
                pass
            except AnalysisError:
                if derr is not None and st.out.get("fsm_sites"):
                    raise derr
                raise
            runs += 1
            read = st.out.get("fsm_sites") or set()
            if not read:
                break           # this datagram's path does not read the state: the same in every state, judged by C04.R2
            if derr is not None:
                raise derr
            sites |= read
            got, exp = st.out.get("ind"), ref(d)
            oob = sorted(x for x in st.faults if x[0] == "oob" or got is not None)
            if got is None:
                r = "not delivered"
            elif oob:
                r = "delivered with %s" % (oob[:2],)
            else:
                snap, soft = got
                diff = {k: (snap.get(k), exp[k]) for k in ("tn", "fn", "rssi", "toa256", "burst_len") if snap.get(k) != exp[k]}
                if soft != exp["soft"]:
                    diff["soft bits"] = "differ"
                r = "delivered with %s (handed on, reference)" % diff if diff else None
            if r is not None:
                res.setdefault((sv, sname), (r, _hex(d)))
    line = tu.line(f)
    L.floor(R, "well-formed TRXDv0 datagrams evaluated through trx_data_rx_cb", runs, 1)
    where = sorted("`%s` (line %d)" % x for x in sites)
    if dom is None or not sites:
        bad0 = [(n_, r) for (v, n_), r in res.items()]
        L.ob(R, FC, fn_, "the delivery of a well-formed TRXDv0 burst datagram does not depend on the state of the transceiver FSM, or it is made in every state in which the DATA socket is open",
             "delivered, reference values", bad0[:2] or "delivered, reference values; no read of the FSM state on the path", not bad0, line)
        L.extra["c04_r7"] = {"state_reads": [], "runs": runs}
        return None
    L.floor(R, "states of the transceiver FSM folded (enumerators of enum %s)" % dom["enum"], len(dom["states"]), 2)
    hdr = _decl_file(tu, L, dom["decl"])
    need = [(v, n_) for v, n_ in dom["states"] if v != 0]
    closed = [(v, n_) for v, n_ in need if (v, n_) in res and res[(v, n_)][0] == "not delivered"]
    wrong = [(n_, r) for (v, n_), r in sorted(res.items()) if r[0] != "not delivered"]
    L.ob(R, FC, fn_, "the delivery of a well-formed TRXDv0 burst datagram does not depend on the state of the transceiver FSM, or it is made in every state in which the DATA socket is open",
         "delivered in %s" % ", ".join("%s = %d" % (n_, v) for v, n_ in need),
         "not delivered in %s (enum %s as declared in %s; datagram %s); the state is read in %s" % (
             ", ".join("%s = %d" % (n_, v) for v, n_ in closed), dom["enum"], hdr, res[closed[0]][1], ", ".join(where))
         if closed else "delivered in all of them", not closed, line)
    L.ob(R, FC, fn_, "a burst datagram delivered in some state of the transceiver FSM is delivered with the reference values (frame, timeslot, RSSI, ToA256, burst length, soft bits)",
         [], ["%s: %s, datagram %s; the state is read in %s" % (n_, r[0], r[1], ", ".join(where)) for n_, r in wrong][:2], not wrong, line)
    L.extra["c04_r7"] = {"enum": dom["enum"], "states": dom["states"], "state_reads": where, "runs": runs,
                         "not_delivered_in": [n_ for _, n_ in closed]}
    return [(v, n_) for v, n_ in need if (v, n_) not in closed] or None


def ref_encode(spec, key, ver, m, legacy=False):
    """octets of message m (dict of field values) per the reference layout"""
    sp = spec[key][str(ver)]
    out = [0] * sp["hdr_len"]
    for fd in spec["hdr_common"] + sp["fields"]:
        o = fd["off"]
        if fd["kind"] == "bits" and fd.get("name") == "mts":
            ms = spec["mts"]
            if m.get("nope_ind"):
                out[o] = 1 << ms["nope_bit"]
            else:
                out[o] = ((ms["modulations"][m["mod_type"]]["coding"] | m["tsc_set"]) << ms["mod_shift"]) | m["tsc"]
        elif fd["kind"] == "bits":
            v = 0
            for nm, sh, w in bits_layout(fd["fields"], fd["size"]):
                if nm:
                    v |= ((ver if nm == "ver" else m[nm]) & ((1 << w) - 1)) << sh
            out[o] = v
        elif fd["kind"] == "be_u32":
            x = m[fd["name"]]
            out[o:o + 4] = [(x >> 24) & 255, (x >> 16) & 255, (x >> 8) & 255, x & 255]
        elif fd["kind"] == "be_i16":
            x = m[fd["name"]] & 0xffff
            out[o:o + 2] = [x >> 8, x & 255]
        elif fd["kind"] == "u8":
            out[o] = (-m[fd["name"]] if fd.get("neg") else m[fd["name"]]) & 255
        else:
            raise AnalysisError("spec/trxd.json: field kind %s" % fd["kind"])
    b = m.get("burst")
    if b is not None:
        out += [127 - s for s in b] if sp["burst"]["coding"] == "usbit" else list(b)
    if legacy:
        out += [0] * sp["burst"]["legacy_pad"]
    return out


def python_semantic(L, repo, spec, tier):
    import importlib
    import array as _array
    try:
        c16 = importlib.import_module("rules.c16")
    except Exception as e:      # the interpreter lives in another rule module: without it the structural rules decide
        raise AnalysisError("C04: the Python AST interpreter (rules/c16.py) is not available: %s" % str(e)[:120])
    L.unit(F)
    H = H_FRAMES
    mm = c16.Mach(repo, fuel=4000000)

    def guarded(what, fn_, *a):
        mm.fuel, mm.depth = 4000000, 0
        try:
            return ("ok", fn_(*a))
        except c16.PyRaise as e:
            if e.cls_name in ("TypeError", "AttributeError", "NameError", "NotImplementedError", "ImportError"):
                # the witness harness no longer fits the API (constructor keywords, attribute names): no verdict
                raise AnalysisError("data_msg.%s: the witness harness does not fit the code (%s: %s)" % (what, e.cls_name, str(e)[:120]))
            return ("raise", e.cls_name)
        except (c16.MachUnknown, c16.MachTimeout) as e:
            raise AnalysisError("data_msg.%s cannot be evaluated: %s" % (what, str(e)[:160]))
        except AnalysisError:
            raise
        except Exception as e:
            raise AnalysisError("data_msg.%s cannot be evaluated (%s: %s)" % (what, type(e).__name__, str(e)[:120]))
    try:
        mod = mm.module("data_msg")
        classes = {k: mm.getattr_(mod, k) for k in ("TxMsg", "RxMsg", "Modulation")}
    except (c16.MachUnknown, c16.MachTimeout, c16.PyRaise) as e:
        raise AnalysisError("data_msg cannot be evaluated: %s" % str(e)[:160])
    mods = spec["mts"]["modulations"]
    r = guarded("Modulation", lambda: {nm: mm.getattr_(classes["Modulation"], nm) for nm in mods})
    if r[0] != "ok":
        raise AnalysisError("data_msg.Modulation: reference member missing (%s)" % r[1])
    members = r[1]
    known = fold(repo, repo.mod("data_msg"), ast.parse("Msg.KNOWN_VERSIONS", mode="eval").body)
    try:
        known = sorted(int(v) for v in known)
    except Exception:
        raise AnalysisError("Msg.KNOWN_VERSIONS does not fold")
    rmin, rmax = 47, 120
    bad = {}
    cnt = {"gen": 0, "parse": 0}
    us2s = {}

    def note(key, what):
        bad.setdefault(key, []).append(what)

    def build(cls, ver, m):
        o = mm.call(classes[cls], [], {"fn": m["fn"], "tn": m["tn"], "ver": ver})
        for k, v in m.items():
            if k in ("fn", "tn"):
                continue
            if k == "mod_type":
                v = members[v]
            elif k == "burst" and v is not None:
                v = _array.array("b", v) if cls == "RxMsg" else bytearray(v)
            mm.setattr_(o, k, v)
        return o

    def do_gen(cls, ver, m, legacy=False):
        key = "%s v%d" % (cls, ver)
        L.fn(F, cls + ".gen_msg")
        exp = ref_encode(spec, "Tx" if cls == "TxMsg" else "Rx", ver, m, legacy)
        r = guarded(cls + ".gen_msg", lambda: list(mm.call(mm.getattr_(build(cls, ver, m), "gen_msg"), [True] if legacy else [], {})))
        cnt["gen"] += 1
        desc = {k: (v if k != "burst" else ("%d bits" % len(v) if v is not None else None)) for k, v in m.items()}
        if r[0] != "ok":
            note((key, "gen"), (desc, "raises %s" % r[1]))
            return exp
        got = r[1]
        if got != exp:
            i = next((i for i in range(min(len(got), len(exp))) if got[i] != exp[i]), None)
            note((key, "gen"), (desc, "length %d/%d" % (len(got), len(exp)) if i is None else ("octet %d" % i, got[i], exp[i])))
        return exp

    def do_parse(cls, ver, m, d, check_burst=True, may_reject=False):
        key = "%s v%d" % (cls, ver)
        L.fn(F, cls + ".parse_msg")

        def run():
            o = mm.call(classes[cls], [], {})
            mm.call(mm.getattr_(o, "parse_msg"), [bytearray(d)], {})
            out = {}
            for k in m:
                v = mm.getattr_(o, k)
                if k == "mod_type":
                    v = None if v is None else next((nm for nm, x in members.items() if x is v), "?")
                elif k == "burst" and v is not None:
                    v = list(v)
                out[k] = v
            out["ver"] = mm.getattr_(o, "ver")
            return out
        r = guarded(cls + ".parse_msg", run)
        cnt["parse"] += 1
        if r[0] != "ok":
            if not may_reject:          # (a datagram no valid message produces may be refused; if accepted it is decoded per the layout)
                note((key, "parse"), (_hex(d), "raises %s" % r[1]))
            return None
        got = r[1]
        for k, v in list(m.items()) + [("ver", ver)]:
            if k == "burst" and not check_burst:
                continue
            if k in ("mod_type", "tsc_set", "tsc") and m.get("nope_ind"):
                continue
            if got.get(k) != v:
                g_, v_ = got.get(k), v
                if k == "burst" and g_ is not None and v is not None:
                    i = next((i for i in range(min(len(g_), len(v))) if g_[i] != v[i]), None)
                    g_, v_ = ("length %d/%d" % (len(g_), len(v))) if i is None else ("position %d" % i, g_[i], v[i]), ""
                note((key, "parse"), (_hex(d), k, g_, v_))
        return got
    n_keys = 0
    for cls, key in (("TxMsg", "Tx"), ("RxMsg", "Rx")):
        for ver in known:
            sp = spec[key].get(str(ver))
            if sp is None:
                L.ob("C04.R1", F, cls, "header version %d of %s is described by the reference layout" % (ver, cls), "present", "missing", False)
                continue
            n_keys += 1
            msgs = []
            lens = sp["burst"]["lengths"] if isinstance(sp["burst"]["lengths"], list) else None
            combos = [(nm, ts, tsc) for nm, sm in mods.items() for ts in range(1 << sm["set_bits"]) for tsc in range(1 << spec["mts"]["tsc_width"])]
            nrun = 256
            for j in range(nrun):
                m = {"tn": j & 7, "fn": (j * 10601 + 7) % H}
                if cls == "TxMsg":
                    m["pwr"] = j
                    bl = lens[1] if (j % 8 == 0 and len(lens) > 1) else lens[0]
                    m["burst"] = [((i * i + i // 3 + j) >> 1) & 1 for i in range(bl)]
                else:
                    m["rssi"] = -(rmin + j % (rmax - rmin + 1))
                    m["toa256"] = _s16((j << 8) | ((j * 37 + 11) & 0xff))
                    if ver >= 1:
                        nm, ts, tsc = combos[j % len(combos)]
                        m.update({"nope_ind": j % 16 == 15, "mod_type": nm, "tsc_set": ts, "tsc": tsc, "ci": -1280 + (j * 21) % 2561})
                        bl = mods[nm]["burst_len"]
                        if m["nope_ind"]:
                            bl = None
                    else:
                        bl = lens[1] if (j % 8 == 0 and len(lens) > 1) else lens[0]
                    m["burst"] = None if bl is None else [((i + j) % 255) - 127 for i in range(bl)]
                msgs.append((m, cls == "RxMsg" and ver == 0 and bool(j & 1)))
            if cls == "RxMsg" and ver >= 1:
                # every (modulation, TSC set, TSC) combination of the MTS octet
                for nm, ts, tsc in combos:
                    msgs.append(({"tn": tsc, "fn": 42, "rssi": -60, "toa256": 0, "nope_ind": False, "mod_type": nm, "tsc_set": ts, "tsc": tsc,
                                  "ci": 10 * tsc - 30, "burst": [0] * mods[nm]["burst_len"]}, False))
            for fn in (0, 1, 255, 256, 65535, 65536, 0x00010203, H - 1):
                m = dict(msgs[3][0])
                m["fn"] = fn
                msgs.append((m, False))
            if cls == "RxMsg":
                edge = (0, 1, 0x7f, 0x80, 0xfe, 0xff, 0x55, 0xaa)
                for a_ in edge:
                    for b_ in edge:
                        m = dict(msgs[5][0])
                        m["toa256"] = _s16((a_ << 8) | b_)
                        if ver >= 1:
                            m["ci"] = max(-1280, min(1280, _s16((b_ << 8) | a_)))
                        msgs.append((m, False))
                if ver >= 1:
                    for ci in (-1280, -1, 0, 1, 255, 256, -256, -257, 1280):
                        m = dict(msgs[5][0])
                        m["ci"] = ci
                        msgs.append((m, False))
            for m, legacy in msgs:
                d = do_gen(cls, ver, m, legacy)
                do_parse(cls, ver, m, d)
            # what the parser accepts beyond what the encoder produces
            base = dict(msgs[3][0])
            for fn in (H, H + 1, 0x00ffffff, 0x01000000, 0x80000000, 0xffffffff):
                m = dict(base)
                m["fn"] = fn
                do_parse(cls, ver, m, ref_encode(spec, key, ver, m), may_reject=True)
            d = ref_encode(spec, key, ver, base)
            d[0] |= 0x08                         # reserved bit of octet 0 set
            do_parse(cls, ver, base, d, may_reject=True)
            if cls == "RxMsg" and ver == 0:
                # the toolkit's usbit -> sbit map, read off the parser for every octet value at every position
                for sh in range(0, 256, 1 if tier == "thorough" else 8):
                    m = dict(base)
                    pay = [(i + sh) & 0xff for i in range(lens[0])]
                    m["burst"] = None
                    d = ref_encode(spec, key, ver, m) + pay
                    got = do_parse(cls, ver, m, d, check_burst=False)
                    b = (got or {}).get("burst")
                    if b is None or len(b) != len(pay):
                        note((cls + " v0", "parse"), (_hex(d), "burst", None if b is None else len(b), len(pay)))
                        continue
                    for u, s in zip(pay, b):
                        us2s.setdefault(u, set()).add(s)
    L.floor("C04.R1", "class/version layouts evaluated", n_keys, 4)
    L.floor("C04.R1", "messages encoded by gen_msg() and compared with the reference octets", cnt["gen"], 500)
    L.floor("C04.R1", "datagrams decoded by parse_msg() and compared with the reference fields", cnt["parse"], 500)
    for cls in ("TxMsg", "RxMsg"):
        for ver in known:
            if spec["Tx" if cls == "TxMsg" else "Rx"].get(str(ver)) is None:
                continue
            key = "%s v%d" % (cls, ver)
            b = bad.get((key, "gen"), [])
            L.ob("C04.R1", F, cls + ".gen_msg", "%s: the octets of every witness message equal the reference layout (version/timeslot octet, big-endian frame number, header fields, MTS, burst coding, legacy padding)" % key,
                 [], b[:3], not b)
            b = bad.get((key, "parse"), [])
            L.ob("C04.R1", F, cls + ".parse_msg", "%s: every reference datagram is accepted and decoded to the fields it was built from; a datagram with a frame number beyond the hyperframe or the reserved bit of octet 0 set is, if accepted, decoded per the same layout" % key,
                 [], b[:3], not b)
    amb = sorted(u for u, s in us2s.items() if len(s) != 1)
    L.ob("C04.R1", F, "RxMsg.parse_msg", "the soft bit decoded from a payload octet does not depend on its position", [], amb[:4], not amb)
    if len(us2s) != 256:
        raise AnalysisError("RxMsg.parse_msg: soft-bit map not observed for all 256 octet values")
    tab = [min(us2s[u]) for u in range(256)]
    badt = [(u, tab[u]) for u in range(255) if tab[u] != 127 - u]
    L.ob("C04.R1", F, "RxMsg.parse_msg", "soft bits come off the wire as 127 - octet for 0..254, and 255 -> -127", [], badt[:4], not badt and tab[255] == -127)
    L.extra["c04_py_runs"] = dict(cnt)
    return tab


# ---------------------------------------------------------------------------------------------
# trxcon: structural layer (for-all-inputs reading of the same code; recorded as structural proofs,
# never an alarm by itself - see Ledger.structural)
# ---------------------------------------------------------------------------------------------
def fold_tab(tu, M, e, env):
    """fold_env + look-ups in file-scope constant tables (`tab[<folding index>]`)"""
    env2 = dict(env)

    def visit(x):
        for c in kids(x):
            visit(c)
        if kind(x) == "ArraySubscriptExpr":
            b = strip(kids(x)[0], casts=True)
            if kind(b) == "DeclRefExpr":
                t = M.table(b.get("referencedDecl", {}).get("name"))
                if t is not None:
                    idx = fold_env(tu, kids(x)[1], env2)
                    if idx is not None and 0 <= idx < len(t[0]):
                        env2[ctext(x)] = t[0][idx]
    visit(e)
    return fold_env(tu, e, env2)


def trxcon_rx_structural(L, repo, spec, us2s, tu, M):
    FC = tu.rel
    f = tu.func("trx_data_rx_cb")
    g = CCFG(tu, f)
    body = tu.body(f)
    sp = spec["Rx"]["0"]
    # the burst indication initialiser
    cl = [n for n in walk(body) if kind(n) == "CompoundLiteralExpr" and "trxcon_phyif_burst_ind" in n.get("type", {}).get("qualType", "")]
    il = None
    if cl:
        il = strip(kids(cl[0])[0])
    else:
        decl = [n for n in walk(body) if kind(n) == "VarDecl" and "trxcon_phyif_burst_ind" in n.get("type", {}).get("qualType", "") and kids(n)]
        if decl:
            il = strip(kids(decl[0])[-1])
    if il is None or kind(il) != "InitListExpr":
        raise AnalysisError("trx_data_rx_cb: burst indication initialiser not found")
    names = [nm for nm, _ in tu.record_fields("trxcon_phyif_burst_ind")]
    vals = dict(zip(names, kids(il)))

    def resolve_local(e, depth=0):
        """a local scalar that is assigned exactly once (declaration initialiser or one `=`), before the indication
        is built, stands for the assigned expression (e.g. `fn = osmo_load32be(buf + 1); ... .fn = fn`)"""
        b = strip(e, casts=False)
        if kind(b) != "DeclRefExpr" or depth > 3:
            return e
        nm = ctext(b)
        if nm in ("buf", "read_len", "burst"):
            return e
        defs = []
        for n in walk(body):
            if kind(n) == "BinaryOperator" and n.get("opcode") == "=" and ctext(kids(n)[0]) == nm:
                defs.append((n, kids(n)[1]))
            elif kind(n) == "VarDecl" and n.get("name") == nm and kids(n):
                defs.append((n, kids(n)[-1]))
            elif kind(n) in ("CompoundAssignOperator",) and ctext(kids(n)[0]) == nm:
                return e
            elif kind(n) == "UnaryOperator" and n.get("opcode") in ("++", "--", "&") and ctext(kids(n)[0]) == nm:
                return e
        if len(defs) != 1:
            return e
        dn, rhs = defs[0]
        try:
            if not g.dominates(g.node_of(dn), init_node0):
                return e
        except Exception:
            return e
        return resolve_local(rhs, depth + 1)
    init_node0 = g.node_of(il)
    vals_raw = dict(vals)
    vals = {k: resolve_local(v) for k, v in vals.items()}
    init_node = g.node_of(il)
    lits = g.guard_lits(init_node)
    low = CLower(tu, keep_casts=True)
    # tn
    t = low.lower(vals["tn"])
    bf = bitfields(t)
    want_tn = [(nm, sh, w) for nm, sh, w in bits_layout(spec["hdr_common"][0]["fields"], 1) if nm == "tn"][0]
    ok = len(bf) == 1 and bf[0][0] == ("idx", X.V("buf"), X.C(0)) and bf[0][1] == -want_tn[1] and bf[0][2] == want_tn[2]
    L.ob("C04.R2", FC, "trx_data_rx_cb", "timeslot is taken from octet 0 bits 2..0", "buf[0] & 7", ctext(vals["tn"]), ok, tu.line(vals["tn"]))
    # fn
    L.require("C04.R2", FC, "trx_data_rx_cb", "frame number is the 32-bit big-endian value at octets 1..4", "osmo_load32be((buf + 1))",
              ctext(vals["fn"]), line=tu.line(vals["fn"]))
    # rssi
    rs = strip(vals["rssi"])
    okr = kind(rs) == "UnaryOperator" and rs.get("opcode") == "-" and ctext(strip(kids(rs)[0], casts=True)) == "buf[5]"
    cast = strip(kids(rs)[0]) if okr else None
    ct = cast.get("type", {}).get("qualType") if cast is not None and kind(cast) == "CStyleCastExpr" else None
    L.ob("C04.R2", FC, "trx_data_rx_cb", "RSSI is the negated octet 5", "-(int8_t)buf[5]", ctext(vals["rssi"]), okr and ct in (None, "int8_t", "int", "int16_t"),
         tu.line(vals["rssi"]))
    rmax = 120
    L.ob("C04.R2", FC, "trx_data_rx_cb", "every RSSI octet of a valid message (47..120) survives the %s cast" % ct, "<= 127", rmax,
         ct != "int8_t" or rmax <= 127)
    # toa256
    tt = low.lower(vals["toa256"])

    def strip_cast(x):
        return x[2] if x[0] == "call" and str(x[1]).startswith("cast:int16_t") else x
    parts = tt[1:] if tt[0] == "|" else ()
    hi = [p for p in parts if strip_cast(p) == ("*", X.C(256), ("idx", X.V("buf"), X.C(6)))]
    lo = [p for p in parts if p == ("idx", X.V("buf"), X.C(7))]
    signed = any(p[0] == "call" and "int16_t" in str(p[1]) for p in parts) or (tt[0] == "call" and "int16_t" in str(tt[1]))
    if tt[0] == "call" and "int16_t" in str(tt[1]):
        inner = tt[2]
        parts = inner[1:] if inner[0] == "|" else ()
        hi = [p for p in parts if p == ("*", X.C(256), ("idx", X.V("buf"), X.C(6)))]
        lo = [p for p in parts if p == ("idx", X.V("buf"), X.C(7))]
    L.ob("C04.R2", FC, "trx_data_rx_cb", "ToA256 is the signed 16-bit big-endian value at octets 6..7",
         "(int16_t)(buf[6] << 8) | buf[7]", ctext(vals["toa256"]), len(hi) == 1 and len(lo) == 1 and len(parts) == 2 and signed,
         tu.line(vals["toa256"]))
    # burst pointer
    bptr = ctext(vals["burst"])
    bdefs = [n for n in walk(body) if kind(n) == "BinaryOperator" and n.get("opcode") == "=" and ctext(kids(n)[0]) == bptr]
    bsrc = [ctext(strip(kids(n)[1], casts=True)) for n in bdefs] if bdefs else [ctext(strip(vals["burst"], casts=True))]
    L.require("C04.R2", FC, "trx_data_rx_cb", "soft bits start right after the %d-octet v0 header" % sp["hdr_len"],
              ["&buf[%d]" % sp["hdr_len"]], bsrc)
    L.require("C04.R2", FC, "trx_data_rx_cb", "burst length handed on is the validated payload length", "read_len", ctext(vals["burst_len"]))
    # guards at the initialiser: length >= header, version 0
    L.ob("C04.R2", FC, "trx_data_rx_cb", "header fields are read only from datagrams of at least %d octets" % sp["hdr_len"],
         "not read_len < %d" % sp["hdr_len"], sorted(("" if p else "!") + t_ for t_, p in lits)[:8],
         ("read_len < %d" % sp["hdr_len"], False) in lits, tu.line(il))
    L.ob("C04.R2", FC, "trx_data_rx_cb", "only header version 0 is accepted (octet 0 bits 7..4)", "(buf[0] >> 4) == 0",
         sorted(("" if p else "!") + t_ for t_, p in lits)[:8], ("(buf[0] >> 4) == 0", True) in lits or ("0 == (buf[0] >> 4)", True) in lits,
         tu.line(il))
    # soft-bit conversion: the loop body folded for all 256 octet values (the loop index stays symbolic)
    loops = [n for n in walk(body) if kind(n) == "ForStmt"]
    conv = {}
    if len(loops) == 1:
        lb = loops[0]["inner"][4]
        srcs = {ctext(n) for n in walk(lb) if kind(n) == "ArraySubscriptExpr" and ctext(kids(n)[0]) == "buf"}
        if len(srcs) == 1:
            src = list(srcs)[0]
            L.require("C04.R2", FC, "trx_data_rx_cb", "soft-bit source octet", "buf[(8 + i)]", src)

            def run_c(st, env, out):
                """if/else + assignment interpreter over folded conditions (comparison-only loop body)"""
                k = kind(st)
                if k == "CompoundStmt":
                    for x in kids(st):
                        run_c(x, env, out)
                elif k == "IfStmt":
                    inner = st["inner"]
                    c = fold_tab(tu, M, inner[0], env)
                    if c is None:
                        raise AnalysisError("soft-bit conversion: condition does not fold: %s" % ctext(inner[0]))
                    if c:
                        run_c(inner[1], env, out)
                    elif st.get("hasElse"):
                        run_c(inner[2], env, out)
                elif k == "BinaryOperator" and st.get("opcode") == "=" and ctext(kids(st)[0]).startswith("burst["):
                    v = fold_tab(tu, M, kids(st)[1], env)
                    out.append(None if v is None else wrap_int(v, "int8_t"))
                elif k in ("NullStmt",):
                    pass
                else:
                    raise AnalysisError("soft-bit conversion: statement unclassifiable: %s" % k)
            for u in range(256):
                out = []
                run_c(lb, {src: u}, out)
                conv[u] = out[-1] if len(out) >= 1 else None
    if len(conv) != 256 or any(v is None for v in conv.values()):
        raise AnalysisError("trx_data_rx_cb: soft-bit conversion loop unclassifiable")
    bad = [(u, conv[u], us2s[u]) for u in range(256) if conv[u] != us2s[u]]
    L.ob("C04.R2", FC, "trx_data_rx_cb", "trxcon's soft-bit conversion equals the toolkit's usbit2sbit table for all 256 octet values", [], bad[:4], not bad)
    # loop bound
    lc = ctext(loops[0]["inner"][2]) if loops else None
    L.require("C04.R2", FC, "trx_data_rx_cb", "conversion loop covers exactly the burst", "(i < bi.burst_len)", lc)
    # FN bound
    hb = calls_to(f, "trxcon_phyif_handle_burst_ind")
    L.floor("C04.R2", "burst indication delivery", len(hb), 1)
    H = H_FRAMES
    for c in hb:
        cl_ = g.guard_lits(g.node_of(c))
        L.ob("C04.R2", FC, "trx_data_rx_cb", "a burst is delivered only for FN < 2715648 (the toolkit's GSM_HYPERFRAME)",
             "bi.fn < %d" % H, sorted(("" if p else "!") + t_ for t_, p in cl_ if "fn" in t_),
             any(("%s < %d" % (x_, H), True) in cl_ for x_ in ("bi.fn", ctext(vals_raw["fn"]), ctext(vals["fn"]))), tu.line(c))


def trxcon_tx_structural(L, spec, tu):
    FC = tu.rel
    f2 = tu.func("trx_if_handle_phyif_burst_req")
    b2 = tu.body(f2)
    spt = spec["Tx"]["0"]
    stores = {}
    for n in walk(b2):
        if kind(n) == "BinaryOperator" and n.get("opcode") == "=" and ctext(kids(n)[0]).startswith("buf["):
            stores[ctext(kids(n)[0])] = ctext(kids(n)[1])
    P = tu.fparams(f2)[1].get("name")
    L.require("C04.R3", FC, "trx_if_handle_phyif_burst_req", "octet 0 carries the timeslot (version nibble 0 for tn <= 7), octet 5 the attenuation",
              {"buf[0]": "%s->tn" % P, "buf[5]": "%s->pwr" % P}, stores)
    st32 = [[ctext(a) for a in call_args(c)] for c in calls_to(f2, "osmo_store32be")]
    L.require("C04.R3", FC, "trx_if_handle_phyif_burst_req", "frame number stored big-endian at octets 1..4", [["%s->fn" % P, "(buf + 1)"]], st32)
    mc = [[ctext(a) for a in call_args(c)] for c in calls_to(f2, "memcpy")]
    L.require("C04.R3", FC, "trx_if_handle_phyif_burst_req", "hard bits copied right after the %d-octet header" % spt["hdr_len"],
              [["(buf + %d)" % spt["hdr_len"], "%s->burst" % P, "%s->burst_len" % P]], mc)
    snd = [[ctext(a) for a in call_args(c)] for c in calls_to(f2, "send")]
    lens = {}
    for n in walk(b2):
        if kind(n) in ("BinaryOperator", "CompoundAssignOperator") and n.get("opcode") in ("=", "+=") and ctext(kids(n)[0]) == "length":
            lens.setdefault(n.get("opcode"), []).append(ctext(kids(n)[1]))
    L.require("C04.R3", FC, "trx_if_handle_phyif_burst_req", "datagram length = header + burst length", {"=": ["6"], "+=": ["%s->burst_len" % P]}, lens)
    L.ob("C04.R3", FC, "trx_if_handle_phyif_burst_req", "exactly that many octets of buf are sent on the data socket",
         "send(trx->trx_ofd_data.fd, buf, length, 0)", snd, snd == [["trx->trx_ofd_data.fd", "buf", "length", "0"]])


def r4_python_recv(L, repo, spec):
    spt = spec["Tx"]["0"]
    largest_tx = spt["hdr_len"] + max(spt["burst"]["lengths"])
    ci, rr = repo.need_method("data_if", "DATAInterface", "recv_raw_data")
    L.unit(rel("data_if"))
    sizes = []
    for c in calls_in(rr):
        if canon(c.func).endswith(".recvfrom"):
            sizes.append(Ev(repo, repo.mod("data_if"), self_cls=ci).ev(c.args[0]))
    if not sizes or not all(isinstance(x, int) for x in sizes):
        raise AnalysisError("DATAInterface.recv_raw_data: receive size of the data socket not found / does not fold (%s)" % sizes)
    L.ob("C04.R4", rel("data_if"), "DATAInterface.recv_raw_data", "the toolkit's data socket receive size holds trxcon's largest datagram (%d octets)" % largest_tx,
         ">= %d" % largest_tx, sizes, all(x >= largest_tx for x in sizes))


# ---------------------------------------------------------------------------------------------
# C04.R5: the values of a burst are carried unchanged between the scheduler, the PHYIF structures
# and trx_if.c (resolved member types + the conversions at the stores, evaluated)
# ---------------------------------------------------------------------------------------------
def _rssi_octets(repo):
    """(lowest, highest) RSSI octet of a valid toolkit message (= -RSSI_MAX, -RSSI_MIN of RxMsg)"""
    rmin, rmax = 47, 120
    try:
        rci = repo.need_class("data_msg", "RxMsg")
        ev = Ev(repo, repo.mod("data_msg"), self_cls=rci)
        a_, b_ = ev.ev(repo.find_attr(rci, "RSSI_MAX")[1]), ev.ev(repo.find_attr(rci, "RSSI_MIN")[1])
        if isinstance(a_, int) and isinstance(b_, int) and 0 <= -a_ <= -b_ <= 255:
            rmin, rmax = -a_, -b_
    except Exception:
        pass
    return rmin, rmax


def _field_decls(tu, rec):
    r = tu.records.get(rec)
    if r is None:
        raise AnalysisError("struct %s not found" % rec)
    return {c.get("name"): c for c in kids(r) if kind(c) == "FieldDecl"}


def _int_range(tu, fd, element=False):
    """(lo, hi, description) of the values an integer member can hold, from its RESOLVED type (typedefs desugared by
    clang, bit-field width folded); `element`: of the objects a pointer / array member refers to.  None if the
    member is not of a plain integer type."""
    t = fd.get("type") or {}
    shown = t.get("qualType") or ""
    qt = _qt(fd)
    if element:
        qt = _pointee(qt)
        if qt is None:
            return None
    q = _clean(qt)
    for _ in range(8):                       # element type of a pointer / array: follow the typedef chain
        td = tu.typedefs.get(q)
        if td is None:
            break
        q = _clean(_qt(td))
    if q == "_Bool":
        bits, signed = 1, False
    else:
        m = _ITYPES.get(q)
        if m is None:
            return None
        bits, signed = m
    if fd.get("isBitfield") and not element:
        wd = tu.fold(kids(fd)[0]) if kids(fd) else None
        if not isinstance(wd, int) or not 0 < wd <= bits:
            return None
        bits = wd
        shown = "%s:%d" % (shown, wd)
    lo, hi = (-(1 << (bits - 1)), (1 << (bits - 1)) - 1) if signed else (0, (1 << bits) - 1)
    return lo, hi, "%s: %d..%d" % (shown, lo, hi)


def _decl_file(tu, L, fd):
    """repository-relative path of the file a declaration was read from (the header), registered as a unit"""
    p = fd.get("_file")
    if not p:
        return tu.rel
    a = p if os.path.isabs(p) else os.path.join(L.repo, KINDS[tu.kind]["cwd"], p)
    r = os.path.relpath(os.path.realpath(a), os.path.realpath(L.repo))
    if r.startswith(".."):
        return tu.rel
    try:
        L.unit(r)
    except AnalysisError:
        return tu.rel
    return r


def r5_carriage(L, repo, spec, tier):
    """C04.R5 -- decides a necessary condition of the clauses `every burst trxcon emits is parsed by the toolkit to the
    values trxcon was given` (request direction: scheduler -> struct trxcon_phyif_burst_req -> trx_if.c, whose octets
    C04.R3 decides from the values held by that structure) and `every version-0 burst ... is decoded by trxcon to the same
    frame, timeslot, RSSI, ToA and soft bits` (indication structure filled by trx_if.c):
      (a) every integer member on the path can hold every value of the quantity's domain (frame numbers below the
          hyperframe, timeslots of the 3-bit field, all attenuation octets, burst lengths 0..444, valid RSSI, 16-bit ToA256,
          hard bits 0/1, soft bits -127..127): interval inclusion, decided from the member's resolved type in the clang AST
          (typedefs desugared, bit-field widths folded) - never from its spelling or position in the structure;
      (b) the conversion scheduler request -> PHYIF request (l1sched_handle_burst_req in trxcon_shim.c) and the hand-over
          to trx_if.c (trxcon_phyif_handle_burst_req in trxcon_main.c) are evaluated by the closure compiler with the C
          integer conversions clang resolved at each store: every request that is handed on carries exactly the values
          it was given (a request that is not handed on emits nothing and is outside this property)."""
    R = "C04.R5"
    tu = TU(L.repo, "trxcon", "src/trxcon_shim.c", L=L)
    spt, spr = spec["Tx"]["0"], spec["Rx"]["0"]
    bits0 = {nm: (sh, w) for nm, sh, w in bits_layout(spec["hdr_common"][0]["fields"], 1) if nm}
    kinds_ = {fd.get("name"): fd.get("kind") for fd in spec["hdr_common"] + spt["fields"] + spr["fields"] if fd.get("name")}
    if kinds_.get("fn") != "be_u32" or kinds_.get("pwr") != "u8" or kinds_.get("toa256") != "be_i16" or kinds_.get("rssi") != "u8":
        raise AnalysisError("spec/trxd.json: unexpected field kinds %s" % kinds_)
    H = H_FRAMES
    rmin, rmax = _rssi_octets(repo)
    tlens, rlens = spt["burst"]["lengths"], spr["burst"]["lengths"]
    dom_req = {"fn": (0, H - 1, "frame numbers of the hyperframe"), "tn": (0, (1 << bits0["tn"][1]) - 1, "timeslots of the layout's %d-bit field" % bits0["tn"][1]),
               "pwr": (0, 255, "attenuation octets"), "burst_len": (0, max(tlens), "burst lengths of the layout (idle PDU, %s)" % ", ".join(map(str, tlens)))}
    dom_ind = {"fn": dom_req["fn"], "tn": dom_req["tn"], "rssi": (-rmax, -rmin, "RSSI values of valid toolkit messages"),
               "toa256": (-32768, 32767, "ToA256 values of the signed 16-bit field"),
               "burst_len": (min(rlens), max(rlens), "burst lengths of the layout (%s)" % ", ".join(map(str, rlens)))}
    n_members = 0
    for rec, dom, el in (("l1sched_burst_req", dom_req, (0, 1, "hard bits")), ("trxcon_phyif_burst_req", dom_req, (0, 1, "hard bits")),
                         ("trxcon_phyif_burst_ind", dom_ind, (-127, 127, "soft bits"))):
        fds = _field_decls(tu, rec)
        miss = [k for k in list(dom) + ["burst"] if k not in fds]
        if miss:
            raise AnalysisError("struct %s: anchor members %s not found" % (rec, "/".join(miss)))
        for nm, (lo, hi, what) in list(dom.items()) + [("burst", el)]:
            fd = fds[nm]
            rg = _int_range(tu, fd, element=(nm == "burst"))
            if rg is None:
                raise AnalysisError("struct %s: member `%s` (%s) is not of a plain integer type the rule can bound" % (
                    rec, nm, (fd.get("type") or {}).get("qualType")))
            n_members += 1
            L.ob(R, _decl_file(tu, L, fd), "struct %s" % rec,
                 "%s `%s` of struct %s can hold all %s (%d..%d)" % ("objects addressed by member" if nm == "burst" else "member", nm, rec, what, lo, hi),
                 "range includes %d..%d" % (lo, hi), rg[2], rg[0] <= lo and hi <= rg[1], tu.line(fd))
    L.floor(R, "integer members of the scheduler / PHYIF burst structures bounded from their resolved types", n_members, 16)

    # (b) scheduler request -> PHYIF request, evaluated
    fsh = tu.func("l1sched_handle_burst_req")
    L.fn(tu.rel, "l1sched_handle_burst_req")
    brp = [p for p in tu.fparams(fsh) if "l1sched_burst_req" in (p.get("type") or {}).get("qualType", "")]
    if len(brp) != 1:
        raise AnalysisError("l1sched_handle_burst_req: burst request parameter not found")
    P = brp[0].get("name")
    pnames = list(_field_decls(tu, "trxcon_phyif_burst_req"))
    ext = array_extent((_field_decls(tu, "l1sched_burst_req")["burst"].get("type") or {}).get("qualType"))
    if ext is None or ext < max(tlens):
        raise AnalysisError("struct l1sched_burst_req: extent of `burst` not determined / below the largest burst (%s)" % ext)
    wel = _wrapper(_pointee(_qt(_field_decls(tu, "trxcon_phyif_burst_req")["burst"])) or "")

    def snapshot(M, st, ref, names, what):
        if not (isinstance(ref, tuple) and ref and ref[0] == "ref"):
            raise AnalysisError("%s: the burst request handed on is not the address of an object the evaluation follows" % what)
        fr, key = ref[2], ref[1]
        return {f_: fr.get("%s.%s" % (key, f_)) for f_ in names}

    def h_phy(M, st, a, n):
        snap = snapshot(M, st, a[1] if len(a) > 1 else None, pnames, "l1sched_handle_burst_req")
        bp, bl = snap.get("burst"), snap.get("burst_len")
        hard = None
        if _isptr(bp) and isinstance(bl, int) and 0 <= bl <= 4096:
            hard = [M.load(st, M.padd(st, bp, i, 1), wel, 1) for i in range(bl)]
        st.out.setdefault("handed", []).append((snap, hard))
        return 0
    M = CMach(tu, {"trxcon_phyif_handle_burst_req": h_phy})
    M.watch = ("trxcon_phyif_burst_req", "l1sched_burst_req")
    bad = {k: [] for k in ("fn", "tn", "pwr", "burst_len", "burst", "count")}
    cnt = {"runs": 0, "handed": 0}

    def one(tn, fn, pwr, bits):
        st = CState()
        frame = {}
        for k, v in (("tn", tn), ("fn", fn), ("pwr", pwr), ("burst_len", len(bits))):
            frame["@req.%s" % k] = v
        mk = "%s@%x" % ("@req.burst", id(frame))
        st.mem[mk], st.esz[mk] = list(bits) + [None] * (ext - len(bits)), 1
        M.run(fsh, st, {P: ("ref", "@req", frame)})
        cnt["runs"] += 1
        given = "tn=%d fn=%d pwr=%d burst_len=%d" % (tn, fn, pwr, len(bits))
        handed = st.out.get("handed") or []
        if len(handed) > 1:
            bad["count"].append((given, len(handed)))
        for snap, hard in handed[:1]:
            cnt["handed"] += 1
            und = [k for k in ("tn", "fn", "pwr", "burst_len") if not isinstance(snap.get(k), int)]
            if und or not _isptr(snap.get("burst")):
                raise AnalysisError("l1sched_handle_burst_req: the evaluation does not determine the %s of the request handed to the PHYIF" % (
                    ", ".join("`%s`" % k for k in und) or "`burst`"))
            for k, v in (("tn", tn), ("fn", fn), ("pwr", pwr), ("burst_len", len(bits))):
                if snap[k] != v:
                    bad[k].append((given, "handed on: %s=%d" % (k, snap[k])))
            oob = sorted({(x[0], "%s->burst" % P if x[1] == mk else x[1], x[2]) for x in st.faults if x[0] == "oob"})
            if oob:
                # the hard bits the request announces are not all inside the scheduler's burst array
                bad["burst"].append((given, "access outside the scheduler's burst", oob[:3]))
            elif snap["burst_len"] == len(bits):
                if hard is None or any(x is None for x in hard):
                    raise AnalysisError("l1sched_handle_burst_req: the evaluation does not determine the hard bits the PHYIF request points to")
                if hard != list(bits):
                    i = next(i for i in range(len(bits)) if hard[i] != bits[i])
                    bad["burst"].append((given, "hard bit %d" % i, hard[i], bits[i]))
    for j in range(256):
        one(j & 7, (j * 10601 + 7) % H, j, [((i * i + i // 3 + j) >> 1) & 1 for i in range(tlens[0])])
    for fn in (0, 1, 255, 256, 65535, 65536, 0x00010203, 0x00203040, H - 2, H - 1):
        one(3, fn, 10, [i & 1 for i in range(tlens[0])])
    for bl in tlens[1:]:
        for j in range(8):
            one(j & 7, (j * 170003 + 11) % H, (j * 37) & 0xff, [((i * 7 + j) % 5) & 1 for i in range(bl)])
    for tn in range(8):
        one(tn, (tn * 339456 + 5) % H, 0, [])
    fn_ = "l1sched_handle_burst_req"
    line = tu.line(fsh)
    L.floor(R, "scheduler burst requests evaluated through l1sched_handle_burst_req", cnt["runs"], 250)
    L.floor(R, "burst requests handed to the PHYIF (trxcon_phyif_handle_burst_req)", cnt["handed"], 250)
    L.ob(R, tu.rel, fn_, "a scheduler burst request is handed to the PHYIF at most once", [], bad["count"][:4], not bad["count"], line)
    for k, what in (("fn", "frame number (sweep over the hyperframe, boundaries 0 and 2715647)"), ("tn", "timeslot (0..7)"),
                    ("pwr", "attenuation (all 256 values)"), ("burst_len", "burst length (idle PDU 0, %s)" % ", ".join(map(str, tlens)))):
        L.ob(R, tu.rel, fn_, "the PHYIF burst request carries the %s the scheduler gave, through the conversions at the stores into struct trxcon_phyif_burst_req" % what,
             [], bad[k][:4], not bad[k], line)
    L.ob(R, tu.rel, fn_, "the PHYIF burst request points to the hard bits the scheduler gave (every position, both burst lengths)", [], bad["burst"][:4], not bad["burst"], line)

    # (b') PHYIF -> trx_if.c: the request handed on is the one received
    try:
        tm = TU(L.repo, "trxcon", "src/trxcon_main.c", L=L)
    except AnalysisError:
        # the declaration-only stub of libosmocore's logging.h lacks two enumerators main() passes to the logging set-up
        tm = TU(L.repo, "trxcon", "src/trxcon_main.c", defines=("LOG_FILENAME_BASENAME=0", "LOG_FILENAME_POS_LINE_END=0"), L=L)
    ff = tm.func("trxcon_phyif_handle_burst_req")
    L.fn(tm.rel, "trxcon_phyif_handle_burst_req")
    brp = [p for p in tm.fparams(ff) if "trxcon_phyif_burst_req" in (p.get("type") or {}).get("qualType", "")]
    if len(brp) != 1:
        raise AnalysisError("trxcon_phyif_handle_burst_req: burst request parameter not found")
    P2 = brp[0].get("name")
    others = [p.get("name") for p in tm.fparams(ff) if p.get("name") != P2]

    def h_trx(M, st, a, n):
        st.out.setdefault("handed", []).append(snapshot(M, st, a[1] if len(a) > 1 else None, pnames, "trxcon_phyif_handle_burst_req"))
        return 0
    M2 = CMach(tm, {"trx_if_handle_phyif_burst_req": h_trx})
    M2.watch = ("trxcon_phyif_burst_req",)
    bad2, nh = [], 0
    for j, bl in enumerate([0] + list(tlens)):
        st = CState()
        given = {"tn": 7 - j, "fn": H - 1 - j, "pwr": 255 - j, "burst": ("ptr", "@bits", 0), "burst_len": bl}
        frame = {"@req.%s" % k: v for k, v in given.items()}
        st.mem["@bits"], st.esz["@bits"] = [i & 1 for i in range(bl)], 1
        args = {o: ("ptr", "@" + o, 0) for o in others}
        args[P2] = ("ref", "@req", frame)
        M2.run(ff, st, args)
        handed = st.out.get("handed") or []
        if len(handed) > 1:
            bad2.append(("burst_len=%d" % bl, "handed on %d times" % len(handed)))
        for snap in handed[:1]:
            nh += 1
            diff = {k: snap.get(k) for k in given if snap.get(k) != given[k]}
            if any(not isinstance(v, int) and not _isptr(v) for v in diff.values()):
                raise AnalysisError("trxcon_phyif_handle_burst_req: the evaluation does not determine %s of the request handed to trx_if.c" % sorted(diff))
            if diff:
                bad2.append(("given %s" % {k: given[k] for k in diff}, "handed on %s" % diff))
    L.floor(R, "PHYIF burst requests handed to trx_if_handle_phyif_burst_req", nh, 3)
    L.ob(R, tm.rel, "trxcon_phyif_handle_burst_req", "the burst request handed to trx_if_handle_phyif_burst_req holds the values of the PHYIF request received (idle PDU and both burst lengths)",
         [], bad2[:4], not bad2, tm.line(ff))


def _group(L, rule, file, what, semantic, structural):
    """decision of one rule group: the concrete evaluation on message / datagram families decides (a mismatch is a
    violation with a counterexample); the structural reading is recorded as a for-all proof (closed / open).  If the code
    cannot be evaluated, a closed structural proof still decides; otherwise there is no verdict."""
    err = None
    try:
        semantic()
    except AnalysisError as e:
        err = e
    except (RecursionError, KeyError, IndexError, TypeError, ValueError, AttributeError) as e:
        err = AnalysisError("%s: evaluation failed (%s: %s)" % (what[:6], type(e).__name__, str(e)[:120]))
    closed = L.structural(what, structural)
    if err is not None:
        if not closed:
            raise err
        L.ob(rule, file, "<file>", "%s: decided by the structural rules alone (the code could not be evaluated)" % what,
             "closed structural proof", "closed; evaluation: %s" % str(err)[:120], True)


def r1_python(L, repo, spec, tier):
    box = {}
    _group(L, "C04.R1", F, "C04.R1 Python codec: layout descriptors of gen_msg / parse_msg vs the reference layout, MTS and soft-bit tables folded",
           lambda: box.__setitem__("sem", python_semantic(L, repo, spec, tier)),
           lambda: box.__setitem__("str", r1_python_vs_spec(L, repo, spec)))
    t = box.get("sem") or box.get("str")
    if t is None:
        raise AnalysisError("C04: the toolkit's usbit2sbit table could not be determined")
    return t


def r2_r3_trxcon(L, repo, spec, us2s, tier):
    tu = TU(L.repo, "trxcon", "src/trx_if.c", L=L)
    M0 = CMach(tu)
    # the FSM states in which the burst path is open (None: the receive path does not read the state)
    fsm = L.stage(r7_state_gate, L, repo, spec, us2s, tier, tu)
    L.stage(_group, L, "C04.R2", tu.rel, "C04.R2 trxcon receive path: field <- octet expressions, guards, soft-bit loop folded over 256 values, FN guard",
            lambda: trxcon_rx_semantic(L, repo, spec, us2s, tier, tu, fsm),
            lambda: trxcon_rx_structural(L, repo, spec, us2s, tu, M0))
    L.stage(_group, L, "C04.R3", tu.rel, "C04.R3 trxcon transmit path: stores, big-endian FN, memcpy offset, length, send",
            lambda: trxcon_tx_semantic(L, repo, spec, tier, tu),
            lambda: trxcon_tx_structural(L, spec, tu))
    L.stage(r4_python_recv, L, repo, spec)
    L.stage(r6_burst_storage, L, repo, spec, tier, tu, fsm)


def run(L, tier):
    repo = Repo(L.repo)
    spec = load_spec()
    us2s = L.stage(r1_python, L, repo, spec, tier)
    L.stage(r2_r3_trxcon, L, repo, spec, us2s, tier)
    L.stage(r5_carriage, L, repo, spec, tier)
