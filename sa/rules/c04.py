# C04 -- TRXD octets follow the protocol layout; Python and trxcon (C) agree.

import ast
import json
import os

from report import AnalysisError, VERIF
from pyfront import Repo, canon, calls_in
from pyutil import rel, params
from consteval import Ev, fold, Unknown, Raised
from layout import Enc, Dec, bitfields, byte_ref, fold_field
import exprnf as X

EXPLANATION = (
    "The layout descriptors extracted from data_msg.py by byte-layout abstract "
    "interpretation (see C01) are compared with the reference layout "
    "spec/trxd.json (catches symmetric errors a self round trip cannot see); the "
    "MTS octet and the soft-bit tables are folded against the reference; "
    "trxcon's receive and transmit paths are read from the clang AST of "
    "trx_if.c: field <- octet expressions of the burst indication, header "
    "length, version test, accepted payload lengths, soft-bit conversion folded "
    "over all 256 octet values and compared entry by entry with Python's table, "
    "FN bound, dominance of every buffer read by the length checks, transmit "
    "stores, and mutual buffer-size sufficiency.")
ASSUMPTIONS = [
    "osmo_load32be(p) / osmo_store32be(v, p): 32-bit big-endian load/store at p; memcpy(d, s, n) writes d[0..n-1]",
    "numeric equality of decoded values for every message is not enumerated; the field<-octet expressions are compared",
]
F = rel("data_msg")
FMT = {"u8": "B", "be_u32": ">L", "be_i16": ">h"}


def load_spec():
    with open(os.path.join(VERIF, "spec", "trxd.json")) as f:
        return json.load(f)


def bits_layout(fields, size):
    """[(name, shift, width)] from an MSB-first list of [name, width]"""
    out = []
    pos = size * 8
    for name, w in fields:
        pos -= w
        out.append((name, pos, w))
    return out


def r1_python_vs_spec(L, repo, spec):
    import importlib
    c01 = importlib.import_module("rules.c01")
    L.unit(F)
    mod = repo.mod("data_msg")
    known = list(fold(repo, mod, ast.parse("Msg.KNOWN_VERSIONS", mode="eval").body))
    n = 0
    for cls, key in (("TxMsg", "Tx"), ("RxMsg", "Rx")):
        ci = repo.need_class("data_msg", cls)
        for ver in known:
            sp = spec[key].get(str(ver))
            if sp is None:
                L.ob("C04.R1", F, cls, "header version %d of %s is described by the reference layout" % (ver, cls), "present", "missing", False)
                continue
            fn = "%s v%d" % (cls, ver)
            L.fn(F, cls + ".gen_msg")
            L.fn(F, cls + ".parse_msg")
            segs = Enc(repo, ci, ver, True, False).run()
            dec = Dec(repo, ci, ver, True)
            fields = dec.run()
            msg = dec.msg
            by_off = {s.off: s for s in segs if s.off is not None}
            hdr_len = sum(s.size for s in segs if s.kind in ("append", "pack"))
            L.require("C04.R1", F, cls + ".gen_msg", "%s: header length" % fn, sp["hdr_len"], hdr_len)
            for fd in spec["hdr_common"] + sp["fields"]:
                n += 1
                s = by_off.get(fd["off"])
                if s is None or s.size != fd["size"]:
                    L.ob("C04.R1", F, cls + ".gen_msg", "%s: a %d-octet field is written at octet %d (%s)" % (
                        fn, fd["size"], fd["off"], fd.get("name", "bits")), "segment", repr(s), False)
                    continue
                if fd["kind"] == "bits" and fd.get("name") != "mts":
                    ce = c01.classify_enc(s.expr)
                    want = [(nm, sh, w) for nm, sh, w in bits_layout(fd["fields"], fd["size"]) if nm]
                    got = ce[1] if ce[0] == "bits" else ce
                    okb = ce[0] == "bits" and [(g[0], g[1]) for g in got] == [(w_[0], w_[1]) for w_ in want] and \
                        all(g[2] is None or g[2] == w_[2] for g, w_ in zip(got, want))
                    L.ob("C04.R1", F, cls + ".gen_msg", "%s: octet %d packs %s (MSB first), reserved bits zero" % (
                        fn, fd["off"], fd["fields"]), want, got, okb, s.node.lineno if hasattr(s.node, "lineno") else None)
                    for nm, sh, w in want:
                        d = fields.get(nm)
                        cd = c01.classify_dec(d, msg) if d is not None else None
                        okd = cd is not None and cd[0] == "bits" and cd[1] == fd["off"] and cd[2] == sh and (
                            cd[3] == w or (cd[3] is None and sh + w == 8 * fd["size"]))
                        L.ob("C04.R1", F, cls + ".parse_msg", "%s: `%s` is read from octet %d bits %d..%d" % (
                            fn, nm, fd["off"], sh + w - 1, sh), ("bits", fd["off"], sh, w), cd, okd)
                elif fd["kind"] == "bits" and fd.get("name") == "mts":
                    ce = c01.classify_enc(s.expr)
                    L.require("C04.R1", F, cls + ".append_hdr_to", "%s: MTS octet is produced by gen_mts() at octet %d" % (fn, fd["off"]),
                              ("call", "self.gen_mts()"), ce)
                    calls = [(nm, [canon(a) for a in args]) for nm, args, _ in dec.calls if nm == "parse_mts"]
                    L.require("C04.R1", F, cls + ".parse_hdr", "%s: MTS octet is parsed from octet %d" % (fn, fd["off"]),
                              [("parse_mts", ["%s[%d]" % (msg, fd["off"])])], calls)
                else:
                    ce = c01.classify_enc(s.expr)
                    want = ("field", fd["name"], bool(fd.get("neg")))
                    L.require("C04.R1", F, cls + ".gen_msg", "%s: octet %d carries `%s`%s as %s" % (
                        fn, fd["off"], fd["name"], " negated" if fd.get("neg") else "", fd["kind"]),
                        (want, FMT[fd["kind"]]), (ce, s.fmt))
                    d = fields.get(fd["name"])
                    cd = c01.classify_dec(d, msg) if d is not None else None
                    if FMT[fd["kind"]] == "B":
                        wd = ("byte", fd["off"], bool(fd.get("neg")))
                    else:
                        wd = ("unpack", FMT[fd["kind"]], fd["off"], fd["off"] + fd["size"])
                    if cd is not None and cd != wd and cd[0] == "other" and fd["size"] <= 2:
                        ok_, info = fold_field(repo, mod, d, msg, fd["off"], fd["size"], FMT[fd["kind"]], bool(fd.get("neg")))
                        if ok_ is None:
                            raise AnalysisError("C04: decoder expression of `%s` unclassifiable (%s)" % (fd["name"], info))
                        L.ob("C04.R1", F, cls + ".parse_msg", "%s: `%s` is decoded from octet %d as %s%s (hand-written decoder folded over all %d octet values)" % (
                            fn, fd["name"], fd["off"], fd["kind"], " negated" if fd.get("neg") else "", 256 ** fd["size"]),
                            "equal for all octet values", info, ok_ is True)
                        continue
                    L.require("C04.R1", F, cls + ".parse_msg", "%s: `%s` is decoded from octet %d as %s%s" % (
                        fn, fd["name"], fd["off"], fd["kind"], " negated" if fd.get("neg") else ""), wd, cd)
            # nothing else in the header
            extra = sorted(set(by_off) - {fd["off"] for fd in spec["hdr_common"] + sp["fields"]} -
                           {s.off for s in segs if s.kind in ("extend", "pad")})
            L.ob("C04.R1", F, cls + ".gen_msg", "%s: no octet outside the documented header fields is written" % fn, [], extra, not extra)
            bs = [s for s in segs if s.kind == "extend"]
            L.require("C04.R1", F, cls + ".gen_msg", "%s: burst offset and coding" % fn,
                      (sp["burst"]["off"], "self.burst" if sp["burst"]["coding"] == "ubit" else "self.sbit2usbit(self.burst)"),
                      (bs[0].off, canon(bs[0].expr)) if bs else None)
    L.floor("C04.R1", "reference fields compared", n, 16)
    # MTS against the reference table
    rci = repo.need_class("data_msg", "RxMsg")
    mci = repo.need_class("data_msg", "Modulation")
    members = {m.name: m for m in Ev(repo, mod).enum_members(mci)}
    c, gen = repo.find_method(rci, "gen_mts")
    ms = spec["mts"]
    L.require("C04.R1", F, "Modulation", "modulation table (names)", sorted(ms["modulations"]), sorted(members))
    bad = []
    for name, sm in ms["modulations"].items():
        m = members.get(name)
        if m is None:
            continue
        if m.attrs.get("coding") != sm["coding"] or m.attrs.get("bl") != sm["burst_len"]:
            bad.append((name, m.attrs))
            continue
        for ts in range(1 << sm["set_bits"]):
            for tsc in range(1 << ms["tsc_width"]):
                r = Ev(repo, mod, env={"self.nope_ind": False, "self.tsc": tsc, "self.tsc_set": ts, "self.mod_type": m},
                       self_cls=rci).run_block(gen.body)
                want = ((sm["coding"] | ts) << ms["mod_shift"]) | tsc
                if r[1] != want:
                    bad.append((name, ts, tsc, r[1], want))
    L.ob("C04.R1", F, "RxMsg.gen_mts", "MTS octet = modulation code | TSC set in bits 6..3, TSC in bits 2..0 for every table entry", [], bad[:4], not bad)
    r = Ev(repo, mod, env={"self.nope_ind": True}, self_cls=rci).run_block(gen.body)
    L.require("C04.R1", F, "RxMsg.gen_mts", "NOPE indication sets bit 7 only", 1 << ms["nope_bit"], r[1])
    # soft-bit coding on the wire
    tabs = c01.r3_tables.__globals__  # noqa (documentation: tables are checked by C01.R3)
    mc = repo.need_class("data_msg", "Msg")
    c2, v = repo.find_attr(mc, "_tab_sbit2usbit")
    t = Ev(repo, mod, self_cls=mc).ev(v)
    bad = [s for s in range(-127, 128) if t[s & 0xff] != 127 - s]
    L.ob("C04.R1", F, "Msg", "soft bits go on the wire as 127 - s (0..254)", [], bad[:4], not bad)
    c2, v = repo.find_attr(mc, "_tab_usbit2sbit")
    us2s = Ev(repo, mod, self_cls=mc).ev(v)
    return us2s


def r2_r3_trxcon(L, repo, spec, us2s):
    from cfront import (TU, CCFG, kids, kind, strip, walk, ctext, calls_to, call_args, CLower, fold_env,
                        array_extent, expr_guards)
    tu = TU(L.repo, "trxcon", "src/trx_if.c", L=L)
    FC = tu.rel
    f = tu.func("trx_data_rx_cb")
    L.fn(FC, "trx_data_rx_cb")
    g = CCFG(tu, f)
    body = tu.body(f)
    sp = spec["Rx"]["0"]
    # the burst indication initialiser
    cl = [n for n in walk(body) if kind(n) == "CompoundLiteralExpr" and "trxcon_phyif_burst_ind" in n.get("type", {}).get("qualType", "")]
    il = None
    if cl:
        il = strip(kids(cl[0])[0])
    else:
        decl = [n for n in walk(body) if kind(n) == "VarDecl" and "trxcon_phyif_burst_ind" in n.get("type", {}).get("qualType", "") and kids(n)]
        if decl:
            il = strip(kids(decl[0])[-1])
    if il is None or kind(il) != "InitListExpr":
        raise AnalysisError("trx_data_rx_cb: burst indication initialiser not found")
    names = [nm for nm, _ in tu.record_fields("trxcon_phyif_burst_ind")]
    vals = dict(zip(names, kids(il)))

    def resolve_local(e, depth=0):
        """a local scalar that is assigned exactly once (declaration initialiser or one `=`), before the indication
        is built, stands for the assigned expression (e.g. `fn = osmo_load32be(buf + 1); ... .fn = fn`)"""
        b = strip(e, casts=False)
        if kind(b) != "DeclRefExpr" or depth > 3:
            return e
        nm = ctext(b)
        if nm in ("buf", "read_len", "burst"):
            return e
        defs = []
        for n in walk(body):
            if kind(n) == "BinaryOperator" and n.get("opcode") == "=" and ctext(kids(n)[0]) == nm:
                defs.append((n, kids(n)[1]))
            elif kind(n) == "VarDecl" and n.get("name") == nm and kids(n):
                defs.append((n, kids(n)[-1]))
            elif kind(n) in ("CompoundAssignOperator",) and ctext(kids(n)[0]) == nm:
                return e
            elif kind(n) == "UnaryOperator" and n.get("opcode") in ("++", "--", "&") and ctext(kids(n)[0]) == nm:
                return e
        if len(defs) != 1:
            return e
        dn, rhs = defs[0]
        try:
            if not g.dominates(g.node_of(dn), init_node0):
                return e
        except Exception:
            return e
        return resolve_local(rhs, depth + 1)
    init_node0 = g.node_of(il)
    vals_raw = dict(vals)
    vals = {k: resolve_local(v) for k, v in vals.items()}
    init_node = g.node_of(il)
    lits = g.guard_lits(init_node)
    low = CLower(tu, keep_casts=True)
    # tn
    t = low.lower(vals["tn"])
    bf = bitfields(t)
    want_tn = [(nm, sh, w) for nm, sh, w in bits_layout(spec["hdr_common"][0]["fields"], 1) if nm == "tn"][0]
    ok = len(bf) == 1 and bf[0][0] == ("idx", X.V("buf"), X.C(0)) and bf[0][1] == -want_tn[1] and bf[0][2] == want_tn[2]
    L.ob("C04.R2", FC, "trx_data_rx_cb", "timeslot is taken from octet 0 bits 2..0", "buf[0] & 7", ctext(vals["tn"]), ok, tu.line(vals["tn"]))
    # fn
    L.require("C04.R2", FC, "trx_data_rx_cb", "frame number is the 32-bit big-endian value at octets 1..4", "osmo_load32be((buf + 1))",
              ctext(vals["fn"]), line=tu.line(vals["fn"]))
    # rssi
    rs = strip(vals["rssi"])
    okr = kind(rs) == "UnaryOperator" and rs.get("opcode") == "-" and ctext(strip(kids(rs)[0], casts=True)) == "buf[5]"
    cast = strip(kids(rs)[0]) if okr else None
    ct = cast.get("type", {}).get("qualType") if cast is not None and kind(cast) == "CStyleCastExpr" else None
    L.ob("C04.R2", FC, "trx_data_rx_cb", "RSSI is the negated octet 5", "-(int8_t)buf[5]", ctext(vals["rssi"]), okr and ct in (None, "int8_t", "int", "int16_t"),
         tu.line(vals["rssi"]))
    rmax = 120
    L.ob("C04.R2", FC, "trx_data_rx_cb", "every RSSI octet of a valid message (47..120) survives the %s cast" % ct, "<= 127", rmax,
         ct != "int8_t" or rmax <= 127)
    # toa256
    tt = low.lower(vals["toa256"])

    def strip_cast(x):
        return x[2] if x[0] == "call" and str(x[1]).startswith("cast:int16_t") else x
    parts = tt[1:] if tt[0] == "|" else ()
    hi = [p for p in parts if strip_cast(p) == ("*", X.C(256), ("idx", X.V("buf"), X.C(6)))]
    lo = [p for p in parts if p == ("idx", X.V("buf"), X.C(7))]
    signed = any(p[0] == "call" and "int16_t" in str(p[1]) for p in parts) or (tt[0] == "call" and "int16_t" in str(tt[1]))
    if tt[0] == "call" and "int16_t" in str(tt[1]):
        inner = tt[2]
        parts = inner[1:] if inner[0] == "|" else ()
        hi = [p for p in parts if p == ("*", X.C(256), ("idx", X.V("buf"), X.C(6)))]
        lo = [p for p in parts if p == ("idx", X.V("buf"), X.C(7))]
    L.ob("C04.R2", FC, "trx_data_rx_cb", "ToA256 is the signed 16-bit big-endian value at octets 6..7",
         "(int16_t)(buf[6] << 8) | buf[7]", ctext(vals["toa256"]), len(hi) == 1 and len(lo) == 1 and len(parts) == 2 and signed,
         tu.line(vals["toa256"]))
    # burst pointer
    bptr = ctext(vals["burst"])
    bdefs = [n for n in walk(body) if kind(n) == "BinaryOperator" and n.get("opcode") == "=" and ctext(kids(n)[0]) == bptr]
    bsrc = [ctext(strip(kids(n)[1], casts=True)) for n in bdefs] if bdefs else [ctext(strip(vals["burst"], casts=True))]
    L.require("C04.R2", FC, "trx_data_rx_cb", "soft bits start right after the %d-octet v0 header" % sp["hdr_len"],
              ["&buf[%d]" % sp["hdr_len"]], bsrc)
    L.require("C04.R2", FC, "trx_data_rx_cb", "burst length handed on is the validated payload length", "read_len", ctext(vals["burst_len"]))
    # guards at the initialiser: length >= header, version 0
    L.ob("C04.R2", FC, "trx_data_rx_cb", "header fields are read only from datagrams of at least %d octets" % sp["hdr_len"],
         "not read_len < %d" % sp["hdr_len"], sorted(("" if p else "!") + t_ for t_, p in lits)[:8],
         ("read_len < %d" % sp["hdr_len"], False) in lits, tu.line(il))
    L.ob("C04.R2", FC, "trx_data_rx_cb", "only header version 0 is accepted (octet 0 bits 7..4)", "(buf[0] >> 4) == 0",
         sorted(("" if p else "!") + t_ for t_, p in lits)[:8], ("(buf[0] >> 4) == 0", True) in lits or ("0 == (buf[0] >> 4)", True) in lits,
         tu.line(il))
    # payload lengths: the length classification is comparison-only code over read_len; it is folded
    # for every datagram length 1..sizeof(buf) whatever shape it is written in (switch, if-chain, ...)
    from cfront import CInterp, CStop
    bufdecl0 = [n for n in walk(body) if kind(n) == "VarDecl" and n.get("name") == "buf"]
    ext0 = array_extent(bufdecl0[0].get("type", {}).get("qualType")) if bufdecl0 else None
    if ext0 is None:
        raise AnalysisError("trx_data_rx_cb: receive buffer extent unknown")

    def is_stop(st):
        # the point where the burst indication is built
        return kind(st) not in ("CompoundStmt", "IfStmt", "SwitchStmt", "DoStmt", "ForStmt", "WhileStmt") and \
            any(x is il for x in walk(st))
    accepted = {}
    want = {}
    for bl in sp["burst"]["lengths"]:
        want[sp["hdr_len"] + bl] = bl
        want[sp["hdr_len"] + bl + sp["burst"]["legacy_pad"]] = bl
    from cfront import call_args

    def read_hook(e, env, Ln):
        # read()/recv() deliver at most the capacity passed as the third argument: a longer datagram is truncated
        args = call_args(e)
        cap = fold_env(tu, args[2], env) if len(args) >= 3 else None
        if cap is None:
            cap = tu.fold(args[2]) if len(args) >= 3 else None
        if cap is None:
            raise AnalysisError("trx_data_rx_cb: receive capacity `%s` does not fold" % (ctext(args[2]) if len(args) >= 3 else "?"))
        caps.add(cap)
        return min(Ln, cap)
    caps = set()
    top = max(ext0, max(sp["burst"]["lengths"]) + sp["hdr_len"] + sp["burst"]["legacy_pad"] + 8)
    for Ln in range(1, top + 1):
        # the datagram folded is one with a legal header (version 0, frame number 0): only its length varies
        hooks = {"read": lambda e, env, Ln=Ln: read_hook(e, env, Ln), "recv": lambda e, env, Ln=Ln: read_hook(e, env, Ln),
                 "osmo_load32be": lambda e, env: 0, "osmo_load16be": lambda e, env: 0}
        if caps and Ln > max(caps) and Ln not in want:
            continue        # longer than the receive capacity and not a legal length: outside the property (arrives truncated)
        ci_ = CInterp(tu, hooks=hooks, stop=is_stop)
        env = {"buf[0]": 0}
        try:
            r = ci_.run(body, env)
            accepted[Ln] = None          # returned before building the indication
        except CStop as stp:
            accepted[Ln] = stp.env.get("read_len")
    got = {k: v for k, v in accepted.items() if v is not None}
    L.require("C04.R2", FC, "trx_data_rx_cb",
              "accepted datagram lengths and the burst length handed on (header + {148, 444}, with or without the 2 legacy octets which are stripped; a datagram longer than the receive capacity arrives truncated); every other length 1..%d is rejected" % top,
              want, got, line=tu.line(il))
    L.extra["c04_lengths_folded"] = ext0
    # soft-bit conversion: fold the loop body for all 256 octet values
    loops = [n for n in walk(body) if kind(n) == "ForStmt"]
    conv = {}
    from cfront import wrap_int
    if len(loops) == 1:
        lb = loops[0]["inner"][4]
        srcs = {ctext(n) for n in walk(lb) if kind(n) == "ArraySubscriptExpr" and ctext(kids(n)[0]) == "buf"}
        if len(srcs) == 1:
            src = list(srcs)[0]
            L.require("C04.R2", FC, "trx_data_rx_cb", "soft-bit source octet", "buf[(8 + i)]", src)

            def run_c(st, env, out):
                """if/else + assignment interpreter over folded conditions (comparison-only loop body)"""
                k = kind(st)
                if k == "CompoundStmt":
                    for x in kids(st):
                        run_c(x, env, out)
                elif k == "IfStmt":
                    inner = st["inner"]
                    c = fold_env(tu, inner[0], env)
                    if c is None:
                        raise AnalysisError("soft-bit conversion: condition does not fold: %s" % ctext(inner[0]))
                    if c:
                        run_c(inner[1], env, out)
                    elif st.get("hasElse"):
                        run_c(inner[2], env, out)
                elif k == "BinaryOperator" and st.get("opcode") == "=" and ctext(kids(st)[0]).startswith("burst["):
                    v = fold_env(tu, kids(st)[1], env)
                    out.append(None if v is None else wrap_int(v, "int8_t"))
                elif k in ("NullStmt",):
                    pass
                else:
                    raise AnalysisError("soft-bit conversion: statement unclassifiable: %s" % k)
            for u in range(256):
                out = []
                run_c(lb, {src: u}, out)
                conv[u] = out[-1] if len(out) >= 1 else None
    if len(conv) != 256 or any(v is None for v in conv.values()):
        raise AnalysisError("trx_data_rx_cb: soft-bit conversion loop unclassifiable")
    bad = [(u, conv[u], us2s[u]) for u in range(256) if conv[u] != us2s[u]]
    L.ob("C04.R2", FC, "trx_data_rx_cb", "trxcon's soft-bit conversion equals the toolkit's usbit2sbit table for all 256 octet values", [], bad[:4], not bad)
    bad = [(u, conv[u]) for u in range(255) if conv[u] != 127 - u]
    L.ob("C04.R2", FC, "trx_data_rx_cb", "soft bit = 127 - octet for 0..254, 255 -> -127 (reference)", [], bad[:4], not bad and conv[255] == -127)
    # loop bound
    lc = ctext(loops[0]["inner"][2]) if loops else None
    L.require("C04.R2", FC, "trx_data_rx_cb", "conversion loop covers exactly the burst", "(i < bi.burst_len)", lc)
    # FN bound
    hb = calls_to(f, "trxcon_phyif_handle_burst_ind")
    L.floor("C04.R2", "burst indication delivery", len(hb), 1)
    H = 2715648
    for c in hb:
        cl_ = g.guard_lits(g.node_of(c))
        L.ob("C04.R2", FC, "trx_data_rx_cb", "a burst is delivered only for FN < 2715648 (the toolkit's GSM_HYPERFRAME)",
             "bi.fn < %d" % H, sorted(("" if p else "!") + t_ for t_, p in cl_ if "fn" in t_),
             any(("%s < %d" % (x_, H), True) in cl_ for x_ in ("bi.fn", ctext(vals_raw["fn"]), ctext(vals["fn"]))), tu.line(c))
    Hpy = fold(repo, repo.mod("gsm_shared"), ast.parse("GSM_HYPERFRAME", mode="eval").body)
    L.require("C04.R2", rel("gsm_shared"), "<module>", "toolkit's GSM_HYPERFRAME equals trxcon's GSM_TDMA_HYPERFRAME", H, Hpy)
    L.unit(rel("gsm_shared"))
    # buffer
    bufdecl = [n for n in walk(body) if kind(n) == "VarDecl" and n.get("name") == "buf"]
    ext = array_extent(bufdecl[0].get("type", {}).get("qualType")) if bufdecl else None
    largest = sp["hdr_len"] + max(sp["burst"]["lengths"]) + sp["burst"]["legacy_pad"]
    L.ob("C04.R4", FC, "trx_data_rx_cb", "trxcon's receive buffer holds the largest v0 Rx datagram the toolkit sends (%d octets incl. legacy padding)" % largest,
         ">= %d" % largest, ext, ext is not None and ext >= largest)
    # ---- transmit path
    f2 = tu.func("trx_if_handle_phyif_burst_req")
    L.fn(FC, "trx_if_handle_phyif_burst_req")
    b2 = tu.body(f2)
    spt = spec["Tx"]["0"]
    stores = {}
    for n in walk(b2):
        if kind(n) == "BinaryOperator" and n.get("opcode") == "=" and ctext(kids(n)[0]).startswith("buf["):
            stores[ctext(kids(n)[0])] = ctext(kids(n)[1])
    P = tu.fparams(f2)[1].get("name")
    L.require("C04.R3", FC, "trx_if_handle_phyif_burst_req", "octet 0 carries the timeslot (version nibble 0 for tn <= 7), octet 5 the attenuation",
              {"buf[0]": "%s->tn" % P, "buf[5]": "%s->pwr" % P}, stores)
    st32 = [[ctext(a) for a in call_args(c)] for c in calls_to(f2, "osmo_store32be")]
    L.require("C04.R3", FC, "trx_if_handle_phyif_burst_req", "frame number stored big-endian at octets 1..4", [["%s->fn" % P, "(buf + 1)"]], st32)
    mc = [[ctext(a) for a in call_args(c)] for c in calls_to(f2, "memcpy")]
    L.require("C04.R3", FC, "trx_if_handle_phyif_burst_req", "hard bits copied right after the %d-octet header" % spt["hdr_len"],
              [["(buf + %d)" % spt["hdr_len"], "%s->burst" % P, "%s->burst_len" % P]], mc)
    snd = [[ctext(a) for a in call_args(c)] for c in calls_to(f2, "send")]
    lens = {}
    for n in walk(b2):
        if kind(n) in ("BinaryOperator", "CompoundAssignOperator") and n.get("opcode") in ("=", "+=") and ctext(kids(n)[0]) == "length":
            lens.setdefault(n.get("opcode"), []).append(ctext(kids(n)[1]))
    L.require("C04.R3", FC, "trx_if_handle_phyif_burst_req", "datagram length = header + burst length", {"=": ["6"], "+=": ["%s->burst_len" % P]}, lens)
    L.ob("C04.R3", FC, "trx_if_handle_phyif_burst_req", "exactly that many octets of buf are sent on the data socket",
         "send(trx->trx_ofd_data.fd, buf, length, 0)", snd, snd == [["trx->trx_ofd_data.fd", "buf", "length", "0"]])
    # Python receive size
    ci, rr = repo.need_method("data_if", "DATAInterface", "recv_raw_data")
    L.unit(rel("data_if"))
    sizes = []
    for c in calls_in(rr):
        if canon(c.func).endswith(".recvfrom"):
            sizes.append(Ev(repo, repo.mod("data_if"), self_cls=ci).ev(c.args[0]))
    largest_tx = spt["hdr_len"] + max(spt["burst"]["lengths"])
    L.ob("C04.R4", rel("data_if"), "DATAInterface.recv_raw_data", "the toolkit's data socket receive size holds trxcon's largest datagram (%d octets)" % largest_tx,
         ">= %d" % largest_tx, sizes, len(sizes) == 1 and sizes[0] >= largest_tx)
    bd2 = [n for n in walk(b2) if kind(n) == "VarDecl" and n.get("name") == "buf"]
    ext2 = array_extent(bd2[0].get("type", {}).get("qualType")) if bd2 else None
    L.ob("C04.R4", FC, "trx_if_handle_phyif_burst_req", "trxcon's transmit buffer holds header + the largest burst (%d)" % largest_tx,
         ">= %d" % largest_tx, ext2, ext2 is not None and ext2 >= largest_tx)


def run(L, tier):
    repo = Repo(L.repo)
    spec = load_spec()
    us2s = L.stage(r1_python_vs_spec, L, repo, spec)
    L.stage(r2_r3_trxcon, L, repo, spec, us2s)
